import HeimdallModel.Model.Signer
/-!
# What C16 demands of issued tokens and of the published key set

* `specClaim`: the claims of a token as a function from names to values: the six system claims have the values
  `Sign` computes from subject, issuer name, clock and TTL; every other name has the value the custom claims gave it.
* `verifiesFirst`: verification as go-jose does it against a JWK set: the *first* key carrying the token's key id is
  used; `verifiesAny`: some published key with that id and algorithm verifies.
* `Consistent`: what one generation of the signer state has to satisfy for both.
* `privateMembers`: the JWK member names that carry private key material (RFC 7518 section 6.2.2, 6.3.2, 6.4).
-/
namespace Heimdall.Signer

variable {α : Type}

/-- the claim names `Sign` owns -/
def reserved : List String := ["sub", "iss", "iat", "nbf", "exp", "jti"]

def reservedSrc (k : String) : Option SysSrc :=
  if k = "sub" then some .sub else if k = "iss" then some .iss else if k = "iat" then some .iat
  else if k = "nbf" then some .nbf else if k = "exp" then some .exp else if k = "jti" then some .jti else none

/-- the claim set the property describes -/
def specClaim (custom : Claims α) (i : SignIn) (k : String) : Option (CVal α) :=
  match reservedSrc k with
  | some s => some (sysVal i s)
  | none => lookup k custom

/-- the operations neither merge the custom claims nor write `k` -/
def untouched (k : String) (post : List ClaimOp) : Bool :=
  post.all (fun op => match op with
    | .merge => false
    | .set k' _ => decide (k' ≠ k))

/-- a signature made with `t.signedBy` verifies under `j`: same key id and algorithm, and `j` describes the public half
of the signing key (the one fact about signatures used; validated against go-jose by the correspondence check) -/
def verifiesWith (j : Jwk) (t : Token α) : Bool :=
  decide (j.kid = t.kid) && decide (j.alg = t.alg) && decide (j.pub = t.signedBy.pub)

def verifiesAny (ks : List Jwk) (t : Token α) : Bool := ks.any (fun j => verifiesWith j t)

/-- go-jose (`tryJWKS`): the first key of the set with the token's key id decides -/
def verifiesFirst (ks : List Jwk) (t : Token α) : Bool :=
  match ks.find? (fun j => j.kid = t.kid) with
  | some j => verifiesWith j t
  | none => false

/-- one generation of the guarded fields is fit for signing and publication -/
structure Consistent (st : State) : Prop where
  active_published : st.jwk ∈ st.pubKeys
  pair             : st.jwk.pub = st.key.pub
  kids_unique      : (st.pubKeys.map (·.kid)).Nodup
  alg_of_key       : joseAlg st.key.pub = some st.jwk.alg
  all_sig          : ∀ j ∈ st.pubKeys, j.use = "sig" ∧ joseAlg j.pub = some j.alg

/-- what a reader of the endpoint sees of one JWK apart from the algorithm: id, public key, certificates -/
def Jwk.face (j : Jwk) : String × PubKey × List Cert := (j.kid, j.pub, j.certs)

/-- every listing of the key store file is published: one JWK per key block, in file order, under the block's id,
with the block's public half and certificate chain — also when several blocks hold the very same key -/
def EveryListingPublished (raw : List RawEntry) (st : State) : Prop :=
  st.pubKeys.map Jwk.face = raw.map (fun e => (kidOf e, e.key.pub, e.chain))

/-- the file lists the key of the block `e` in another block as well, under another id -/
def SharedKey (raw : List RawEntry) (e : RawEntry) : Prop :=
  ∃ e' ∈ raw, e'.key.pub = e.key.pub ∧ kidOf e' ≠ kidOf e

def privateMembers : List String := ["d", "p", "q", "dp", "dq", "qi", "oth", "k"]

/-- forget the private part of every key of a key store file -/
def RawEntry.eraseSecret (e : RawEntry) : RawEntry := { e with key := { e.key with secret := 0 } }

/-- what a reader of the JWKS endpoint can learn about one signer: the published list -/
def State.view (st : State) : List Jwk := st.pubKeys

/-- no key published by an earlier key holder shares the token's key id with different key material -/
def NoClash (before : List State) (t : Token α) : Prop :=
  ∀ j ∈ published before, j.kid = t.kid → verifiesWith j t = true

end Heimdall.Signer
