import HeimdallModel.Model.Factory
/-!
# C14 — what the property demands of the rule factory (specification)

Stated without reference to how the factory loops over its input:

* which mechanism a step denotes (`Step.target`, `Step.mech`) and to which stage it belongs,
* the *own* mechanisms of a definition per stage (`own`), the stage-wise inheritance (`inherit`),
* `Ordered`: authenticators, then authorizers/contextualizers, then finalizers,
* `WellFormed`: the complete list of conditions under which a rule is accepted,
* `Spec.load`: the reference loader built from these (the oracle of the correspondence check).
-/
namespace Heimdall.Factory

/-- the `if` of a step guards its mechanism with an expression -/
def Cond.isExpr : Cond → Bool
  | .expr _ _ => true
  | _ => false

/-- the `if` of a step is absent or a boolean expression: one that parses, type-checks and whose **static result
type is `bool`** (not `int`, `string`, a list, a map — and not `dyn` either) -/
def Cond.usable : Cond → Bool
  | .absent => true
  | .expr _ t => decide (t = some .bool)
  | _ => false

/-- The mechanism reference a step of `execute` stands for: the first of the keys `authenticator`, `authorizer`,
`contextualizer`, `finalizer` that is present. -/
def Step.target (s : Step) : Option (Kind × String) :=
  match s.authenticator, s.authorizer, s.contextualizer, s.finalizer with
  | some id, _, _, _ => some (.authn, id)
  | none, some id, _, _ => some (.authz, id)
  | none, none, some id, _ => some (.ctx, id)
  | none, none, none, some id => some (.fin, id)
  | none, none, none, none => none

/-- the stage a step of `execute` belongs to -/
def Step.stage (s : Step) : Option Stage := s.target.map (·.1.stage)

/-- the mechanism a step of `execute` puts into the pipeline (authenticators are never conditional) -/
def Step.mech (s : Step) : Option Mech :=
  match s.target with
  | none => none
  | some (.authn, id) => some ⟨.authn, id, false, s.config⟩
  | some (k, id) => some ⟨k, id, s.cond.isExpr, s.config⟩

/-- the mechanism a step of `on_error` puts into the error pipeline -/
def Step.ehMech (s : Step) : Option Mech :=
  s.errorHandler.map fun id => ⟨.eh, id, s.cond.isExpr, s.config⟩

/-- the mechanisms of stage `st` that a definition (`execute` list, `on_error` list) names itself, in order -/
def own (st : Stage) (execute onError : List Step) : List Mech :=
  match st with
  | .errorHandling => onError.filterMap Step.ehMech
  | st => (execute.filterMap Step.mech).filter (fun m => m.kind.stage == st)

/-- the default rule's mechanisms of a stage; nothing when no default rule is configured -/
def ownDefault (st : Stage) : Option DefaultRule → List Mech
  | none => []
  | some d => own st d.execute d.onError

/-- stage-wise inheritance: the own mechanisms if there is at least one, otherwise the inherited ones -/
def inherit (own inherited : List Mech) : List Mech := if own ≠ [] then own else inherited

/-- the pipeline of stage `st` of an effective rule -/
def Pipelines.stage (p : Pipelines) : Stage → List Mech
  | .authentication => p.authn
  | .handling => p.sh
  | .finalization => p.fin
  | .errorHandling => p.eh

/-- `execute` is ordered: authenticators, then authorizers/contextualizers, then finalizers (and nothing else) -/
def Ordered (steps : List Step) : Prop :=
  ∃ as hs fs, steps = as ++ hs ++ fs ∧
    (∀ s ∈ as, s.stage = some .authentication) ∧
    (∀ s ∈ hs, s.stage = some .handling) ∧
    (∀ s ∈ fs, s.stage = some .finalization)

/-- position of a stage in the prescribed order -/
def Stage.rank : Stage → Nat
  | .authentication => 0
  | .handling => 1
  | .finalization => 2
  | .errorHandling => 3

/-- decision procedure for `Ordered`: every step belongs to a stage and stage positions never decrease, starting
at position `n` -/
def orderedFrom : Nat → List Step → Bool
  | _, [] => true
  | n, s :: ss =>
    match s.stage with
    | none => false
    | some st => decide (n ≤ st.rank) && orderedFrom st.rank ss

/-- the `if` of a step is usable: absent or a boolean expression (never looked at on authenticators) -/
def Step.condOk (s : Step) : Bool :=
  s.authenticator.isSome || s.cond.usable

/-- the step references a mechanism of its kind that the catalogue knows -/
def Step.known (cat : Catalogue) (s : Step) : Bool :=
  match s.target with
  | none => false
  | some (k, id) => (cat k id).isSome

/-- the `config` of the step, if any, is an override its mechanism accepts (vacuous for unknown mechanisms) -/
def Step.overrideOk (cat : Catalogue) (s : Step) : Bool :=
  match s.target, s.config with
  | some (k, id), some t =>
    match cat k id with
    | some accepted => accepted.contains t
    | none => true
  | _, _ => true

/-- the same three conditions for a step of `on_error` -/
def Step.ehOk (cat : Catalogue) (s : Step) : Bool :=
  match s.errorHandler with
  | none => false
  | some id =>
    s.cond.usable &&
    match cat .eh id, s.config with
    | none, _ => false
    | some _, none => true
    | some accepted, some t => accepted.contains t

/-- both lists of a definition are usable by themselves -/
structure ListsOk (cat : Catalogue) (execute onError : List Step) : Prop where
  /-- ordered authenticators, authorizers/contextualizers, finalizers; nothing unsupported -/
  ordered : Ordered execute
  /-- only known mechanisms -/
  known : ∀ s ∈ execute, s.known cat = true
  /-- only acceptable overrides -/
  overrides : ∀ s ∈ execute, s.overrideOk cat = true
  /-- only usable conditions -/
  conds : ∀ s ∈ execute, s.condOk = true
  /-- `on_error` names known error handlers with acceptable overrides and usable conditions -/
  handlers : ∀ s ∈ onError, s.ehOk cat = true

/-- a default rule the configuration loader accepts -/
structure DefaultWellFormed (cat : Catalogue) (d : DefaultRule) : Prop extends ListsOk cat d.execute d.onError where
  unique : d.execute.Nodup ∧ d.onError.Nodup
  authenticator : own .authentication d.execute d.onError ≠ []

/-- the configuration (default rule absent or well-formed) -/
def ConfigWellFormed (cat : Catalogue) : Option DefaultRule → Prop
  | none => True
  | some d => DefaultWellFormed cat d

/-- a rule that must be accepted; everything else must be rejected -/
structure WellFormed (cat : Catalogue) (proxy validated : Bool) (d : Option DefaultRule) (r : RuleDef) : Prop
    extends ListsOk cat r.execute r.onError where
  /-- `execute` is mandatory in validated rule set documents -/
  nonempty : validated = true → r.execute ≠ []
  /-- proxy mode needs `forward_to` -/
  forward : proxy = true → r.forwardTo = true
  /-- the rule ends up with an authenticator, its own or the default rule's -/
  authenticator : inherit (own .authentication r.execute r.onError) (ownDefault .authentication d) ≠ []

namespace Spec

/-- executable form of `ListsOk` -/
def listsOk (cat : Catalogue) (execute onError : List Step) : Bool :=
  orderedFrom 0 execute && execute.all (fun s => s.known cat && s.overrideOk cat && s.condOk) &&
    onError.all (fun s => s.ehOk cat)

def configOk (cat : Catalogue) : Option DefaultRule → Bool
  | none => true
  | some d => listsOk cat d.execute d.onError && decide d.execute.Nodup && decide d.onError.Nodup &&
      !(own .authentication d.execute d.onError).isEmpty

def ruleOk (cat : Catalogue) (proxy validated : Bool) (d : Option DefaultRule) (r : RuleDef) : Bool :=
  listsOk cat r.execute r.onError && (!validated || !r.execute.isEmpty) && (!proxy || r.forwardTo) &&
    !(inherit (own .authentication r.execute r.onError) (ownDefault .authentication d)).isEmpty

/-- the pipelines the property prescribes -/
def pipelines (d : Option DefaultRule) (execute onError : List Step) : Pipelines :=
  ⟨inherit (own .authentication execute onError) (ownDefault .authentication d),
   inherit (own .handling execute onError) (ownDefault .handling d),
   inherit (own .finalization execute onError) (ownDefault .finalization d),
   inherit (own .errorHandling execute onError) (ownDefault .errorHandling d)⟩

/-- the backtracking setting the property prescribes: own, else the default rule's, else off -/
def backtracking (d : Option DefaultRule) (r : RuleDef) : Bool :=
  r.backtracking.getD ((d.map (·.backtracking)).getD false)

/-- the effective rule the property prescribes -/
def effective (d : Option DefaultRule) (r : RuleDef) : Effective :=
  { toPipelines := pipelines d r.execute r.onError, backtracking := backtracking d r, upstream := r.forwardTo }

/-- the factory state the property prescribes for a configuration -/
def factory (proxy : Bool) (d : Option DefaultRule) : Factory :=
  ⟨proxy, d.map (fun d => pipelines none d.execute d.onError), (d.map (·.backtracking)).getD false⟩

/-- reference loader: accepted exactly when well-formed, and then with the prescribed effective rule -/
def load (cat : Catalogue) (proxy validated : Bool) (d : Option DefaultRule) (r : RuleDef) :
    Option (Option (Factory × Effective)) :=
  if !configOk cat d then none
  else if !ruleOk cat proxy validated d r then some none
  else some (some (factory proxy d, effective d r))

/-- reference loader for a history: every rule is judged by itself -/
def loadHistory (cat : Catalogue) (proxy validated : Bool) (d : Option DefaultRule) (rs : List RuleDef) :
    Option (List (Option Effective)) :=
  if !configOk cat d then none
  else some (rs.map fun r => if ruleOk cat proxy validated d r then some (effective d r) else none)

end Spec
end Heimdall.Factory
