import HeimdallModel.Model.ConfigYaml
import HeimdallModel.Spec.ConfigLeaf
/-!
# C20, dialect: the validation of the file must read a text as the loader does

"A configuration is usable from a file if and only if it is usable from the environment" needs the schema validation
(which judges the FILE) to see the very scalar the loader will merge, and the typing of an environment variable to see
the very scalar the file would deliver for the same text. A validator with another YAML dialect (YAML 1.1: `yes`, `no`,
`on`, `off`, `y`, `n` are booleans, `1:30` is 90) rejects files the loader supports ("got boolean, want string") while
the same text given by a variable still loads.

The text is what the file says after references to environment variables (`${var}`, `${var:=default}`) are resolved:
the loader resolves them before YAML reads the file, and so must the validation (`fixes/C20-3.patch`; on the unpatched
tree `ValidateConfig` judges the unresolved reference, a string: `port: ${PORT}` is rejected).

`validatorReads`, `loaderReads`, `envReads` name the three decoders; on the unchanged tree each is `readText`
(`Model/ConfigYaml.lean`). The obligation that the REAL three agree with it – and with each other – on the whole
pool of dialect-sensitive texts is discharged on every run by the correspondence check (harness op `readings`).
-/
namespace Heimdall.Config

/-- what `ValidateConfig` makes of the text at `key: text` of the file (`yaml.Unmarshal` of gopkg.in/yaml.v3) -/
def validatorReads (t : List Char) : Option Scalar := readText t
/-- what the loader makes of the same text of the file (`koanfFromYaml`: koanf's parser = gopkg.in/yaml.v3) -/
def loaderReads (t : List Char) : Option Scalar := readText t
/-- what the loader makes of the text of an environment variable (`toRealType`: gopkg.in/yaml.v3 on `val: text`) -/
def envReads (t : List Char) : Option Scalar := readText t

/-- the JSON types the schema of the static configuration asks for at its leaves -/
inductive JsonType where
  | string
  | boolean
  | integer
deriving Repr, DecidableEq

/-- the text of a float that has no fraction and is finite (`1000`, `-0`) -/
def integralShown (r : List Char) : Bool :=
  match r with
  | '-' :: d => !d.isEmpty && d.all isDigit
  | d => !d.isEmpty && d.all isDigit

/-- does the JSON schema accept the scalar where it wants `want`? (`integer` takes every number without a fraction;
    nil, timestamps and collections are none of the three) -/
def schemaAccepts (want : JsonType) (y : Scalar) : Bool :=
  match want, y with
  | .string, .str _ => true
  | .boolean, .bool _ => true
  | .integer, .int _ => true
  | .integer, .float r => integralShown r
  | _, _ => false

/-- what a load makes of one leaf -/
inductive Outcome where
  | rejected                 -- the schema validation refuses the file
  | leaf (l : Leaf)          -- the decoder ran (`Leaf.fail`: it failed)
deriving Repr, DecidableEq

def Outcome.usable : Outcome → Bool
  | .rejected => false
  | .leaf .fail => false
  | .leaf _ => true

/-- the file says `text` at a leaf of type `lt` where the schema wants `want`: the validator judges ITS reading, the
    decoder gets the LOADER's reading -/
def fileOutcome (lt : LeafType) (want : JsonType) (v l : Scalar) : Outcome :=
  if schemaAccepts want v then .leaf (decode lt l) else .rejected

/-- a variable carries `text` for the leaf: no validation, the decoder gets the reading of `toRealType` -/
def envOutcome (lt : LeafType) (e : Scalar) : Outcome := .leaf (decode lt e)

def fileOutcomeOf (lt : LeafType) (want : JsonType) (t : List Char) : Option Outcome :=
  (validatorReads t).bind fun v => (loaderReads t).map fun l => fileOutcome lt want v l

def envOutcomeOf (lt : LeafType) (t : List Char) : Option Outcome :=
  (envReads t).map fun e => envOutcome lt e

/-- the spellings YAML 1.1 reads as booleans and YAML 1.2 (the loader) as strings, the merge key, the YAML 1.1 "value"
    key and sexagesimal numbers: the texts about which decoders of different dialects disagree and that the loader
    reads as the string written -/
def dialectStrings : List (List Char) :=
  [c!"yes", c!"Yes", c!"YES", c!"no", c!"No", c!"NO", c!"on", c!"On", c!"ON", c!"off", c!"Off", c!"OFF",
   c!"y", c!"Y", c!"n", c!"N", c!"<<", c!"=", c!"1:30", c!"12:30", c!"190:20:30", c!"-1:30", c!"0o8", c!"0b2"]

/-- texts the loader does NOT read as the string written (the file has to quote them for a string property) -/
def dialectRetyped : List (List Char × Scalar) :=
  [(c!"~", .null), (c!"null", .null), (c!"0o17", .int 15), (c!"017", .int 15), (c!"0x1F", .int 31),
   (c!"1_000", .int 1000), (c!"1e3", .float c!"1000"), (c!".inf", .float c!"+Inf"), (c!".NaN", .float c!"NaN"),
   (c!"2001-12-14", .time), (c!"true", .bool true), (c!"08", .float c!"8")]

/-! ## references to environment variables in the file

The file may take a value from an environment variable of any name (`password: "${PW}"`, documented). The reference
is resolved in the TEXT of the file before YAML reads it (`Model/ConfigYaml.lean substitute`), by the loader and by the
validation alike. The property then demands of such a file what it demands of every file: it is equivalent to the file
that says the contents literally at the same place, and to the property's own variable carrying the same text. -/

/-- what the loader makes of `key: text` of a file that refers to variables (`koanfFromYaml`: `envsubst.EvalEnv`, then
    YAML) -/
def loaderReadsRef (vs : Vars) (t : List Char) : Option Scalar := readRefText vs t
/-- what `ValidateConfig` makes of it (`envsubst.EvalEnv`, then YAML: `fixes/C20-3.patch`, in /repo) -/
def validatorReadsRef (vs : Vars) (t : List Char) : Option Scalar := readRefText vs t

/-- `${NAME}` -/
def plainRef (n : List Char) : List Char := '$' :: '{' :: (n ++ ['}'])
/-- `"text"` -/
def dquoted (t : List Char) : List Char := '"' :: (t ++ ['"'])
/-- `'text'` -/
def squoted (t : List Char) : List Char := '\'' :: (t ++ ['\''])

/-- contents that may stand between double quotes as they are (no quote, no escape, one line) -/
def dquoteSafe (v : List Char) : Bool := v.all fun c => c != '"' && c != '\\' && c != '\n'
/-- contents that may stand between single quotes as they are -/
def squoteSafe (v : List Char) : Bool := v.all fun c => c != '\'' && c != '\n'
def noDollar (t : List Char) : Bool := t.all fun c => c != '$'

/-- the file says `text` (with references) at a leaf of type `lt` where the schema wants `want` -/
def fileOutcomeRef (lt : LeafType) (want : JsonType) (vs : Vars) (t : List Char) : Option Outcome :=
  (validatorReadsRef vs t).bind fun v => (loaderReadsRef vs t).map fun l => fileOutcome lt want v l

end Heimdall.Config
