import HeimdallModel.Model.ReqView
/-!
# C09, stated declaratively

* `Listed proxies remoteAddr`: "the address of the directly connected peer is listed in `trusted_proxies`" — at the
  level of addresses and address ranges, not of the byte comparisons of `net.IP`;
* `actualView`: method, scheme, host, path, query and client addresses taken from the connection and the request
  line only;
* `firstCI`: the first header line with a given name, compared case-insensitively on the lines *as sent*
  (no canonicalisation, no deletion) — the reference for "each present header overrides exactly its component";
* `specView`: the view the property demands.
-/
namespace Heimdall.Fwd

/-! ## tables -/

/-- two name tables have the same elements -/
def sameNames (a b : List String) : Prop := (∀ k ∈ a, k ∈ b) ∧ (∀ k ∈ b, k ∈ a)

instance (a b : List String) : Decidable (sameNames a b) := by unfold sameNames; exact inferInstance

/-! ## listed -/

/-- first address of the range `pre/plen` -/
def Net.lo (n : Net) : Nat := n.pre * 2 ^ (n.bits - n.plen)
/-- first address after the range -/
def Net.hi (n : Net) : Nat := (n.pre + 1) * 2 ^ (n.bits - n.plen)

/-- the address (16-byte form) lies in the range of the network; IPv4 and IPv4-mapped IPv6 are the same address,
    an IPv4 network contains no other IPv6 address and an IPv6 network no IPv4 address -/
def Net.lists (n : Net) (a : Nat) : Prop :=
  if isV4Mapped a then n.v4 = true ∧ n.lo ≤ a % 4294967296 ∧ a % 4294967296 < n.hi
  else n.v4 = false ∧ n.lo ≤ a ∧ a < n.hi

def Entry.lists : Entry → Nat → Prop
  | .single ip, a => ip = a
  | .net n, a => n.lists a

/-- the peer has an address, and some entry of `trusted_proxies` is a valid address or range that lists it -/
def Listed (proxies : List String) (remoteAddr : String) : Prop :=
  ∃ a, parseIP (ipFromHostPort remoteAddr) = some a ∧
    ∃ s ∈ proxies, ∃ e, parseEntry s = some e ∧ e.lists a

/-! ## the actual request -/

def peerIP (r : Req) : String := ipFromHostPort r.remoteAddr

def actualView (r : Req) : View :=
  { method := r.method, scheme := proto r, host := r.host, rawPath := r.path, query := r.rawQuery,
    ips := [peerIP r] }

/-- the `Forwarded` element describing the connection to heimdall itself -/
def ownForwarded (r : Req) : String := "for=" ++ peerIP r ++ ";host=" ++ r.host ++ ";proto=" ++ proto r

/-! ## header lines as sent -/

def eqIgnoreCase (a b : String) : Bool := a.toList.map lowerAscii == b.toList.map lowerAscii

/-- does the header line name belong to the forwarded family (any casing)? -/
def isFamilyName (name : String) : Bool := stripSet.any (eqIgnoreCase name)

/-- value of the first line named `name` (any casing), `""` when there is none -/
def firstCI (wire : Headers) (name : String) : String :=
  match wire.find? (fun kv => eqIgnoreCase kv.1 name) with
  | some kv => kv.2
  | none => ""

/-- values of all lines named `name` (any casing), in order of arrival -/
def allCI (wire : Headers) (name : String) : List String :=
  (wire.filter fun kv => eqIgnoreCase kv.1 name).map (·.2)

/-- the lines that do not belong to the forwarded family -/
def nonFamily (wire : Headers) : Headers := wire.filter fun kv => !isFamilyName kv.1

/-! ## the view the property demands -/

def specUri (parse : UriParse) (wire : Headers) : String × String := uriOffer parse (firstCI wire "X-Forwarded-Uri")

/-- client addresses announced by the peer: `Forwarded` wins over `X-Forwarded-For` -/
def specAnnounced (wire : Headers) : List String :=
  let fwd := firstCI wire "Forwarded"
  let xff := firstCI wire "X-Forwarded-For"
  if fwd ≠ "" then (splitOnChar ',' fwd.toList).map fun e => String.ofList (forwardedFor e)
  else if xff ≠ "" then (splitOnChar ',' xff.toList).map fun e => String.ofList (trimSpace e)
  else []

/-- trusted peer: each present (non-empty) header overrides exactly its component, the others fall back -/
def overriddenView (parse : UriParse) (r : Req) : View :=
  { method  := orElse (firstCI r.wire "X-Forwarded-Method") r.method
    scheme  := orElse (firstCI r.wire "X-Forwarded-Proto") (proto r)
    host    := orElse (firstCI r.wire "X-Forwarded-Host") r.host
    rawPath := orElse (specUri parse r.wire).1 r.path
    query   := orElse (specUri parse r.wire).2 r.rawQuery
    ips     := specAnnounced r.wire ++ [peerIP r] }

/-- trusted peer, proxy mode: what the upstream must receive of the forwarded family. The list headers are the
    received lists (every line, in order) extended by the real connection; `X-Forwarded-*` is used as soon as one of
    `X-Forwarded-For/Proto/Host` arrived, otherwise `Forwarded`. -/
def extendedUpstream (r : Req) : Headers :=
  let ff := joinList (allCI r.wire "X-Forwarded-For")
  let fp := firstCI r.wire "X-Forwarded-Proto"
  let fh := firstCI r.wire "X-Forwarded-Host"
  let fw := joinList (allCI r.wire "Forwarded")
  if ff ≠ "" ∨ fp ≠ "" ∨ fh ≠ "" then
    [("X-Forwarded-For", if ff = "" then peerIP r else ff ++ ", " ++ peerIP r),
     ("X-Forwarded-Proto", orElse fp (proto r)),
     ("X-Forwarded-Host", orElse fh r.host)]
  else
    [("Forwarded", if fw = "" then ownForwarded r else fw ++ ", " ++ ownForwarded r)]

end Heimdall.Fwd
