import HeimdallModel.Model.SignerCache
import HeimdallModel.Spec.Signer
/-!
# What C16 demands of a token handed out by `Execute`, freshly signed or taken from the cache

`Handout render d w x t src`: in the world `w` the execution `x` (a finalizer instance — prototype or rule-level
variant — for a subject, through a signer) handed out `t`.  The property asks that `t` is what the signer would sign
**for this execution**:

* for the subject of `x`, under the issuer name of the signer of `x`, with the TTL configured for the instance that
  executes (`x.fin.ttlNs`), with the custom claims the template of that instance renders for this subject and these
  outputs — at some issue time `issuedNs` (so `sub`, `iss`, `iat = nbf`, `exp = iat + TTL`, `jti` are as
  `specClaim` says, `Props/C16.lean: c16_claims_spec`);
* signed by a consistent generation `st` of the key store whose active key has the id, algorithm and public key of
  the generation that is active **now** (`s.st`) — so the token names the key that is active now and verifies against
  the list published now;
* a fresh token is issued now by the active generation itself;
* a token from the cache was issued at most `ttl − leeway + d` before the lookup, where `d` bounds the time between
  the signer's clock reading and the cache's when the entry was stored: the token has at least `leeway − d` of its
  lifetime left.
-/
namespace Heimdall.Signer

variable {α : Type}

def Handout (render : Render α) (d : Int) (w : World α) (x : Exec) (t : Token α) (src : Source) : Prop :=
  ∃ (s : SignerRec) (st : State) (issuedNs : Int) (custom : Claims α),
    w.signers[x.signer]? = some s ∧ Consistent s.st ∧ Consistent st ∧ customOf render x = some custom ∧
    t = sign st ⟨x.sub.id, s.iss, issuedNs, x.fin.ttlNs⟩ custom ∧
    st.jwk.kid = s.st.jwk.kid ∧ st.jwk.alg = s.st.jwk.alg ∧ st.jwk.pub = s.st.jwk.pub ∧
    (src = .fresh → st = s.st ∧ issuedNs = x.signNs) ∧
    (src = .cached → x.getNs + leewayNs ≤ issuedNs + d + x.fin.ttlNs ∧ leewayNs < x.fin.ttlNs)

/-- the histories the theorems speak about: the cache's clock reading when an entry is stored is at most `d` after
the signer's reading for that token -/
def DelayBound (d : Int) (hist : List Event) : Prop := ∀ ev ∈ hist, ∀ x, ev.execOf = some x → x.setNs ≤ x.signNs + d

/-- a process at start: nothing cached, every signer loaded from a key store -/
structure Started (w : World α) : Prop where
  empty   : w.cache = []
  signers : ∀ s ∈ w.signers, Consistent s.st

end Heimdall.Signer
