import HeimdallModel.Model.EntryPoints
/-!
# What C01 demands, stated without reference to the execution order

`Completed r` is the condition of the property: *an authenticator produced a subject, and every authorizer,
contextualizer and finalizer not marked continue-on-error either was skipped because its `if` condition evaluated
to false or ran and returned without error* — and nothing panicked.  It is a statement about list membership, not
a loop; `completedB` is the same thing as a Boolean (used as the oracle of the correspondence run), proved
equivalent in `Lemmas/Pipeline.lean`.
-/
namespace Heimdall.Pipeline

/-- the error of an authenticator lets the next authenticator try -/
def Authenticator.fellBack (a : Authenticator) : Prop :=
  ∃ ks, a.out = .err ks ∧ (.argument ∈ ks ∨ a.fallback = true)

/-- an authenticator of the list produced the subject `s` (all authenticators before it failed in a way that
allows falling back) -/
def Authenticated (as : List Authenticator) (s : String) : Prop :=
  ∃ pre a post, as = pre ++ a :: post ∧ a.out = .ok s ∧ ∀ b ∈ pre, b.fellBack

/-- an authorizer / contextualizer / finalizer does not stand in the way of a positive answer for subject `s`:
not marked continue-on-error ⇒ skipped by a false condition, or ran and returned without error;
marked continue-on-error ⇒ anything but a panic. -/
def Handler.passed (h : Handler) (s : String) : Prop :=
  if h.continueOnError then ¬ (h.cond.onSubject s = .yes ∧ ∃ v, h.out = .panic v)
  else h.cond.onSubject s = .no ∨ (h.cond.onSubject s = .yes ∧ h.out = .ok)

/-- the whole effective pipeline of the rule succeeded -/
def Completed (r : Rule) : Prop :=
  ∃ s, Authenticated r.authenticators s ∧ (∀ h ∈ r.handlers, h.passed s) ∧ (∀ h ∈ r.finalizers, h.passed s)

/-! ### the same as Booleans -/

def Authenticator.fellBackB (a : Authenticator) : Bool :=
  match a.out with
  | .err ks => ks.contains .argument || a.fallback
  | _ => false

/-- the subject produced by the authenticators, if any -/
def authenticatedB : List Authenticator → Option String
  | [] => none
  | a :: as =>
    match a.out with
    | .ok s => some s
    | _ => if a.fellBackB then authenticatedB as else none

def Handler.passedB (h : Handler) (s : String) : Bool :=
  if h.continueOnError then
    !(h.cond.onSubject s == .yes && (match h.out with | .panic _ => true | _ => false))
  else
    h.cond.onSubject s == .no || (h.cond.onSubject s == .yes && h.out == .ok)

def completedB (r : Rule) : Bool :=
  match authenticatedB r.authenticators with
  | none => false
  | some s => r.handlers.all (·.passedB s) && r.finalizers.all (·.passedB s)

/-- the answer the property expects from an entry point: positive iff a rule applies and completed
(and, for the proxy, there is somewhere to forward to) -/
def expectedPositive (ep : EntryPoint) (found : Option Rule) : Bool :=
  match found with
  | none => false
  | some r => completedB r && (ep != .proxy || r.hasBackend)

/-! ### side conditions on the configuration (explicit, decidable) -/

/-- a configured status override is absent or not a success status -/
def nonSuccessOverride (code : Nat) : Bool := code == 0 || !isSuccessStatus code

/-- the operator did not configure a 2xx status for an error class -/
def Cfg.errorCodesNonSuccess (cfg : Cfg) : Bool :=
  nonSuccessOverride cfg.argument && nonSuccessOverride cfg.authn && nonSuccessOverride cfg.authz &&
  nonSuccessOverride cfg.comm && nonSuccessOverride cfg.internal && nonSuccessOverride cfg.noRule

def ErrorHandler.redirectNonSuccess (h : ErrorHandler) : Bool :=
  match h.kind with
  | .redirect _ code => !isSuccessStatus (redirectCode code)
  | _ => true

/-- no redirect error handler of the rule is configured with a 2xx status (the schema allows 301 and 302 only) -/
def Rule.redirectsNonSuccess (r : Rule) : Bool := r.errorHandlers.all (·.redirectNonSuccess)

def redirectsNonSuccess (found : Option Rule) : Bool :=
  match found with
  | none => true
  | some r => r.redirectsNonSuccess

end Heimdall.Pipeline
