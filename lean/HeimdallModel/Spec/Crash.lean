import HeimdallModel.Model.Loaders
/-!
# What property C19 demands

"Malformed or type-confused rule sets, empty, partial or unsupported key-store and trust-store files (also when
observed half-written during a hot reload) … all result in an error response or a logged, rejected reload. None of
them terminates the process or stops a background watcher, and the previously loaded state stays in effect."

* `Out.returns` (model) — the call came back, with a value or an error.
* `reloadAdmissible` — what a reload may do to the state it guards: replace it after success, leave it alone
  otherwise; never crash.  Executable: it also judges what the real code was observed to do.
* `lastGood` — the state a component must be in after any history: the one produced by the last content that loaded,
  the initial one if none did.
* `Sound` — which combinations of checks the code needs (each input class is protected either where the value is
  used or by a `recover` around the goroutine that reads it).
* `truncations` — the contents a reader can observe while a file is being written: every prefix.
* `credsOf` — what a credentials file of the redis cache means (declaratively); `credsLoads` — the file as such a
  partial function (what the code accepts); with `lastGood` it says what the
  redis client must be handed after any history of (half-)written files: the credentials of the last accepted one.
-/
namespace Heimdall.Loaders

/-- the judgement of the property on one reload: `before`/`after` are the states in effect, `crashed` says that the
call neither returned a value nor an error -/
def reloadAdmissible {σ : Type} [DecidableEq σ] (before : Option σ) (outcome : Out Unit) (after : Option σ) : Bool :=
  match outcome with
  | .ok _ => true
  | .err _ => after == before
  | .panic => false
  | .fatal => false

/-- the new state if there is one, the old one otherwise -/
def orKeep {σ : Type} (new : Option σ) (old : σ) : σ :=
  match new with
  | some s => s
  | none => old

/-- the state after a history of contents: the last one that could be loaded wins, contents that cannot be loaded
leave no trace -/
def lastGood {α σ : Type} (loads : α → Option σ) (init : σ) (contents : List α) : σ :=
  contents.foldl (fun st x => orKeep (loads x) st) init

/-- a load seen as a partial function: the new state if the content is accepted -/
def accepted {σ : Type} : Out σ → Option σ
  | .ok s => some s
  | _ => none

/-- key material as a partial function of the file content: the state the component switches to, if any -/
def materialLoads (g : Guards) (c : Consumer) (keyId : String) (blocks : List Block) : Option (Option Loaded) :=
  (accepted (load g c keyId blocks)).map some

/-- a rule file as a partial function of its content: the rules in force for the file afterwards, if the content
is taken over (an empty file means "no rules from this file") -/
def ruleLoads (g : Guards) (env : Env) : FileContent → Option (Option (List String))
  | .empty => some none
  | .doc d => (accepted (loadRuleSet g env d)).map some
  | .unparsable => none
  | .vanished d =>
    -- a file that is gone means "no rules from this file" (if what was read of it was a rule set at all)
    match d.rules.mapM decodeRule with
    | .error _ => none
    | .ok _ => if !d.rules.isEmpty && g.statChecked then some none else none

/-- every truncation of a list of complete blocks (what a reader may find while the file is written block by block) -/
def truncations {α : Type} (l : List α) : List (List α) := (List.range (l.length + 1)).map l.take

/-- the checks that keep key material from crashing a background goroutine -/
def Guards.materialSafe (g : Guards) : Bool := g.selectKey && g.joseCheck && g.p521

/-- the checks that keep a rule set from panicking inside the rule factory -/
def Guards.factorySafe (g : Guards) : Bool := g.refTypes && g.scopeTypes

/-- **Defence in depth**: unbounded recursion must be impossible (nothing recovers from it); every panic source is
either checked at the source or below a `recover` on the goroutine that runs it; the gRPC server recovers (the
HTTP server of the Go standard library does so by itself). -/
def Sound (g : Guards) : Bool :=
  g.chainVisited &&
  (g.materialSafe || g.listenerRecover) &&
  (g.factorySafe || g.processorRecover || g.providerRecover) &&
  (g.statChecked || g.providerRecover) &&
  g.grpcRecovery

/-- the `recover` layer of the code: who catches a panic on which goroutine -/
structure RecoverLayer where
  listener : Bool
  provider : Bool
  processor : Bool
  http : Bool
  grpc : Bool
  deriving DecidableEq, Repr

def Guards.recoverLayer (g : Guards) : RecoverLayer :=
  ⟨g.listenerRecover, g.providerRecover, g.processorRecover, g.httpRecovery, g.grpcRecovery⟩

/-- the recover layer as it is read off the source by `/verif/extract/guards`: every goroutine the watcher starts
for a listener runs a function that begins with a deferred `recover`; the provider hands every event to a method
that does; `loadRules` does; both HTTP middleware chains contain the recovery middleware; the recovery interceptor
is the outermost unary interceptor of the gRPC service -/
def extractedLayer (listeners providerCalls : List (String × Bool)) (processor : Bool)
    (decision proxy grpcUnary : List String) : RecoverLayer :=
  ⟨!listeners.isEmpty && listeners.all (·.2), !providerCalls.isEmpty && providerCalls.all (·.2), processor,
    decision.contains "recovery.New" && proxy.contains "recovery.New",
    grpcUnary.head? == some "recovery.UnaryServerInterceptor"⟩

/-- the key-file contents of a history that concern component `c` -/
def keyFilesOf (c : Consumer) : List Event → List (List Block)
  | [] => []
  | .keyFile c' blocks :: es => if c' = c then blocks :: keyFilesOf c es else keyFilesOf c es
  | _ :: es => keyFilesOf c es

/-- the rule-file contents of a history -/
def ruleFilesOf : List Event → List FileContent
  | [] => []
  | .ruleFile content :: es => content :: ruleFilesOf es
  | _ :: es => ruleFilesOf es

/-- no request handler of the history dies of something unrecoverable (handlers are foreign code to this model) -/
def noFatalRequest : List Event → Bool
  | [] => true
  | .request _ .fatal :: _ => false
  | _ :: es => noFatalRequest es

/-- the credentials file of the redis cache as a partial function of its content: what `c.creds` points to
afterwards, if the content is accepted -/
def credsLoads (byValue : Bool) (d : CredDoc) : Option (Option Creds) := accepted (loadCreds byValue d)

/-- the keys a credentials file may have -/
def credKeyOk (k : String) : Bool := k == "username" || k == "password"

/-- the values they may have: anything but a sequence or a mapping -/
def credValOk : CredVal → Bool
  | .collection => false
  | _ => true

/-- the text under key `k`: that of its scalar value, `dflt` if the key is absent or null -/
def fieldTextD (fs : List (String × CredVal)) (k : String) (dflt : String) : String :=
  match fs.find? (·.1 == k) with
  | some (_, .scalar s) => s
  | _ => dflt

/-- **What a credentials file means**, said without walking it the way the decoder does (the documented format:
`username` and `password`, both optional, nothing else): a null document and a mapping whose keys are pairwise
distinct and among the two, with scalar or null values, stand for credentials; nothing else does. -/
def credsOf : CredDoc → Option Creds
  | .null => some ⟨"", ""⟩
  | .map fs =>
    if (∀ f ∈ fs, credKeyOk f.1 = true ∧ credValOk f.2 = true) ∧ (fs.map (·.1)).Nodup then
      some ⟨fieldTextD fs "username" "", fieldTextD fs "password" ""⟩
    else none
  | _ => none

/-- the contents of the credentials file in a history -/
def credFilesOf : List CredsEvent → List CredDoc
  | [] => []
  | .file d :: es => d :: credFilesOf es
  | .connect :: es => credFilesOf es

/-- **What a poll of a rule set endpoint means** (declaratively): a complete rule set that rule factory and
repository take replaces the rules from the endpoint; a complete empty body, a status other than 200 and an endpoint
that does not answer mean "no rules from this endpoint" (the provider's documented reading of a missing rule set);
everything else — a body that broke off on the way, bytes that are no rule set, a rule set that is refused — is a
rejected reload and leaves no trace. -/
def endpointLoads : Polled → Option (Option (List String))
  | .body .complete (.ruleSet ids true) => some (some ids)
  | .body .complete .empty => some none
  | .unreachable => some none
  | .status _ => some none
  | _ => none

/-- the polls of a history whose body broke off -/
def Polled.brokenOff : Polled → Bool
  | .body .brokenOff _ => true
  | _ => false

/-- what `/verif/extract/guards` reads off `startWatching`: the statements that leave the `for { select { … } }` loop
other than the two "channel closed" returns; the loop of the model leaves on a failed renewal iff there is one -/
def loopLeaves (exits : List String) : Bool := !exits.isEmpty

end Heimdall.Loaders
