import HeimdallModel.Spec.Signer
import HeimdallModel.Model.SignerTime
/-!
# What C16 demands of issued tokens as time passes

The property: *every token created by the JWT finalizer verifies against the key set published on the management JWKS
endpoint*.  A relying party fetches the key set when it needs it — at the moment the token reaches it, which is at or
after the issue, and again whenever its copy is outdated.  So the demand is about every instant from the issue on, as
long as the signer still works with the key the token was signed with (`KeyKept`; a reload that replaces the key
retires the tokens of the old one, `c16_cache_reload_retires_tokens`).

The property does not say what has to happen when the certificate of the signing key runs out.  Two behaviours are
consistent with it: keep signing with the key and keep publishing it (what the code does: `Keys()` returns the list as
loaded, the certificate is judged by `load` only), or stop signing (`signIfValid`).  Signing with a key that is no
longer published is the one combination the property excludes.
-/
namespace Heimdall.Signer

variable {α : Type}

/-- "no reload replaced the key": the generation the signer works with now still lists, under its id, the key the
generation `issuing` signed with -/
def KeyKept (issuing current : State) : Prop :=
  ∃ j ∈ current.pubKeys, j.kid = issuing.jwk.kid ∧ j.pub = issuing.key.pub

/-- the token verifies (as go-jose verifies against a JWK set) against what is published at every instant from
`issued` on; `keys` = the published list as a function of the instant at which it is asked for -/
def VerifiesFrom (keys : Int → List Jwk) (t : Token α) (issued : Int) : Prop :=
  ∀ later : Int, issued ≤ later → verifiesFirst (keys later) t = true

end Heimdall.Signer
