import HeimdallModel.Model.ConfigLeaf
import HeimdallModel.Spec.Config
/-!
# C20, values: the environment spelling of a value the file can carry must yield the same leaf

A configuration file gives a value of a typed property in the form the schema demands (a string quoted where YAML
would read something else, numbers and booleans as such). An environment variable carries plain text. The property
demands the same leaf from both. Also: a load is a function of its own file and environment (`runHistory`).
-/
namespace Heimdall.Config

/-- a value of a typed configuration property -/
inductive Value where
  | str (s : List Char)
  | int (n : Int)
  | bool (b : Bool)
  | text (s : List Char)
deriving Repr, DecidableEq

def Value.type : Value → LeafType
  | .str _ => .string
  | .int _ => .int
  | .bool _ => .bool
  | .text _ => .text

/-- the scalar a (schema-valid) file delivers for the value -/
def Value.fileScalar : Value → Scalar
  | .str s => .str s
  | .int n => .int n
  | .bool b => .bool b
  | .text s => .str s

/-- the plain text an operator writes into the environment variable -/
def Value.spelling : Value → List Char
  | .str s => s
  | .int n => showInt n
  | .bool b => if b then c!"true" else c!"false"
  | .text s => s

/-- what the property demands, for a YAML reading `y` of the spelling -/
def SpellingEquivalent (v : Value) (y : Scalar) : Prop := decode v.type y = decode v.type v.fileScalar

/-- the YAML reading `y` of the spelling of `v` still says what was written: it is the text itself, or the integer
    whose canonical numeral is the text, or – for a property that is not a string – the boolean the text names.
    (`007`, `1e3`, `0x1f` for a string property are read as numbers that print differently; `true` for a string
    property is read as a boolean: not faithful, see known finding C20-env-value-retyped.) -/
def faithful (v : Value) (y : Scalar) : Bool :=
  match y with
  | .str x => x == v.spelling
  | .int n => showInt n == v.spelling && v.type != .text && v.type != .bool
  | .bool b => (if b then c!"true" else c!"false") == v.spelling && v.type != .string && v.type != .text
      && v.type != .int
  | .float _ => false
  | .null => false
  | .coll => false
  | .time => false

/-- the results of a sequence of loads in one process -/
def runHistory (h : List (Val × Val × Env)) : List Val := h.map fun x => load x.1 x.2.1 x.2.2

end Heimdall.Config
