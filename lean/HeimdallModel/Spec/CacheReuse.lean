import HeimdallModel.Model.CacheExec
/-!
# C11 — what the property demands of a caching mechanism

* `direct`: the decision without any cache (remote evaluation, then the rule's validation).
* `Transparent`: in every history every request observes exactly `direct` of itself.
* `KeySoundOn`: the key separates requests whose fresh evaluation or whose validation could differ.
* reuse: while an entry is alive, every request mapped to its key is answered without a remote call.
-/
namespace Heimdall.CacheExec
open Heimdall.CacheKey

/-- the decision with the cache switched off -/
def direct {Req Resp : Type} (m : Mech Req Resp) (r : Req) : Outcome Resp :=
  match m.fresh r with
  | none => .failed
  | some v => if m.accept r v then .ok v else .rejected

/-- enabling the cache never changes a decision -/
def Transparent {Req Resp : Type} (m : Mech Req Resp) (h : List (Nat × Req)) : Prop :=
  (run m Store.empty h).map (·.out) = h.map fun tr => direct m tr.2

/-- requests with equal keys have the same fresh result, and the same validation unless it is repeated on a hit -/
def KeySoundOn {Req Resp : Type} (m : Mech Req Resp) (rs : List Req) : Prop :=
  ∀ r ∈ rs, ∀ r' ∈ rs, m.key r = m.key r' →
    m.fresh r = m.fresh r' ∧ (m.recheck = true ∨ ∀ v, m.accept r v = m.accept r' v)

/-- a value read back from the cache is the value that was stored (the serialisation used for caching loses nothing) -/
def Lossless {Req Resp : Type} (m : Mech Req Resp) : Prop := ∀ v, m.recode v = v

/-- `H` separates the byte strings it is applied to in this history -/
def NoCollisionOn (H : Bytes → Bytes) (pre : List Bytes) : Prop :=
  ∀ a ∈ pre, ∀ b ∈ pre, H a = H b → a = b

end Heimdall.CacheExec
