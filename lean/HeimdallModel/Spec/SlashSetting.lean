import HeimdallModel.Model.Repo
/-!
# SPEC: the encoded-slash setting that governs a route is the setting of its rule (property C08)

`allow_encoded_slashes` is a setting of a *rule*.  Whatever a route of that rule answers to a request whose path
contains `%2F` / `%2f` — whether the `path_params` conditions reject it, on which decoding of the captured value the
expressions are applied — has to follow the setting of the rule the route belongs to, as currently loaded; not a
setting some other rule (or an earlier version of the rule) was loaded with.

The implementation bakes the setting into the `pathParamMatcher`s of a route when the rule factory creates the rule
(`createPathParamsMatcher(rc.PathParams, slashesHandling)`), a second copy lives in `ruleImpl.slashesHandling`
(used by `Execute`).  The model keeps the two copies apart (`RVal.route.esh`, `RVal.esh`); this file says what has to
hold between them and what a lookup has to look like when it does.
-/
namespace Heimdall

/-- a rule as the rule factory creates it: the setting handed to the `path_params` matcher of each route is the
setting of the rule -/
def RuleCfg.coherent (c : RuleCfg) : Prop := ∀ rt ∈ c.routes, rt.2.esh = c.esh

/-- the rules a change of the repository carries -/
def RepoOp.rules : RepoOp → List RuleCfg
  | .add _ rs => rs
  | .upd _ rs => rs
  | .del _ => []

/-- a history in which every rule is as the rule factory creates it -/
def CoherentHistory (ops : List RepoOp) : Prop := ∀ op ∈ ops, ∀ c ∈ op.rules, c.coherent

/-- an entry of the routing tree whose matcher carries the setting of its rule -/
def RVal.coherent (v : RVal) : Prop := v.route.esh = v.esh

/-- the value of a captured segment as `ruleImpl.Execute` exposes it to the pipeline under the setting `esh`, for
a request view `q` (a request without any escape has no raw path: the segment is exposed as it is) -/
def exposedValue (esh : SlashHandling) (q : ReqView) (raw : String) : String :=
  if q.rawPath.isEmpty then raw else unescapeCapture esh raw

/-- SPEC of one `path_params` condition under the setting `esh` of the rule: the parameter was captured; under `off`
a request with an encoded slash is not for this route; otherwise the expression holds for the exposed value -/
def ppSpec (esh : SlashHandling) (q : ReqView) (keys caps : List String) (pp : String × TM) : Bool :=
  match lookupKey keys caps pp.1 with
  | none => false
  | some raw =>
    !(esh = .off && !q.rawPath.isEmpty && containsEncodedSlash q.rawPath) && pp.2.matches (exposedValue esh q raw)

/-- SPEC of the conditions of an entry: scheme, method, host, and every `path_params` condition judged under the
setting of the entry's RULE (`v.esh`) -/
def entrySpec (q : ReqView) (v : RVal) (keys caps : List String) : Bool :=
  schemeOk v.route q && methodOk v.route q && hostOk v.route q && v.route.pps.all (ppSpec v.esh q keys caps)

/-- SPEC of `FindRule`: the lookup with the conditions of every entry judged under the setting of its rule -/
def Repo.findRuleSpec (s : Repo) (hasDefault : Bool) (q : ReqView) : Found? :=
  match lookup (entrySpec q) s.index (lookupPath q) with
  | some (v, ps) => .rule v ps
  | none => if hasDefault then .default else .none

end Heimdall
