import HeimdallModel.Model.Authn
/-!
# Specification of property C04: fallback only on missing credentials or explicit opt-in

The property talks about *credentials*, not about error kinds: an authenticator either finds usable credentials of
its kind in the request or it does not (`usable`), it either allows fallback on error or not (`Authn.fallback`), and
the authenticators of a rule are consulted in order until one *decides* the request (`decisive`): it succeeds, or it
found usable credentials, rejected them and does not allow fallback.

`authenticate` / `consulted` are the reference semantics; `judge` decides whether an observed run (which
authenticators were consulted, what each returned, what the composite returned) satisfies the property — it is what
the answers of the real code are judged by.
-/
namespace Heimdall.Authn.Spec

mutual
  /-- the sentinels an error value consists of, however deeply the chains are nested -/
  def leaves : Err → List Kind
    | .kind k => [k]
    | .foreign => []
    | .chain es => leavesAll es
  def leavesAll : List Err → List Kind
    | [] => []
    | e :: es => leaves e ++ leavesAll es
end

/-- the decoded body value if it is a single string -/
def single : BVal → Option String
  | .str s => some s
  | .strs [s] => some s
  | .anys [some s] => some s
  | _ => none

/-- the request carries authentication data at this source: a non-empty header (with the required scheme), a
non-empty query parameter or cookie, a body parameter that is one string -/
def present : Strategy → Req → Bool
  | .header name scheme, r => r.header name ≠ "" && (scheme = "" || hasPrefix (r.header name) (scheme ++ " "))
  | .query name, r => firstValue r.query name ≠ ""
  | .cookie name, r => firstValue r.cookies name ≠ ""
  | .body name, r =>
    match r.bodyParam name with
    | some v => (single v).isSome
    | none => false

/-- the authentication data at a source that carries some: the value without the scheme and surrounding space -/
def value : Strategy → Req → String
  | .header name scheme, r => trimSpace (trimPrefix (r.header name) scheme)
  | .query name, r => trimSpace (firstValue r.query name)
  | .cookie name, r => trimSpace (firstValue r.cookies name)
  | .body name, r =>
    match r.bodyParam name with
    | some v => trimSpace ((single v).getD "")
    | none => ""

/-- the credential found by an authenticator with these sources: the value at the first source carrying one -/
def credential (ss : List Strategy) (r : Req) : Option String :=
  (ss.find? (present · r)).map (value · r)

/-- **the authenticator found usable credentials of its kind in the request**:
`basic_auth` an `Authorization` header with the `Basic` scheme, `jwt` a value at one of its sources that is a JWT
(three base64url parts separated by dots, the header naming a signature algorithm heimdall supports),
`oauth2_introspection` and `generic` a value at one of their sources. `anonymous` and `unauthorized` do not look
for credentials: they never report missing ones. -/
def usable (w : World) (a : Authn) (r : Req) : Bool :=
  match a.typ with
  | .anonymous _ => true
  | .unauthorized => true
  | .basic _ _ => present (.header "Authorization" "Basic") r
  | .jwt ss =>
    match credential ss r with
    | some tok => w.parsesJWT tok
    | none => false
  | .introspection ss => (credential ss r).isSome
  | .generic ss => (credential ss r).isSome

/-- the authenticator fails on the request -/
def fails (w : World) (r : Req) (a : Authn) : Bool :=
  match a.execute w r with
  | .ok _ => false
  | .error _ => true

/-- after this authenticator the next one may (and shall) be consulted: it failed, and it either found no usable
credentials of its kind or allows fallback on error -/
def passesOn (w : World) (r : Req) (a : Authn) : Bool :=
  fails w r a && (!usable w a r || a.fallback)

/-- the authenticator decides the request: it succeeds, or it found usable credentials, rejected them and does not
allow fallback -/
def decisive (w : World) (r : Req) (a : Authn) : Bool := !passesOn w r a

/-- what one authenticator answers -/
def resultOf (w : World) (r : Req) (a : Authn) : Result :=
  match a.execute w r with
  | .ok s => .subject s
  | .error e => .failure e

/-- reference semantics: the answer of the first decisive authenticator; if none decides, the failure of the last -/
def authenticate (w : World) (r : Req) (chain : List Authn) : Result :=
  match chain.find? (decisive w r) with
  | some a => resultOf w r a
  | none =>
    match chain.getLast? with
    | some a => resultOf w r a
    | none => .nothing

/-- reference semantics: the authenticators up to and including the first decisive one are consulted -/
def consulted (w : World) (r : Req) (chain : List Authn) : Nat :=
  min ((chain.takeWhile (passesOn w r)).length + 1) chain.length

/-! ## judging an observed run -/

/-- what is observed of an `Execute` call: the subject id, or the sentinels the error matches -/
inductive Obs where
  | ok (sub : String)
  | err (kinds : List Kind)
deriving DecidableEq, Repr, Inhabited

/-- an observed run of a rule's authenticators -/
structure Answer where
  /-- the authenticators consulted, in the order of consultation, with what each returned -/
  trace : List (String × Obs)
  /-- what the composite returned (`none`: neither subject nor error) -/
  final : Option Obs
deriving DecidableEq, Repr, Inhabited

/-- what an authenticator is observed to return agrees with what the world says about the credential: it succeeds
with the subject of an accepted credential and only then -/
def sameOutcome : Except Err String → Obs → Bool
  | .ok s, .ok s' => s == s'
  | .error _, .err _ => true
  | _, _ => false

/-- Does the observed run satisfy the property?
* the authenticators are consulted in the configured order, starting with the first, each once;
* each one succeeds exactly if the credential it finds is acceptable, with the subject of that credential;
* nothing is consulted after a success, and the subject returned is the one of that success;
* after a failure the next authenticator is consulted only if the failed one found no usable credentials of its
  kind or allows fallback — and in that case it *is* consulted, if there is one;
* the failure returned is the one of the last authenticator consulted. -/
def judge (w : World) (r : Req) : List Authn → List (String × Obs) → Option Obs → Bool
  | [], [], final => final == none
  | a :: as, (id, o) :: rest, final =>
    id == a.id && sameOutcome (a.execute w r) o &&
    match o, rest with
    | .ok s, [] => final == some (.ok s)
    | .ok _, _ :: _ => false
    | .err ks, [] => final == some (.err ks) && (as.isEmpty || (usable w a r && !a.fallback))
    | .err _, _ :: _ => (!usable w a r || a.fallback) && judge w r as rest final
  | _, _, _ => false

def obsOf : Except Err String → Obs
  | .ok s => .ok s
  | .error e => .err e.kinds

def obsOfResult : Result → Option Obs
  | .subject s => some (.ok s)
  | .failure e => some (.err e.kinds)
  | .nothing => none

/-- what the model answers, in the shape of an observation -/
def answer (w : World) (r : Req) (chain : List Authn) : Answer :=
  { trace := (chain.take (runConsulted w r chain)).map (fun a => (a.id, obsOf (a.execute w r))),
    final := obsOfResult (run w r chain) }

end Heimdall.Authn.Spec
