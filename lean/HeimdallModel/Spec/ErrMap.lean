import HeimdallModel.Model.ErrMap
/-!
# What property C12 demands of an answer to a failure

Declarative reference: an error value is seen as the list of its leaves (the failures it consists of, however
nested and wrapped); each leaf has the response class the property names for its kind; an answer is judged by
`Spec.ok` (executable, also used as oracle against the real services).
-/
namespace Heimdall.ErrMap

/-- the failures an error value consists of -/
inductive Leaf where
  | kind (k : Kind)
  | redirect (code : Int) (to : String)
  | foreign
  | ctxDone (c : CtxErr)
deriving DecidableEq, Repr

mutual
  /-- leaves in depth-first order -/
  def Err.leaves : Err → List Leaf
    | .kind k => [.kind k]
    | .redirect c t => [.redirect c t]
    | .foreign => [.foreign]
    | .ctxDone c => [.ctxDone c]
    | .wrap e => e.leaves
    | .join es => Err.leavesAny es
    | .chain es => Err.leavesAny es
  def Err.leavesAny : List Err → List Leaf
    | [] => []
    | e :: es => e.leaves ++ Err.leavesAny es
end

def Leaf.redirect? : Leaf → Option (Int × String)
  | .redirect c t => some (c, t)
  | _ => none

/-- "authentication 401, authorization 403, communication or timeout 502, precondition 400, no rule 404,
anything else 500" -/
def Kind.action : Kind → Action
  | .authentication => .respond .authn
  | .authorization => .respond .authz
  | .communication => .respond .comm
  | .timeout => .respond .comm
  | .argument => .respond .precond
  | .noRule => .respond .noRule
  | .configuration => .respond .internal
  | .internal => .respond .internal

def Leaf.action : Leaf → Action
  | .kind k => k.action
  | .redirect _ _ => .redirect
  | .foreign => .respond .internal
  | .ctxDone _ => .respond .internal

/-- precedence between the classes when an error value mixes several kinds -/
def priority : List Action :=
  [.respond .authn, .respond .authz, .respond .comm, .respond .precond, .respond .noRule, .redirect]

/-- the class of an error value: the first class of `priority` one of its leaves belongs to, else "anything else" -/
def Err.action (e : Err) : Action :=
  (priority.find? fun a => e.leaves.any fun l => l.action == a).getD (.respond .internal)

/-- classes an answer may have: those of the failures the value consists of; 500 only if there is nothing else -/
def Err.admissible (e : Err) : List Action :=
  let as := (e.leaves.map Leaf.action).filter (fun a => a != .respond .internal)
  if as.isEmpty then [.respond .internal] else as

/-- is the leaf one of the errors of package `context` -/
def Leaf.isCtxDone : Leaf → Bool
  | .ctxDone _ => true
  | _ => false

/-- the failures a value consists of, the `context` errors left out: what is left of a value when "the context of
the request was done" is deleted wherever it occurs (as cause at the end of a chain, wrapped by `*url.Error`, joined) -/
def Err.essential (e : Err) : List Leaf := e.leaves.filter fun l => !l.isCtxDone

def isSuccess (status : Int) : Bool := 200 ≤ status && status < 300

/-- the status the configuration assigns to a class: the configured one, else 401 / 403 / 502 / 400 / 404 / 500 -/
def Cfg.status (cfg : Cfg) (c : Class) : Int :=
  if cfg.ov.get c == 0 then defaultCodes.get c else cfg.ov.get c

def classes : List Class := [.authn, .authz, .comm, .precond, .noRule, .internal]

/-- every configured status is an HTTP status code (the configuration schema only demands an integer) -/
def Cfg.valid (cfg : Cfg) : Bool := classes.all fun c => cfg.ov.get c == 0 || validStatus (cfg.ov.get c)

/-- no success status is configured for a failure -/
def Cfg.noSuccess (cfg : Cfg) : Bool := classes.all fun c => !isSuccess (cfg.ov.get c)

/-- every redirect inside the value carries an HTTP status code -/
def Err.redirectsValid (e : Err) : Bool :=
  e.leaves.all fun l => match l with | .redirect c _ => validStatus c | _ => true

/-- no redirect inside the value carries a success status -/
def Err.redirectsNoSuccess (e : Err) : Bool :=
  e.leaves.all fun l => match l with | .redirect c _ => !isSuccess c | _ => true

/-- quality the `Accept` header gives a media type (RFC 7231 5.3.2: the most specific matching range counts) -/
def quality (acc : Accept) (m : Media) : Nat :=
  match acc with
  | .absent => 1000
  | .invalid => 0
  | .ranges rs => (weightOf m rs).1

def allMedia : List Media := [.html, .json, .plain, .xml]

/-- header names an answer to a failure may carry -/
def errorHeaderNames : List String := ["Location", "Content-Type", "X-Content-Type-Options", "Www-Authenticate"]

inductive Transport where
  | http | grpc
deriving DecidableEq, Repr

def Transport.translator : Transport → Translator
  | .http => ErrMap.http
  | .grpc => ErrMap.grpc

/-- what the HTTP services and the Envoy gRPC service must agree on: status, `Location`, challenges -/
def Out.view : Out → Option (Int × List (String × String))
  | .resp r => some (r.status, r.headers.filter fun kv => kv.1 == "Location" || kv.1 == "Www-Authenticate")
  | _ => none

/-- the realm a `www_authenticate` error handler announces -/
def realmOf (realm : String) : String := if realm.isEmpty then "Please authenticate" else realm

namespace Spec

/-- the answer has the class `a` -/
def hasClass (cfg : Cfg) (f : Failure) (r : Resp) : Action → Bool
  | .respond c =>
    (!cfg.valid || r.status == cfg.status c) &&
    f.challenge.all (fun v => r.headers.contains ("Www-Authenticate", v)) &&
    !(r.headers.map (·.1)).contains "Location"
  | .redirect =>
    f.err.leaves.any fun l =>
      match l with
      | .redirect code to => r.status == code && r.headers.contains ("Location", to) && r.body == none
      | _ => false

/-- error details only when verbose, in the negotiated content type (the default one, `text/html`, if the client
accepts none of the supported types) -/
def bodyOk (cfg : Cfg) (acc : Accept) (r : Resp) : Bool :=
  match r.body with
  | none => !(r.headers.map (·.1)).contains "Content-Type"
  | some m =>
    cfg.verbose && r.headers.contains ("Content-Type", m.mime) &&
    (quality acc m > 0 || (m == .html && allMedia.all fun m' => quality acc m' == 0))

/-- the gRPC status of an answer fits the transport: none over HTTP, a code other than OK from the Envoy service
(Envoy lets a request pass exactly when the code is OK) -/
def grpcFits (tr : Transport) (g : Option Nat) : Bool :=
  match tr, g with
  | .http, none => true
  | .grpc, some g => g != 0
  | _, _ => false

/-- the `WWW-Authenticate` values of an answer -/
def wwwValues (r : Resp) : List String :=
  r.headers.filterMap fun kv => if kv.1 == "Www-Authenticate" then some kv.2 else none

/-- judgement of an answer `o` to the failure `f` -/
def ok (tr : Transport) (cfg : Cfg) (acc : Accept) (f : Failure) (o : Out) : Bool :=
  match o with
  | .allowed => false
  | .panic => !(cfg.valid && f.err.redirectsValid)
  | .resp r =>
    f.err.admissible.any (hasClass cfg f r) &&
    (!(cfg.noSuccess && f.err.redirectsNoSuccess) || !isSuccess r.status) &&
    grpcFits tr r.grpc &&
    bodyOk cfg acc r &&
    r.headers.all (fun kv => errorHeaderNames.contains kv.1) &&
    r.headers.all (fun kv => kv.1 != "Www-Authenticate" || f.challenge.contains kv.2) &&
    -- every challenge exactly as often as it was collected for this request (none repeated, none carried over)
    (wwwValues r).all (fun v => (wwwValues r).count v == f.challenge.count v)

end Spec

/-! ## wrapping, endpoints (round 5) -/

/-- position of a class in the precedence order (`priority`); "anything else" comes last -/
def Action.rank : Action → Nat
  | .respond .authn => 0
  | .respond .authz => 1
  | .respond .comm => 2
  | .respond .precond => 3
  | .respond .noRule => 4
  | .redirect => 5
  | .respond .internal => 6

/-- the class the property's table gives a failure of the token endpoint of an `oauth2_client_credentials` strategy:
"communication or timeout 502" whenever heimdall could not talk to the token endpoint or was refused a token by it;
a `200` it cannot parse is heimdall's own "anything else" (as measured on the code) -/
def TokenOutcome.expected : TokenOutcome → Option Action
  | .issued => none
  | .sendFailed _ => some (.respond .comm)
  | .sendTimedOut _ => some (.respond .comm)
  | .unexpectedStatus => some (.respond .comm)
  | .badRequest _ => some (.respond .comm)
  | .okErrorDocument => some (.respond .comm)
  | .okUnparsable => some (.respond .internal)

/-- the cause `net/http` reports for a failed call: a foreign error or an error of package `context`, possibly wrapped
(`*url.Error`, `*net.OpError`, …) — nothing heimdall classifies -/
def Err.unclassified (e : Err) : Bool := e.leaves.all fun l => l.action == .respond .internal

def TokenOutcome.causeUnclassified : TokenOutcome → Bool
  | .sendFailed c => c.unclassified
  | .sendTimedOut c => c.unclassified
  | _ => true

end Heimdall.ErrMap
