import HeimdallModel.Model.Providers
/-!
# C18, specification: the latest valid content of the sources that still exist

A history is seen per source as a sequence of *observations*: the source shows a valid content, the source is gone
(removed, emptied, not found), or the step says nothing about the source (notification for another source, content that
cannot be parsed, aborted poll, processor refused the call).  The rule set that has to be active for the source is the
last content observed unless the source has been observed gone afterwards (`desired`).  The processor calls a step
may make are exactly those that bring the repository from the old to the new desired state (`transition`).
-/
namespace Heimdall.Prov

inductive Obs where
  | content (h : Hash)
  | gone
  | noinfo
deriving DecidableEq, Repr

def Obs.next (d : Option Hash) : Obs → Option Hash
  | .content h => some h
  | .gone => none
  | .noinfo => d

/-- latest valid content of a source, `none` if it does not exist (any more) -/
def desired (os : List Obs) : Option Hash := os.foldl Obs.next none

variable {σ : Type} [DecidableEq σ]

/-- the processor calls that bring source `s` from `before` to `after`: at most one, none if nothing changed -/
def transition (s : σ) : Option Hash → Option Hash → List (Call σ)
  | none, none => []
  | none, some h => [.created s h]
  | some _, none => [.deleted s]
  | some h, some h' => if h = h' then [] else [.updated s h']

/-! what a step shows about the source it concerns, before the processor has its say -/

def FileState.obs : FileState → Obs
  | .missing => .gone
  | .empty => .gone
  | .invalid => .noinfo
  | .valid h => .content h

def FsEvent.raw (e : FsEvent σ) : Obs :=
  if e.ops.contains .create || e.ops.contains .write || e.ops.contains .chmod then e.file.obs
  else if e.ops.contains .remove || e.ops.contains .rename then .gone
  else .noinfo

/-- a failed fetch is taken for "gone" unless the answer was there but unusable; the property allows both for
communication errors (no answer at all: `network`; an answer that is not the rule set: `status`).  An answer that
arrived but is incomplete (`truncated`) is no communication error in this sense: it is a new version that cannot be used,
and "an invalid new version leaves the previously loaded version active" — there is no latitude for it -/
def HttpOutcome.obs : HttpOutcome → Obs
  | .valid h => .content h
  | .empty => .gone
  | .invalid => .noinfo
  | .truncated _ => .noinfo
  | .status _ => .gone
  | .network => .gone
  | .cancelled => .noinfo

def BlobEvent.raw (e : BlobEvent σ) (s : σ) : Obs :=
  if !e.bucket s then .noinfo else         -- a poll says nothing about the sources of other buckets
  match blobRuleSets e.fetch with
  | none => .noinfo
  | some rss =>
    match rss.find? (fun p => p.1 = s) with
    | some (_, some h) => .content h
    | some (_, none) => .noinfo
    | none => .gone

/-- the poll finds blob `s` in the polled bucket (it is listed / it is the configured single blob, its attributes are
read), but the body of the GET does not arrive completely -/
def BlobEvent.incompleteFor (e : BlobEvent σ) (s : σ) : Prop :=
  e.bucket s = true ∧
  match e.fetch with
  | .listing items => ∃ b, (s, b) ∈ items ∧ b.incomplete = true
  | .single id (some b) => id = s ∧ b.incomplete = true
  | _ => False

/-- observation of step `e` for source `s`: a call the processor refuses changes nothing and will be retried -/
def FsEvent.obs (e : FsEvent σ) (s : σ) : Obs := if e.name = s ∧ ¬ e.rej.contains s then e.raw else .noinfo
def HttpEvent.obs (e : HttpEvent σ) (s : σ) : Obs := if e.id = s ∧ ¬ e.rej.contains s then e.outcome.obs else .noinfo
def BlobEvent.obs (e : BlobEvent σ) (s : σ) : Obs := if e.rej.contains s then .noinfo else e.raw s

/-! ## the contract of a provider that remembers content digests -/

/-- the repository holds exactly what the book says: one rule set per remembered source, of the remembered content -/
structure Inv (st : St σ) : Prop where
  sync  : st.active = st.book
  nodup : (Book.keys st.book).Nodup

/-- no remembered digest is empty (SHA-256 sums never are) -/
def NoZero (b : Book σ) : Prop := ∀ p ∈ b, p.2 ≠ 0

/-- every blob is listed once -/
def BlobFetch.distinct : BlobFetch σ → Prop
  | .listing items => (items.map (·.1)).Nodup
  | _ => True

instance (f : BlobFetch σ) : Decidable f.distinct := by
  cases f <;> unfold BlobFetch.distinct <;> infer_instance

/-- the blobs a poll finds belong to the polled bucket -/
def BlobFetch.within (b : σ → Bool) : BlobFetch σ → Prop
  | .listing items => ∀ p ∈ items, b p.1 = true
  | .single id _ => b id = true
  | _ => True

instance (b : σ → Bool) (f : BlobFetch σ) : Decidable (f.within b) := by
  cases f <;> unfold BlobFetch.within <;> infer_instance

/-- a digest keeping provider: what it does with one input, what the input shows of each source, for which sources the
processor refuses calls during this step, which inputs can occur, and what it maintains about its state -/
structure Provider (σ ε : Type) where
  step       : St σ → ε → Out σ
  shows      : ε → σ → Obs
  rej        : ε → List σ
  admissible : ε → Prop
  good       : St σ → Prop

/-- observation of a step: a refused call leaves everything as it was, the step is as good as not seen -/
def Provider.obs {ε} (P : Provider σ ε) (e : ε) (s : σ) : Obs := if s ∈ P.rej e then .noinfo else P.shows e s

/-- the state after a history of inputs -/
abbrev Provider.after {ε} (P : Provider σ ε) (es : List ε) : St σ := run P.step St.init es

/-- the calls of a step that concern source `s` -/
def callsFor (t : Trace σ) (s : σ) : Trace σ := t.filter (fun c => c.1.src = s)

/-- **The per-step contract.**  From a state in which the repository holds exactly what the book says, an admissible
input leads to such a state again; the digest remembered for every source moves as the observation says; the processor
calls made for every source are exactly the transition from what is loaded to what the input shows (none if that is the
same); and a call is accepted iff the processor does not refuse the source. -/
structure Provider.Correct {ε} (P : Provider σ ε) : Prop where
  init : P.good St.init
  step : ∀ st e, Inv st → P.good st → P.admissible e →
    Inv (P.step st e).st ∧ P.good (P.step st e).st ∧
    (∀ s, (P.step st e).st.book.get s = (P.obs e s).next (st.book.get s)) ∧
    (∀ s, (callsFor (P.step st e).calls s).map (·.1) =
      transition s (st.book.get s) ((P.shows e s).next (st.book.get s))) ∧
    (∀ c ∈ (P.step st e).calls, c.2 = decide (c.1.src ∉ P.rej e))

def fileSystem : Provider σ (FsEvent σ) where
  step := fsStep
  shows := fun e s => if e.name = s then e.raw else .noinfo
  rej := (·.rej)
  admissible := fun e => e.file ≠ .valid 0          -- a SHA-256 sum is never empty
  good := fun st => NoZero st.book

def httpEndpoint : Provider σ (HttpEvent σ) where
  step := httpStep
  shows := fun e s => if e.id = s then e.outcome.obs else .noinfo
  rej := (·.rej)
  admissible := fun _ => True
  good := fun _ => True

def cloudBlob : Provider σ (BlobEvent σ) where
  step := blobStep
  shows := BlobEvent.raw
  rej := (·.rej)
  admissible := fun e => e.fetch.distinct ∧ e.fetch.within e.bucket   -- every blob listed once, and of this bucket
  good := fun _ => True

end Heimdall.Prov
