import HeimdallModel.Model.CacheExec
import HeimdallModel.Model.CacheReload
/-!
# C11 — concrete values used by the non-vacuity examples of `Props/C11.lean`
-/
namespace Heimdall.CacheExec.Witness
open Heimdall.CacheKey Heimdall.CacheExec

/-- a request to the remote authorizer `m1`: rendered values `{a: "bc", ab: "c", z: ""}`, payload `{}`, two response
headers to forward, `cache_ttl: 10m`; the digests of endpoint and subject are 32 bytes each -/
def envA : Env where
  str s := if s = "id" then [109, 49] else if s = "payload" then [123, 125] else
    if s = "endpoint" then List.replicate 32 7 else if s = "subject" then List.replicate 32 9 else []
  num s := if s = "ttl" then 600000000000 else 0
  lst s := if s = "headersForUpstream" then [[88, 45, 65], [88, 45, 66]] else []
  map s := if s = "values" then [([97], [98, 99]), ([97, 98], [99]), ([122], [])] else []

/-- the same request, the runtime iterating the values in the opposite order -/
def envA' : Env := { envA with map := fun s => (envA.map s).reverse }

/-- the same request with the boundary between a key and its value shifted: `{a: "b", abc: "", z: ""}` -/
def envB : Env :=
  { envA with map := fun s => if s = "values" then [([97], [98]), ([97, 98, 99], []), ([122], [])] else [] }

/-- `Endpoint.Hash` before the repair: url, method, headers in map order, optional strategy digest -/
def legacyEndpoint : List Field :=
  [.raw "e.URL", .raw "e.Method", .mapRaw "e.Headers", .opt "e.AuthStrategy != nil" (.fixed 32 "e.AuthStrategy.Hash()")]

/-- `clientcredentials.Config.calculateCacheKey` before the repair -/
def legacyClientCredentials : List Field :=
  [.raw "c.ClientID", .raw "c.ClientSecret", .raw "c.TokenURL", .joined [] "c.Scopes"]

/-- a caching mechanism over requests `(token, rule)`: the key is the token (in unary), the remote system echoes the token, rule `r`
accepts a response `v` iff `v ≥ r`; validation is repeated on a hit -/
def demo (recheck : Bool) : Mech (Nat × Nat) Nat where
  key r := List.replicate r.1 0
  fresh r := some r.1
  accept r v := decide (r.2 ≤ v)
  enabled _ := true
  ttl _ _ := 10
  recheck := recheck
  recode := id

/-- the same mechanism with a cache whose serialisation halves the level of a response (stands for a YAML integer
coming back as a float, a `[]string` coming back as `[]any`): a value read back differs from the value stored -/
def lossy : Mech (Nat × Nat) Nat := { demo true with recode := fun v => v / 2 }

/-- a finalizer with a reloadable signing key: the state is the number of the key in force, a request is a subject; the
"token" for subject `r` signed with key `s` is `10 * s + r`; the key function writes key and subject (self-delimiting) -/
def reloadDemo : Mech (Nat × Nat) Nat where
  key x := List.replicate x.1 0 ++ 1 :: List.replicate x.2 0
  fresh x := some (10 * x.1 + x.2)
  accept _ _ := true
  enabled _ := true
  ttl _ _ := 10
  recheck := true
  recode := id

/-- subject 3 asks twice, the key store is reloaded with key 2, subject 3 asks again, the key store is rolled back to
key 1, subject 3 asks once more -/
def reloadEvents : List (Event Nat Nat) := [.req 0 3, .req 1 3, .reload 2, .req 2 3, .reload 1, .req 3 3]

/-- a table in which every user of the shared cache starts its key with a constant of its own -/
def taggedTable : List (String × List Field) :=
  [("genericAuthenticator", [.tag [1], .lp "x"]), ("introspection", [.tag [2], .lp "x"]), ("jwtAuthenticator", [.tag [3], .lp "x"]),
   ("remoteAuthorizer", [.tag [4], .lp "x"]), ("genericContextualizer", [.tag [5], .lp "x"]), ("jwtFinalizer", [.tag [6], .lp "x"]),
   ("clientCredentialsKey", [.tag [7], .lp "x"]), ("httpCache", [.tag [8], .lp "x"])]

end Heimdall.CacheExec.Witness
