import HeimdallModel.Model.Jwt
/-!
# C05 — what entitles a JWT to a subject (specification)

Written from the property text over the **raw payload** (a list of members `kvs` of a JSON object), not over what
the model's decoder makes of it.  It shares with `Model/Jwt.lean` only vocabulary: the JSON type `Val`, the
configuration / key / token records, the tokenisers `splitAtChar` / `parts`, the leeway of an `Expectation`, the
path language of the subject configuration (`Val.get`, `idString`, `attrsSource`) and the generated algorithm lists.
Everything that decides — how claims are read and which shapes are admissible, which assertion value is in force,
when scopes are satisfied, which key may justify a token, the validity window — is defined here a second time,
declaratively, and the theorems of `Props/C05.lean` prove that the model's ladder computes exactly this.

* `Spec.member`, `wellTyped`, `issuer`, `audiences`, `granted`, `date`     — reading the registered claims
                                                                              (`Spec.registered`: their names).
* `Spec.inForce`                                                            — "the first level that sets a value wins".
* `Covers`, `WildMatch`, `Satisfied`                                        — scope satisfaction as relations.
* `Entitled`, `SubjectOf`, `Accepts`                                        — the acceptance condition.
* `Spec.authenticate`                                                       — the same as an executable oracle.
-/
namespace Heimdall.Jwt

/-! ## Scopes -/

/-- one part of a granted wildcard scope against one part of a required scope -/
def PartOk (m n : String) : Prop := (m = "*" ∧ n ≠ "") ∨ m = n

/-- wildcard strategy on dot-separated parts: parts agree one by one (`*` standing for any non-empty part); a
shorter granted scope must end in `*`, which then also covers everything below -/
inductive WildMatch : List String → List String → Prop
  | nil : WildMatch [] []
  | star (n : String) (ns : List String) : n ≠ "" → WildMatch ["*"] (n :: ns)
  | step {m n : String} {ms ns : List String} : PartOk m n → WildMatch ms ns → WildMatch (m :: ms) (n :: ns)

/-- when one granted scope covers one required scope -/
def Covers : Strategy → String → String → Prop
  | .exact, g, r => g = r
  | .hierarchic, g, r =>
    g = r ∨ (g.utf8ByteSize ≤ r.utf8ByteSize ∧ ∃ rest, rest ≠ [] ∧ parts r = parts g ++ rest)
  | .wildcard, g, r => WildMatch (parts g) (parts r)

/-- every required scope is covered by a granted one (no matcher configured: nothing is required) -/
def Satisfied (m : Option ScopesMatcher) (granted : List String) : Prop :=
  ∀ m', m = some m' → ∀ r ∈ m'.required, ∃ g ∈ granted, Covers m'.strategy g r

namespace Spec

/-! ## Reading the payload -/

/-- the member of a JSON object with the given name -/
def member (k : String) (kvs : List (String × Val)) : Option Val :=
  (kvs.find? fun kv => kv.1 = k).map (·.2)

/-- the names under which a payload speaks to the assertions: the registered claims of RFC 7519 plus the two spellings
of the granted scopes.  A member under any other name (`azp`, `client_id`, `audience`, `Aud`, `expires_at`, `scopes`,
`issuer`, …) — whatever it carries — is an attribute of the subject at most, never a reason to accept or to refuse
(`c05_only_registered_claims_decide`, `c05_entitlement_reads_registered_claims_only`). -/
def registered : List String := ["iss", "sub", "aud", "scp", "scope", "exp", "nbf", "iat", "jti"]

/-- a textual claim is a string (or absent / `null`) -/
def textOk : Option Val → Bool
  | none => true
  | some .null => true
  | some (.str _) => true
  | some _ => false

/-- a list-valued claim (`aud`, `scp`, `scope`) is a string or an array of strings (or absent) -/
def stringsOk : Option Val → Bool
  | none => true
  | some (.str _) => true
  | some (.arr l) => l.all fun v => match v with | .str _ => true | _ => false
  | some _ => false

/-- the integral part of a JSON number -/
def seconds (m : Int) (e : Nat) : Int := m.tdiv (10 ^ e)

/-- a date claim is a number (or absent / `null`) denoting an instant of the years 1–9999, after the very first
second of year 1 -/
def dateOk : Option Val → Bool
  | none => true
  | some .null => true
  | some (.num m e) => decide (-62135596800 < seconds m e) && decide (seconds m e ≤ 253402300799)
  | some _ => false

/-- the registered claims have admissible shapes -/
def wellTyped (kvs : List (String × Val)) : Bool :=
  textOk (member "iss" kvs) && textOk (member "sub" kvs) && textOk (member "jti" kvs) &&
  stringsOk (member "aud" kvs) && stringsOk (member "scp" kvs) && stringsOk (member "scope" kvs) &&
  dateOk (member "exp" kvs) && dateOk (member "nbf" kvs) && dateOk (member "iat" kvs)

/-- the issuer the token names: a non-empty string -/
def issuer (kvs : List (String × Val)) : Option String :=
  match member "iss" kvs with
  | some (.str s) => if s = "" then none else some s
  | _ => none

/-- the strings a list-valued claim denotes: an array as it is, a single string split at blanks -/
def strings : Option Val → List String
  | some (.str s) => splitAtChar ' ' s
  | some (.arr l) => l.filterMap fun v => match v with | .str s => some s | _ => none
  | _ => []

def audiences (kvs : List (String × Val)) : List String := strings (member "aud" kvs)

/-- the granted scopes: `scp` if it names any, otherwise `scope` -/
def granted (kvs : List (String × Val)) : List String :=
  if strings (member "scp" kvs) ≠ [] then strings (member "scp" kvs) else strings (member "scope" kvs)

/-- the instant (seconds since the epoch) a date claim denotes, if the claim is present -/
def date (k : String) (kvs : List (String × Val)) : Option Int :=
  match member k kvs with
  | some (.num m e) => some (seconds m e)
  | _ => none

/-! ## Assertions in force -/

/-- the first list that is not empty -/
def firstSet {α : Type} (ls : List (List α)) : List α := (ls.find? fun l => !l.isEmpty).getD []

/-- rule level (if any) before mechanism level -/
def levels (cfg : Config) (rule : Option Expectation) : List Expectation :=
  (match rule with | some r => [r] | none => []) ++ [cfg.assertions]

/-- per assertion the value of the first level that sets one; after the configured levels come: the issuer named
by the server metadata, no audience, no scope requirement, the default algorithms, no leeway setting (= 10 s) -/
def inForce (cfg : Config) (rule : Option Expectation) (metaIssuer : String) : Expectation :=
  { issuers := firstSet ((levels cfg rule).map (·.issuers) ++ [[metaIssuer]])
    audiences := firstSet ((levels cfg rule).map (·.audiences))
    scopes := (levels cfg rule).findSome? (·.scopes)
    algs := firstSet ((levels cfg rule).map (·.algs) ++ [Gen.defaultAllowed])
    leeway := (((levels cfg rule).map (·.leeway)).find? fun l => l != 0).getD 0 }

/-- the server metadata: with a JWKS endpoint none is needed; otherwise the document must be there and name a
key-set endpoint -/
def metadata (cfg : Config) (w : World) : Option Metadata :=
  if cfg.jwksMode then some { issuer := "", hasJwks := true }
  else w.metadata.bind fun m => if m.hasJwks then some m else none

/-- which key set is responsible: with a templated endpoint the one of the issuer the token claims -/
def endpoint (cfg : Config) (kvs : List (String × Val)) : String :=
  if cfg.jwksMode ∧ cfg.templated then
    match member "iss" kvs with
    | some (.str s) => s
    | _ => "<no value>"
  else ""

end Spec

/-! ## Entitlement -/

/-- The key `k` of the key set `ks` entitles the token with payload members `kvs` to be accepted under the
assertions `a` at the instant `nowMs` (milliseconds). -/
structure Entitled (a : Expectation) (validateJwk : Bool) (ks : List Key) (tok : Token)
    (kvs : List (String × Val)) (nowMs : Int) (k : Key) : Prop where
  /-- the key was obtained from the key-set endpoint -/
  fromKeySet : k ∈ ks
  /-- a token naming a key is verified with that key only, and the name must be unique in the key set -/
  designated : tok.kid ≠ "" → ks.filter (fun k' => k'.kid = tok.kid) = [k]
  /-- the key's certificate chain (if it has one and validation is on) is valid -/
  certificate : validateJwk = true → k.cert ≠ .untrusted
  /-- the key's declared algorithm is the token's `alg` -/
  algAgrees : k.alg = tok.alg
  /-- … and is allowed -/
  algAllowed : k.alg ∈ a.algs
  /-- the signature verifies with this key -/
  signed : k.usable = true ∧ tok.critOk = true ∧ tok.sigOk k.mat = true
  /-- the registered claims have admissible shapes -/
  wellTyped : Spec.wellTyped kvs = true
  /-- the token names an issuer and it is trusted -/
  issuerTrusted : ∃ i, Spec.issuer kvs = some i ∧ i ∈ a.issuers
  audienceOk : a.audiences = [] ∨ ∃ x ∈ a.audiences, x ∈ Spec.audiences kvs
  scopesOk : Satisfied a.scopes (Spec.granted kvs)
  /-- inside the validity period, widened by the leeway (whole seconds) on both sides -/
  notBefore : ∀ t, Spec.date "nbf" kvs = some t → t ≤ nowMs / 1000 + a.leewaySec
  notExpired : ∀ t, Spec.date "exp" kvs = some t → nowMs / 1000 - a.leewaySec < t
  /-- not issued in the future (beyond the leeway) -/
  issued : ∀ t, Spec.date "iat" kvs = some t → t * 1000 ≤ nowMs + a.leewayMs

/-- the subject is made of values found in the payload: the id is the textual form of the value at the id path
and is not empty, the attributes are the object at the attributes path (the whole payload by default) -/
def SubjectOf (sc : SubjectConf) (payload : Val) (id : String) (attrs : Val) : Prop :=
  ∃ v, payload.get sc.idPath = some v ∧ idString v = some id ∧ id ≠ "" ∧
    ∃ kvs, attrs = .obj kvs ∧ attrsSource sc payload = some (.obj kvs)

/-- acceptance of a request on a cold cache: a parsable, canonically serialised token with a supported algorithm
whose payload is a JSON object, reachable endpoints, and a key of the key set fetched for this token that entitles it
under the assertions in force; `(id, attrs)` is the subject of that payload -/
def Accepts (cfg : Config) (rule : Option Expectation) (w : World) (p : Presented) (nowMs : Int)
    (id : String) (attrs : Val) : Prop :=
  ∃ tok kvs md ks k,
    cfg.ok = true ∧ p = .token tok ∧ tok.alg ∈ Gen.supported ∧ tok.canonical = true ∧
    tok.payload = some (.obj kvs) ∧ Spec.metadata cfg w = some md ∧ w.jwks (Spec.endpoint cfg kvs) = some ks ∧
    Entitled (Spec.inForce cfg rule md.issuer) cfg.validateJwk ks tok kvs nowMs k ∧
    SubjectOf cfg.subject (.obj kvs) id attrs

/-! ## Executable oracle -/

inductive Verdict
  | subject (id : String) (attrs : Val)
  | refused
  | noAuthenticator
  | unmodelled
  deriving Repr, Inhabited

def Outcome.verdict : Outcome → Verdict
  | .accepted id attrs => .subject id attrs
  | .rejected _ => .refused
  | .noAuthenticator => .noAuthenticator
  | .unmodelled => .unmodelled

/-- what the implementation can deliver of a verdict: attribute numbers as doubles -/
def Verdict.rounded : Verdict → Verdict
  | .subject id attrs => .subject id attrs.round
  | v => v

namespace Spec

/-- hierarchic strategy: the granted scope is the required one or one of its ancestors -/
def hier (g r : String) : Bool :=
  g == r || (decide (g.utf8ByteSize ≤ r.utf8ByteSize) && (parts g).isPrefixOf (parts r) &&
    decide ((parts g).length < (parts r).length))

/-- wildcard strategy on parts -/
def wild : List String → List String → Bool
  | [], [] => true
  | [m], n :: ns => if ns.isEmpty then (m == "*" && n != "") || m == n else m == "*" && n != ""
  | m :: m' :: ms, n :: ns => ((m == "*" && n != "") || m == n) && wild (m' :: ms) ns
  | _, _ => false

def covers : Strategy → String → String → Bool
  | .exact, g, r => g == r
  | .hierarchic, g, r => hier g r
  | .wildcard, g, r => wild (parts g) (parts r)

def satisfied (m : Option ScopesMatcher) (granted : List String) : Bool :=
  match m with
  | none => true
  | some m => m.required.all fun r => granted.any fun g => covers m.strategy g r

/-- all clauses of `Entitled` as one conjunction -/
def entitles (a : Expectation) (validateJwk : Bool) (ks : List Key) (tok : Token) (kvs : List (String × Val))
    (nowMs : Int) (k : Key) : Bool :=
  (tok.kid == "" || ks.filter (fun k' => k'.kid = tok.kid) == [k]) &&
  (!validateJwk || k.cert != .untrusted) &&
  k.alg == tok.alg && a.algs.contains k.alg &&
  k.usable && tok.critOk && tok.sigOk k.mat &&
  wellTyped kvs &&
  (match issuer kvs with | some i => a.issuers.contains i | none => false) &&
  (a.audiences.isEmpty || a.audiences.any ((audiences kvs).contains ·)) &&
  satisfied a.scopes (granted kvs) &&
  (match date "nbf" kvs with | some t => decide (t ≤ nowMs / 1000 + a.leewaySec) | none => true) &&
  (match date "exp" kvs with | some t => decide (nowMs / 1000 - a.leewaySec < t) | none => true) &&
  (match date "iat" kvs with | some t => decide (t * 1000 ≤ nowMs + a.leewayMs) | none => true)

/-- the subject of a payload -/
def subjectOf (sc : SubjectConf) (pl : Val) : Verdict :=
  match (pl.get sc.idPath).map idString with
  | none => .refused
  | some none => .unmodelled
  | some (some id) =>
    if id = "" then .refused
    else
      match attrsSource sc pl with
      | some (.obj kvs) => .subject id (.obj kvs)
      | _ => .refused

/-- the verdict the property demands for one request on a cold cache -/
def authenticate (cfg : Config) (rule : Option Expectation) (w : World) (p : Presented) (nowMs : Int) : Verdict :=
  if cfg.jwksMode ∧ cfg.assertions.issuers = [] then .noAuthenticator
  else
    match p with
    | .token tok =>
      match tok.payload with
      | some (.obj kvs) =>
        if Gen.supported.contains tok.alg ∧ tok.canonical = true then
          match metadata cfg w, w.jwks (endpoint cfg kvs) with
          | some md, some ks =>
            if ks.any (entitles (inForce cfg rule md.issuer) cfg.validateJwk ks tok kvs nowMs) then
              subjectOf cfg.subject (.obj kvs)
            else .refused
          | _, _ => .refused
        else .refused
      | _ => .refused
    | _ => .refused

end Spec

end Heimdall.Jwt
