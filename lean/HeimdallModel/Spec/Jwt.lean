import HeimdallModel.Model.Jwt
/-!
# C05 — what entitles a JWT to a subject (specification)

Declarative counterpart of `Model/Jwt.lean`.

* `Covers`, `Satisfied` — when granted scopes satisfy the required ones (per matching strategy, as relations).
* `Entitled a validate ks tok c nowMs k` — the key `k` of the key set `ks` justifies accepting the token `tok` with
  registered claims `c` under the assertions `a` at the instant `nowMs`: one field per clause of the property.
* `SubjectOf sc payload id attrs` — the subject consists of values of the (verified) payload.
* `Accepts` — the whole acceptance condition of a request.
* `Spec.authenticate` — the same as an executable oracle (one conjunction over the candidate keys, no ladder); it is
  run next to the model by the correspondence check.
-/
namespace Heimdall.Jwt

/-! ## Scopes -/

/-- one part of a granted wildcard scope against one part of a required scope -/
def PartOk (m n : String) : Prop := (m = "*" ∧ n ≠ "") ∨ m = n

/-- wildcard strategy on dot-separated parts: parts agree one by one (`*` standing for any non-empty part); a
shorter granted scope must end in `*`, which then also covers everything below -/
inductive WildMatch : List String → List String → Prop
  | nil : WildMatch [] []
  | star (n : String) (ns : List String) : n ≠ "" → WildMatch ["*"] (n :: ns)
  | step {m n : String} {ms ns : List String} : PartOk m n → WildMatch ms ns → WildMatch (m :: ms) (n :: ns)

/-- when one granted scope covers one required scope -/
def Covers : Strategy → String → String → Prop
  | .exact, g, r => g = r
  | .hierarchic, g, r =>
    g = r ∨ (g.utf8ByteSize ≤ r.utf8ByteSize ∧ ∃ rest, rest ≠ [] ∧ parts r = parts g ++ rest)
  | .wildcard, g, r => WildMatch (parts g) (parts r)

/-- every required scope is covered by a granted one (no matcher configured: nothing is required) -/
def Satisfied (m : Option ScopesMatcher) (granted : List String) : Prop :=
  ∀ m', m = some m' → ∀ r ∈ m'.required, ∃ g ∈ granted, Covers m'.strategy g r

/-! ## Entitlement -/

/-- The key `k` entitles the token to be accepted. -/
structure Entitled (a : Expectation) (validateJwk : Bool) (ks : List Key) (tok : Token) (c : Claims) (nowMs : Int)
    (k : Key) : Prop where
  /-- the key was obtained from the key-set endpoint -/
  fromKeySet : k ∈ ks
  /-- a token naming a key is verified with that key only, and the name must be unique in the key set -/
  designated : tok.kid ≠ "" → ks.filter (fun k' => k'.kid = tok.kid) = [k]
  /-- the key's certificate chain (if it has one and validation is on) is valid -/
  certificate : validateJwk = true → k.cert ≠ .untrusted
  /-- the key's declared algorithm is the token's `alg` -/
  algAgrees : k.alg = tok.alg
  /-- … and is allowed -/
  algAllowed : k.alg ∈ a.algs
  /-- the signature verifies with this key -/
  signed : k.usable = true ∧ tok.critOk = true ∧ tok.sigOk k.mat = true
  issuerTrusted : c.iss ∈ a.issuers
  audienceOk : a.audiences = [] ∨ ∃ x ∈ a.audiences, x ∈ c.aud
  scopesOk : Satisfied a.scopes c.granted
  /-- inside the validity period, widened by the leeway (whole seconds) on both sides -/
  notBefore : ∀ t, c.nbf = some t → t ≤ nowMs / 1000 + a.leewaySec
  notExpired : ∀ t, c.exp = some t → nowMs / 1000 - a.leewaySec < t
  /-- not issued in the future (beyond the leeway) -/
  issued : ∀ t, c.iat = some t → t * 1000 ≤ nowMs + a.leewayMs

/-- the subject is made of values found in the payload: the id is the textual form of the value at the id path
and is not empty, the attributes are the object at the attributes path (the whole payload by default) -/
def SubjectOf (sc : SubjectConf) (payload : Val) (id : String) (attrs : Val) : Prop :=
  ∃ v, payload.get sc.idPath = some v ∧ idString v = some id ∧ id ≠ "" ∧
    ∃ kvs, attrs = .obj kvs ∧ attrsSource sc payload = some (.obj kvs)

/-- acceptance of a request: a parsable token whose payload is a claims object, reachable endpoints, and a key
of the fetched key set that entitles the token under the assertions in force -/
def Accepts (cfg : Config) (rule : Option Expectation) (w : World) (p : Presented) (nowMs : Int)
    (id : String) (attrs : Val) : Prop :=
  ∃ tok pl kvs md ks c k,
    cfg.ok = true ∧ p = .token tok ∧ tok.alg ∈ Gen.supported ∧ tok.payload = some pl ∧ pl.members = some kvs ∧
    resolveMetadata cfg w = .ok md ∧ w.jwks = some ks ∧ decodeClaims kvs = some c ∧
    Entitled (effective cfg rule md.issuer) cfg.validateJwk ks tok c nowMs k ∧
    SubjectOf cfg.subject pl id attrs

/-! ## Executable oracle -/

inductive Verdict
  | subject (id : String) (attrs : Val)
  | refused
  | noAuthenticator
  | unmodelled
  deriving Repr, Inhabited

def Outcome.verdict : Outcome → Verdict
  | .accepted id attrs => .subject id attrs
  | .rejected _ => .refused
  | .noAuthenticator => .noAuthenticator
  | .unmodelled => .unmodelled

namespace Spec

/-- all clauses of `Entitled` as one conjunction -/
def entitledB (a : Expectation) (validateJwk : Bool) (ks : List Key) (tok : Token) (c : Claims) (nowMs : Int)
    (k : Key) : Bool :=
  (tok.kid == "" || ks.filter (fun k' => k'.kid = tok.kid) == [k]) &&
  (!validateJwk || k.cert != .untrusted) &&
  k.alg == tok.alg && a.algs.contains k.alg &&
  k.usable && tok.critOk && tok.sigOk k.mat &&
  a.issuers.contains c.iss &&
  (a.audiences.isEmpty || a.audiences.any (c.aud.contains ·)) &&
  a.scopesOk c.granted &&
  (match c.nbf with | some t => decide (t ≤ nowMs / 1000 + a.leewaySec) | none => true) &&
  (match c.exp with | some t => decide (nowMs / 1000 - a.leewaySec < t) | none => true) &&
  (match c.iat with | some t => decide (t * 1000 ≤ nowMs + a.leewayMs) | none => true)

/-- everything that has to be there before keys are looked at -/
def preconditions (cfg : Config) (w : World) (p : Presented) :
    Option (Token × Val × List (String × Val) × Metadata × List Key × Claims) :=
  match p with
  | .token tok =>
    if Gen.supported.contains tok.alg then do
      let pl ← tok.payload
      let kvs ← pl.members
      let md ← (resolveMetadata cfg w).toOption
      let ks ← w.jwks
      let c ← decodeClaims kvs
      pure (tok, pl, kvs, md, ks, c)
    else none
  | _ => none

def authenticate (cfg : Config) (rule : Option Expectation) (w : World) (p : Presented) (nowMs : Int) : Verdict :=
  if !cfg.ok then .noAuthenticator
  else
    match preconditions cfg w p with
    | none => .refused
    | some (tok, pl, _, md, ks, c) =>
      if ks.any (entitledB (effective cfg rule md.issuer) cfg.validateJwk ks tok c nowMs) then
        (subject cfg.subject pl).verdict
      else .refused

end Spec

end Heimdall.Jwt
