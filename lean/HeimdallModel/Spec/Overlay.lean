import HeimdallModel.Model.MechTypes
/-!
# C17, what the property demands (declaratively)

* **Immutable**: whatever is observable of a mechanism object (prototype or variant) at some point of a run is
  observable unchanged at every later point, whatever the other threads do in between (executions of any objects,
  creations of further variants, in any interleaving).
* **Local**: a variant shows, field by field, the prototype's value unless the rule's own configuration sets the
  field (`observed`: the own setting always wins); which other variants exist, existed before or are being created
  does not matter.
* **RaceFree**: no two threads are ever about to access the same cell with one of them writing.
-/
namespace Heimdall.Spec.Overlay
open Heimdall.Mech

variable {V Ov : Type}

/-- nothing that could be observed in `c` ever looks different later -/
def Immutable (D : Desc V Ov) (c : Config V Ov) : Prop :=
  ∀ c', Reach D c c' → ∀ h, (c.store.view h).isSome = true → c'.store.view h = c.store.view h

/-- variant `k` of prototype `p` under override `ov` shows exactly the prototype's view overlaid with `ov` -/
def Local (D : Desc V Ov) (σ : Store V Ov) (k p : Nat) (ov : Ov) : Prop :=
  ∃ pi : Inst, σ.insts[p]? = some pi ∧ σ.view k = some (overlayView D pi.typ ov (viewOf σ.cells pi.slots))

def RaceFree (c : Config V Ov) : Prop := ∀ i j, ¬ Conflict c i j

/-! ## the overlay of one field, for the heimdall configuration language -/

/-- the rule sets `key` -/
def sets (ov : Override) (key : Key) : Prop := entriesOf ov.entries [key] ≠ []

instance (ov : Override) (key : Key) : Decidable (sets ov key) := by unfold sets; exact inferInstance

/-- what a rule must observe for a field that can be overridden under `key`: **its own setting if it has one —
whatever the value, also an empty string, an empty list or `0s` — otherwise the catalogue's** -/
def observed (key : Key) (cat : Entries) (ov : Override) : Entries :=
  if sets ov key then entriesOf ov.entries [key] else cat

/-- the rule's setting for `key` is one the code can tell from "not set": the field is decoded into a pointer
(`zeroOk`) or the value is not the zero value -/
def Expressible (ov : Override) (key : Key) (zeroOk : Bool) : Prop :=
  zeroOk = true ∨ ∃ e ∈ entriesOf ov.entries [key], isZero e.2 = false

/-- entry-wise lookup (`values`): the last entry of a key counts -/
def lookupLast (es : Entries) (k : Key) : Option String :=
  es.foldl (fun acc e => if e.1 = k then some e.2 else acc) none

end Heimdall.Spec.Overlay
