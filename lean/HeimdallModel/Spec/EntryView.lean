import HeimdallModel.Model.EntryView
/-!
# Reference semantics of property C13

What *the* request view of a logical request is, said directly from the HTTP message — no carrier, no Go map, no
request context, no cell: the method, the scheme, the host, the decoded path and the path and query as written, a
header = the values of all field lines of that name (case-insensitively) joined by a comma, `Host` = the host,
a cookie = what `net/http` reads from the `Cookie` line, the body = the bytes decoded according to the content type.

`Spec.serve` runs a rule set on that view by threading the view through lookup (captures are added), the slash
handling of the rule (captures decoded) and the mechanisms, which all read *that* view. `Spec.answer` is what every
entry point has to answer. The theorems of `Props/C13.lean` say that the model of each of the three entry points
(`serve Impl.fixed …`) computes exactly this.
-/
namespace Heimdall.EntryView.Spec
open Heimdall Heimdall.EntryView

/-- the raw path of the view is the received spelling of the path with the octets that may not stand in a path
    percent-encoded; the path is its decoding; the query is taken as received -/
def url (lr : LReq) : URLv :=
  { scheme := lr.scheme, host := lr.host, path := unescapeOrEmpty (receivedL lr.rawPath),
    rawPath := receivedL lr.rawPath, rawQuery := lr.query }

/-- the view before a rule has been looked up -/
def obj (lr : LReq) : ReqObj := { method := lr.method, url := url lr, captures := none }

/-- the values of all field lines whose name is `name`, case-insensitively, in order -/
def headerValues (lr : LReq) (name : Bytes) : List Bytes :=
  lr.headers.filterMap fun l => if canonKey l.1 = canonKey name then some l.2 else none

def header (lr : LReq) (name : Bytes) : Bytes :=
  if canonKey name = hostKey then lr.host else join comma (headerValues lr name)

def cookie (lr : LReq) (name : Bytes) : Bytes := stdCookie (headerValues lr b!"Cookie") name

def body (D : Decoder) (lr : LReq) : BodyV :=
  match lr.body with
  | none => .raw []
  | some b => if b.isEmpty then .raw [] else decodeBody D (header lr b!"Content-Type") b

def funcs (D : Decoder) (lr : LReq) : Funcs := { header := header lr, cookie := cookie lr, body := body D lr }

/-- the payload: the bytes of the body as the client sent them, whatever their number (no body = no bytes) -/
def payload (lr : LReq) : Bytes := lr.body.getD []

/-- all headers other than `Host`: canonical name ↦ joined values -/
def headersMap (lr : LReq) : List (Bytes × Bytes) :=
  (group canonKey lr.headers).map fun kv => (kv.1, join comma kv.2)

/-- `Request.Headers()` as the entry point shows it: the HTTP based services add the host as `Host` entry, the Envoy
    service does not (known finding `C13-headers-host-entry`) -/
def headersMapAt (ep : EP) (lr : LReq) : List (Bytes × Bytes) :=
  if ep = .envoy then headersMap lr else (hostKey, lr.host) :: headersMap lr

/-! ## Which logical requests the statement is about (decidable) -/

/-- a path as it can stand in the request line of a message `net/http` accepts: it starts with a slash, contains no
    `?` (that starts the query), no blank and no control octet, and its escapes are well-formed. Octets that may not
    stand in a path (`"`, `<`, `>`, `^`, `` ` ``, `{`, `|`, `}`, `\`, `#`, non-ASCII) are allowed here. -/
def validPath (p : Bytes) : Bool :=
  p.head? = some '/' && !p.contains '?' && p.all (fun c => 0x20 < c.toNat && c.toNat ≠ 0x7f) &&
  (pathUnescapeL p).isSome

/-- header names are tokens (`net/http` rejects the message otherwise) and none of them is `Host` (that line is the
    `host` component) or one of the hop headers the `trustedproxy` middleware removes (C09) -/
def plainHeaders (lr : LReq) : Bool :=
  lr.headers.all fun l => l.1.all isTokenChar && !(hostKey :: untrustedHeaders).contains (canonKey l.1)

/-- RFC 6265 §5.4: a user agent sends at most one `Cookie` field line -/
def oneCookieLine (lr : LReq) : Bool := (headerValues lr b!"Cookie").length ≤ 1

def wellFormed (lr : LReq) : Bool := validPath lr.rawPath && plainHeaders lr && oneCookieLine lr

/-- the repairs `fixes/C13-1 … C13-5` of the Envoy request context are in place -/
def repaired (I : Impl) : Bool := I.cachesView && I.splitsTarget && I.canonHeader && I.stdCookies && I.bodyFallback

/-- What the theorems cover: a repaired implementation and a well-formed logical request whose path, unless the Envoy
    request context encodes them too (proposed `fixes/C13-6`), contains no octet that may not stand in a path — for
    such octets the HTTP based services keep `%XX` in the raw path and the Envoy service the octet itself (known
    finding `C13-envoy-raw-path-octets`). -/
def covered (I : Impl) (lr : LReq) : Bool :=
  repaired I && wellFormed lr && (I.encodesPath || validEncodedPath lr.rawPath)

/-- The request line and the header block of the message fit into what the `net/http` servers of the decision and the
    proxy service read for the head of a request under the configured `buffer_limit.read` (`headerBudget`: the limit,
    1 MiB if none is configured, plus 4096 bytes). A message with a larger head is answered by those servers
    themselves (431) and never reaches a rule, while the Envoy gRPC service — to which the request travels as a
    message — decides it: such requests are outside the statement (a resource limit of the deployment, like the
    limits of the Envoy proxy itself). The body does not count: `fits l { lr with body := b } = fits l lr`. -/
def fits (l : Limits) (lr : LReq) : Bool := lr.headLength ≤ headerBudget l

/-- A logical request a gateway can describe in `X-Forwarded-*` headers so that the decision service reads it back:
    method and host are not empty (an empty header falls back to the gateway's own request), the path is in origin
    form (`/…`, not `//…`, which `url.Parse` reads as an authority) and the request target contains no `#` (`url.Parse`
    cuts a fragment off; a client does not send one). -/
def forwardable (lr : LReq) : Bool :=
  !lr.method.isEmpty && !lr.host.isEmpty && originForm lr.rawPath && !lr.target.contains '#'

/-! ## Running a rule set on the view -/

/-- the finalizers, all reading the same view `o` -/
def runFins (o : ReqObj) (F : Funcs) : List Fin → Ups → Ups × Option Dec
  | [], u => (u, none)
  | f :: fs, u =>
    match (f.cond.map fun cd => cd.eval o F : Option Tri) with
    | some .fails => (u, some .internal)
    | some .no => runFins o F fs u
    | _ => runFins o F fs (f.apply o F u)

structure Run where
  dec       : Dec
  isDefault : Bool := false
  view      : Option ReqObj := none     -- the view the mechanisms were shown
  ups       : Ups := {}

/-- the mechanisms of a pipeline on the view `o` -/
def runPipe (o : ReqObj) (F : Funcs) (pipe : Pipe) (isDefault : Bool) : Run :=
  if !pipe.authn then { dec := .authentication, isDefault } else
  match runAuthz o F pipe.authz with
  | some d => { dec := d, isDefault, view := some o }
  | none =>
    if pipe.comm then { dec := .communication, isDefault, view := some o } else
    match runFins o F pipe.fins {} with
    | (u, some d) => { dec := d, isDefault, view := some o, ups := u }
    | (u, none) => { dec := .ok, isDefault, view := some o, ups := u }

def serveOn (cfg : Cfg) (F : Funcs) (o0 : ReqObj) : Run :=
  match cfg.repo.findRule cfg.hasDefault o0.toReqView with
  | .none => { dec := .norule }
  | .default =>
    let r := prelude .off o0
    if !r.2 then { dec := .argument, isDefault := true } else runPipe r.1 F cfg.defaultPipe true
  | .rule v ps =>
    -- lookup adds the captured path values to the view, the slash handling of the rule decodes them
    let r := prelude v.esh { o0 with captures := some (toBytesPairs (lastWins ps)) }
    if !r.2 then { dec := .argument } else runPipe r.1 F (cfg.pipeOf (v.src, v.rid)) false

/-- the run of the rule set `cfg` on the logical request -/
def serve (cfg : Cfg) (lr : LReq) : Run := serveOn cfg (funcs cfg.D lr) (obj lr)

/-- What an entry point answers for a run of the rule set on the logical request `lr` under the response
    configuration `R`: the decision with the status configured for its class (the same for the HTTP status of the
    decision / proxy service and the status of Envoy's denied response), the view that was shown, and — if the
    request is allowed — every collected header with all its values (HTTP list semantics: joined by a comma), the
    cookies, and what the upstream application is shown: the client's headers, those of a name the pipeline set
    replaced by the pipeline's value, and the payload as the client sent it. A proxy can only forward if the rule
    names an upstream, which the default rule does not. Nothing of this depends on the log level the services run
    with, on the length of the body or on the configured buffer limits; the host of the view is the host as the
    client wrote it, a port that is spelled out — be it the default port of the scheme — included. -/
def answerWith (hand : List Bytes → Bytes) (R : Respond) (lr : LReq) (ep : EP) (r : Run) : Outcome :=
  let seen := r.view.map fun o => ({ obj := o, stable := true } : Seen)
  let refused (d : Dec) : Outcome :=
    { dec := d, status := R.code d, seen, upHeaders := [], upCookies := [], upSees := [], upBody := [] }
  match r.dec with
  | .ok =>
    if ep = .proxy && r.isDefault then refused .internal
    else
      let handed := r.ups.headers.map fun kv => (kv.1, hand kv.2)
      { dec := .ok, status := okStatus R ep, seen, upHeaders := handed, upCookies := r.ups.cookies,
        upSees := overrideHeaders (headersMap lr) handed, upBody := payload lr }
  | d => refused d

def answer (R : Respond) (lr : LReq) (ep : EP) (r : Run) : Outcome := answerWith (join comma) R lr ep r

/-- the decision of an answer: the decision of the run, except that a proxy cannot forward without upstream -/
def decAt (ep : EP) (r : Run) : Dec :=
  if r.dec = .ok ∧ ep = .proxy ∧ r.isDefault = true then .internal else r.dec

/-- How the three `Finalize` implementations hand the values collected for one header over: the Envoy service
    joins them, the decision and the proxy service keep the first one only (known finding
    `C13-first-header-value`). -/
def handOver (ep : EP) (vs : List Bytes) : Bytes := if ep = .envoy then join comma vs else vs.head?.getD []

/-- `answer` with the headers as the entry point really hands them over -/
def delivered (R : Respond) (lr : LReq) (ep : EP) (r : Run) : Outcome := answerWith (handOver ep) R lr ep r

/-- no header was handed to the context twice -/
def singleValued (r : Run) : Bool := r.ups.headers.all fun kv => kv.2.length ≤ 1

end Heimdall.EntryView.Spec
