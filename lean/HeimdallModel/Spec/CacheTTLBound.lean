import HeimdallModel.Model.CacheTTL
/-!
# What C10 demands of a TTL computation (stated on the function, no model in between)

`ttlWithinSpec leeway cfg rem ttl`: `ttl` is an acceptable value to hand to `cache.Set` for something whose remaining
lifetime is `rem` (`none` = unknown) under the configured `cache_ttl` `cfg` (`none` = not configured):

* `ttl ≤ max 0 (rem − leeway)`: never beyond what is left of the cached thing minus the mechanism's cache leeway;
* `ttl ≤ max 0 (rem − 1)`: **strictly** less than what is left. The sources compute `rem` from `Unix()` values, that is
  from instants truncated to whole seconds, so the computed value can exceed the real remaining lifetime by just under a
  second; an entry stored for `rem` seconds could outlive the credential. This is the condition under which modelling
  durations in whole seconds is sound, and it is what a cache leeway of at least one second buys;
* `ttl ≤ max 0 cfg`: a configured TTL can only shorten, and `cfg ≤ 0` means nothing is stored (`Set` is called for a
  positive TTL only).

`enabledWithinSpec cfg enabled`: with `cache_ttl ≤ 0` the cache is not consulted.

Used by `Props/C10Src.lean` (theorems about the translated Go functions, for all inputs) and by the replay search of
`tools/props/c10.py`, which evaluates the same predicate on a grid and on values observed on the real code.
-/
namespace Heimdall.Validity

def ttlWithinSpec (leeway : Int) (cfg rem : Option Int) (ttl : Int) : Bool :=
  (match rem with
   | some r => decide (ttl ≤ max 0 (r - leeway)) && decide (ttl ≤ max 0 (r - 1))
   | none => true) &&
  (match cfg with
   | some c => decide (ttl ≤ max 0 c)
   | none => true)

def enabledWithinSpec (cfg : Option Int) (enabled : Bool) : Bool :=
  match cfg with
  | some c => if c ≤ 0 then !enabled else true
  | none => true

/-- which clause fails (for reports) -/
def ttlSpecVerdict (leeway : Int) (cfg rem : Option Int) (ttl : Int) : List String :=
  (match rem with
   | some r =>
     (if ttl ≤ max 0 (r - leeway) then [] else
        [s!"ttl {ttl} exceeds the remaining lifetime {r} minus the cache leeway {leeway}"]) ++
     (if ttl ≤ max 0 (r - 1) then [] else
        [s!"ttl {ttl} is not below the remaining lifetime {r}: the entry lives up to (or beyond) the expiry"])
   | none => []) ++
  (match cfg with
   | some c => if ttl ≤ max 0 c then [] else [s!"ttl {ttl} exceeds the configured cache_ttl {c}"]
   | none => [])

end Heimdall.Validity
