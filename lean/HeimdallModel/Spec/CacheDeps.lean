import HeimdallModel.Model.CacheKey
/-!
# C11 — what a fresh evaluation reads (hand-written from the Go code, validated by the correspondence run)

For every caching mechanism: the typed sources a fresh evaluation (rendering the request, calling the remote system,
parsing the response) depends on.  Sources are named by the Go expression the key function writes, *normalised* by the
extractor so that renaming does not matter: `recv` is the receiver, `arg<i>` the i-th parameter of the key function, a
local variable is replaced by the expression defining it, the parameter of a function literal is `_`.

| key function | parameters |
|---|---|
| `remoteAuthorizer.calculateCacheKey(sub, values, payload)` | `arg0` subject, `arg1` rendered values, `arg2` rendered payload |
| `genericContextualizer.calculateCacheKey(ctx, sub, values, payload)` | `arg0` context, `arg1` subject, `arg2` values, `arg3` payload |
| `genericAuthenticator.calculateCacheKey(ctx, reference)` | `arg0` context, `arg1` authentication data |
| `oauth2IntrospectionAuthenticator.calculateCacheKey(ep, templatedURL, token)` | `arg0` endpoint, `arg1` rendered url, `arg2` token |
| `jwtAuthenticator.calculateCacheKey(ep, renderedURL, reference)` | `arg0` endpoint, `arg1` rendered url, `arg2` key id |
| `jwtFinalizer.calculateCacheKey(ctx, sub)` | `arg0` context, `arg1` subject |
| `httpcache.cacheKey(req)` | `arg0` the request as it is sent (after `Endpoint.CreateRequest` and `AuthenticationStrategy.Apply`) |
| `template.New(val)` | `arg0` template text |

`recv.id` stands for the whole prototype configuration of the mechanism instance (endpoint, payload template, subject
mapping, …): rule-level overrides can only change what is listed separately.  Rule-level *validation* (assertions,
expressions) is not listed: it is repeated on every cache hit (`rechecked`).
-/
namespace Heimdall.CacheKey

def deps : String → List Dep
  | "genericAuthenticator" =>
      [.bytes "recv.id", .bytes "arg1", .list "arg0.Request().Header(_) for recv.fwdHeaders",
       .list "arg0.Request().Cookie(_) for recv.fwdCookies"]
  | "introspection" => [.bytes "recv.id", .bytes "arg1", .bytes "arg2"]
  | "jwtAuthenticator" => [.bytes "recv.id", .bytes "arg1", .bytes "arg2"]
  | "remoteAuthorizer" => [.bytes "recv.id", .bytes "arg2", .bytes "arg0.Hash()", .kvs "arg1"]
  | "genericContextualizer" =>
      [.bytes "recv.id", .list "recv.fwdHeaders", .list "arg0.Request().Header(_) for recv.fwdHeaders",
       .list "recv.fwdCookies", .list "arg0.Request().Cookie(_) for recv.fwdCookies", .bytes "arg3",
       .bytes "arg1.Hash()", .kvs "arg2"]
  | "jwtFinalizer" =>
      [.bytes "recv.signer.Hash()", .bytes "recv.claims.Hash() if recv.claims != nil", .num "recv.ttl",
       .bytes "arg1.Hash()", .bytes "json.Marshal(arg0.Outputs())"]
  | "clientCredentialsKey" =>
      [.bytes "recv.ClientID", .bytes "recv.ClientSecret", .bytes "recv.TokenURL", .list "recv.Scopes"]
  -- everything `Endpoint.CreateRequest` and `AuthenticationStrategy.Apply` put on the wire of a request without a
  -- body: the url (api key `in: query`), the method, all header fields (endpoint headers rendered for the request,
  -- forwarded headers, `Authorization`, api keys, cookies)
  | "httpCache" => [.bytes "arg0.URL.String()", .bytes "arg0.Method", .kvs "headerFields(arg0.Header)"]
  -- nested digests: the object that is hashed
  | "subject" => [.bytes "json.Marshal(recv)"]
  | "template" => [.bytes "arg0"]
  | "jwtSigner" =>
      [.bytes "recv.jwk.KeyID", .bytes "recv.jwk.Algorithm", .bytes "recv.iss", .bytes "recv.jwk.Thumbprint(crypto.SHA256)"]
  | "endpoint" =>
      [.bytes "recv.URL", .bytes "recv.Method", .kvs "recv.Headers",
       .opt "recv.AuthStrategy != nil" (.bytes "recv.AuthStrategy.Hash()")]
  | "apiKey" => [.bytes "recv.In", .bytes "recv.Name", .bytes "recv.Value"]
  | "basicAuth" => [.bytes "recv.User", .bytes "recv.Password"]
  | "httpMessageSignatures" =>
      [.bytes "recv.Label", .list "recv.Components", .bytes "u64 *recv.TTL", .bytes "recv.Signer.Name",
       .bytes "recv.Signer.KeyID"]
  | "clientCredentialsHash" =>
      [.bytes "recv.ClientID", .bytes "recv.ClientSecret", .bytes "recv.TokenURL", .list "recv.Scopes"]
  | _ => []

/-- the key functions whose result is used as key of the (shared) cache -/
def keyUsers : List String :=
  ["genericAuthenticator", "introspection", "jwtAuthenticator", "remoteAuthorizer", "genericContextualizer",
   "jwtFinalizer", "clientCredentialsKey", "httpCache"]

/-- the leading constant of a field list -/
def tagOf : List Field → Option Bytes
  | .tag b :: _ => some b
  | _ => none

theorem tagOf_some {fs : List Field} {a : Bytes} (h : tagOf fs = some a) : ∃ r, fs = .tag a :: r := by
  cases fs with
  | nil => simp [tagOf] at h
  | cons f r =>
    cases f <;> simp [tagOf] at h
    exact ⟨r, by rw [h]⟩

/-- every two different users of the cache start their keys with different constants -/
def usersSeparated (table : List (String × List Field)) : Bool :=
  keyUsers.all fun n => keyUsers.all fun n' => n == n' ||
    match (table.lookup n).bind tagOf, (table.lookup n').bind tagOf with
    | some a, some b => a != b && decide (a.length < limit) && decide (b.length < limit)
    | _, _ => false

/-- mechanisms whose rule-level validation (assertions / expressions) is not part of the key: it has to be repeated
on **every** hit (`Validate` / `verify` → `eval` of the Go code). The extractor reports a call that is not executed on
every pass through the hit block (guarded by anything but an error check, behind a guarded early exit, in a loop or
closure) with a leading `?`, which does not count. -/
def rechecked : List (String × String) :=
  [("introspection", "Validate"), ("remoteAuthorizer", "verify"), ("remoteAuthorizer", "eval")]

/-- does the extracted hit path of the mechanism repeat the rule-level validation on every hit -/
def recheckOf (hitPath : List (String × List String)) (name : String) : Bool :=
  let need := rechecked.filter (·.1 == name)
  !need.isEmpty && need.all fun p => (hitPath.lookup name).any (·.contains p.2)

/-- `a` occurs in the call sequence, and storing (`Set`) occurs only after it -/
def before (a : String) : List String → Bool
  | [] => false
  | x :: xs => if x == "Set" then false else if x == a then xs.contains "Set" else before a xs

/-- mechanisms whose validation of the remote response does not depend on the rule and is therefore not repeated on a
hit (validation of the fetched JWK against the trust store, assertion of the session lifespan): it has to precede
storing. On the miss path the extractor appends to a call (other than `Set`) the conditions reading the receiver under which it is
executed: the session lifespan is asserted exactly if the mechanism is configured with one; any further condition
(e.g. a flag a rule could set) does not match. -/
def validatedBeforeStored : List (String × String) :=
  [("jwtAuthenticator", "validateJWK"), ("genericAuthenticator", "Assert?recv.sessionLifespanConf != nil")]

/-- the functions that may use the cache of the request context -/
def knownCacheSites : List String :=
  ["internal/httpcache/round_tripper.go:RoundTripper.cachedResponse",
   "internal/httpcache/round_tripper.go:RoundTripper.cacheResponse",
   "internal/rules/mechanisms/authenticators/generic_authenticator.go:genericAuthenticator.getSubjectInformation",
   "internal/rules/mechanisms/authenticators/jwt_authenticator.go:jwtAuthenticator.getKey",
   "internal/rules/mechanisms/authenticators/oauth2_introspection_authenticator.go:oauth2IntrospectionAuthenticator.getSubjectInformation",
   "internal/rules/mechanisms/authorizers/remote_authorizer.go:remoteAuthorizer.Execute",
   "internal/rules/mechanisms/contextualizers/generic_contextualizer.go:genericContextualizer.Execute",
   "internal/rules/mechanisms/finalizers/jwt_finalizer.go:jwtFinalizer.Execute",
   "internal/rules/oauth2/clientcredentials/clientcredentials.go:Config.Token"]

end Heimdall.CacheKey
