import HeimdallModel.Model.CacheKey
/-!
# C11 — what a fresh evaluation reads (hand-written from the Go code, validated by the correspondence run)

For every caching mechanism: the typed sources a fresh evaluation (rendering the request, calling the remote system,
parsing the response) depends on, named like the Go expressions the key function writes.  `a.id` stands for the whole
prototype configuration of the mechanism instance (endpoint, payload template, subject mapping, …): rule-level overrides
can only change what is listed separately.  Rule-level *validation* (assertions, expressions) is not listed: it is
repeated on every cache hit (`rechecked`).
-/
namespace Heimdall.CacheKey

def deps : String → List Dep
  | "genericAuthenticator" =>
      [.bytes "a.id", .bytes "reference", .list "ctx.Request().Header(name) for a.fwdHeaders",
       .list "ctx.Request().Cookie(name) for a.fwdCookies"]
  | "introspection" => [.bytes "a.id", .bytes "templatedURL", .bytes "token"]
  | "jwtAuthenticator" => [.bytes "a.id", .bytes "renderedURL", .bytes "reference"]
  | "remoteAuthorizer" => [.bytes "a.id", .bytes "payload", .bytes "sub.Hash()", .kvs "values"]
  | "genericContextualizer" =>
      [.bytes "h.id", .list "h.fwdHeaders", .list "ctx.Request().Header(name) for h.fwdHeaders", .list "h.fwdCookies",
       .list "ctx.Request().Cookie(name) for h.fwdCookies", .bytes "payload", .bytes "sub.Hash()", .kvs "values"]
  | "jwtFinalizer" =>
      [.bytes "f.signer.Hash()", .bytes "f.claims.Hash() if f.claims != nil", .num "f.ttl", .bytes "sub.Hash()",
       .bytes "json.Marshal(ctx.Outputs())"]
  | "clientCredentialsKey" => [.bytes "c.ClientID", .bytes "c.ClientSecret", .bytes "c.TokenURL", .list "c.Scopes"]
  | "httpCache" =>
      [.bytes "req.URL.String()", .bytes "req.Method", .bytes "strings.TrimSpace(req.Header.Get(\"Authorization\"))"]
  -- nested digests: the object that is hashed
  | "subject" => [.bytes "json.Marshal(s)"]
  | "template" => [.bytes "val"]
  | "jwtSigner" => [.bytes "jwk.KeyID", .bytes "jwk.Algorithm", .bytes "s.iss", .bytes "jwk.Thumbprint(crypto.SHA256)"]
  | "endpoint" => [.bytes "e.URL", .bytes "e.Method", .kvs "e.Headers", .opt "e.AuthStrategy != nil" (.bytes "e.AuthStrategy.Hash()")]
  | "apiKey" => [.bytes "c.In", .bytes "c.Name", .bytes "c.Value"]
  | "basicAuth" => [.bytes "c.User", .bytes "c.Password"]
  | "httpMessageSignatures" =>
      [.bytes "s.Label", .list "s.Components", .bytes "u64 *s.TTL", .bytes "s.Signer.Name", .bytes "s.Signer.KeyID"]
  | "clientCredentialsHash" => [.bytes "c.ClientID", .bytes "c.ClientSecret", .bytes "c.TokenURL", .list "c.Scopes"]
  | _ => []

/-- mechanisms whose rule-level validation (assertions / expressions) is not part of the key: it has to be repeated
on **every** hit (`Validate` / `verify` → `eval` of the Go code). The extractor reports a call that is not executed on
every pass through the hit block (guarded by anything but an error check, behind a guarded early exit, in a loop or
closure) with a leading `?`, which does not count. -/
def rechecked : List (String × String) :=
  [("introspection", "Validate"), ("remoteAuthorizer", "verify"), ("remoteAuthorizer", "eval")]

/-- `a` occurs in the call sequence, and `b` occurs only after it -/
def before (a b : String) : List String → Bool
  | [] => false
  | x :: xs => if x == b then false else if x == a then xs.contains b else before a b xs

/-- mechanisms whose validation of the remote response does not depend on the rule and is therefore not repeated on a
hit (validation of the fetched JWK against the trust store, assertion of the session lifespan): it has to precede storing -/
def validatedBeforeStored : List (String × String) :=
  [("jwtAuthenticator", "validateJWK"), ("genericAuthenticator", "Assert")]

end Heimdall.CacheKey
