import HeimdallModel.Model.CacheKey
/-!
# C11 — what a fresh evaluation reads (hand-written from the Go code, validated by the correspondence run)

For every caching mechanism: the typed inputs a fresh evaluation (rendering the request, calling the remote system,
parsing the response) depends on.  Inputs are named by what they *are* (`payload`, `values`, `subject`, …), not by how the
Go code happens to call them: the extractor finds the structure of every key function (which writes, in which order),
and the check binds every write to an input by behaviour — the real function is evaluated for probe configurations with
distinctive values and the assignment write ↦ input is the one for which SHA-256 of the written bytes is the real key
(`tools/c11_bind.py`).  Renaming, re-packaging of parameters into a struct, moving functions between files do not
change the generated module.

`id` stands for the whole prototype configuration of the mechanism instance (endpoint, payload template, subject
mapping, …): rule-level overrides can only change what is listed separately.  Rule-level *validation* (assertions,
expressions) is not listed: it is repeated on every cache hit (`rechecked`).
-/
namespace Heimdall.CacheKey

def deps : String → List Dep
  | "genericAuthenticator" => [.bytes "id", .bytes "credential", .list "fwdHeaderValues", .list "fwdCookieValues"]
  | "introspection" => [.bytes "id", .bytes "url", .bytes "token"]
  | "jwtAuthenticator" => [.bytes "id", .bytes "url", .bytes "keyID"]
  | "remoteAuthorizer" => [.bytes "id", .bytes "payload", .bytes "subject", .kvs "values"]
  | "genericContextualizer" =>
      [.bytes "id", .list "fwdHeaders", .list "fwdHeaderValues", .list "fwdCookies", .list "fwdCookieValues",
       .bytes "payload", .bytes "subject", .kvs "values"]
  | "jwtFinalizer" => [.bytes "signer", .bytes "claims", .num "ttl", .bytes "subject", .bytes "outputs"]
  | "clientCredentialsKey" => [.bytes "clientID", .bytes "clientSecret", .bytes "tokenURL", .list "scopes"]
  -- everything `Endpoint.CreateRequest` and `AuthenticationStrategy.Apply` put on the wire of a request without a
  -- body: the url (api key `in: query`), the method, all header fields (endpoint headers rendered for the request,
  -- forwarded headers, `Authorization`, api keys, cookies)
  | "httpCache" => [.bytes "url", .bytes "method", .kvs "headers"]
  -- nested digests: the object that is hashed
  | "subject" => [.bytes "json"]
  | "template" => [.bytes "text"]
  | "jwtSigner" => [.bytes "keyID", .bytes "algorithm", .bytes "issuer", .bytes "thumbprint"]
  | "endpoint" => [.bytes "url", .bytes "method", .kvs "headers", .opt "authStrategy?" (.bytes "authStrategy")]
  | "apiKey" => [.bytes "in", .bytes "name", .bytes "value"]
  | "basicAuth" => [.bytes "user", .bytes "password"]
  | "httpMessageSignatures" =>
      [.bytes "label", .list "components", .bytes "ttlBytes", .bytes "signerName", .bytes "keyID"]
  | "clientCredentialsHash" => [.bytes "clientID", .bytes "clientSecret", .bytes "tokenURL", .list "scopes"]
  | _ => []

/-- the key functions whose result is used as key of the (shared) cache -/
def keyUsers : List String :=
  ["genericAuthenticator", "introspection", "jwtAuthenticator", "remoteAuthorizer", "genericContextualizer",
   "jwtFinalizer", "clientCredentialsKey", "httpCache"]

/-- the leading constant of a field list -/
def tagOf : List Field → Option Bytes
  | .tag b :: _ => some b
  | _ => none

theorem tagOf_some {fs : List Field} {a : Bytes} (h : tagOf fs = some a) : ∃ r, fs = .tag a :: r := by
  cases fs with
  | nil => simp [tagOf] at h
  | cons f r =>
    cases f <;> simp [tagOf] at h
    exact ⟨r, by rw [h]⟩

/-- every two different users of the cache start their keys with different constants -/
def usersSeparated (table : List (String × List Field)) : Bool :=
  keyUsers.all fun n => keyUsers.all fun n' => n == n' ||
    match (table.lookup n).bind tagOf, (table.lookup n').bind tagOf with
    | some a, some b => a != b && decide (a.length < limit) && decide (b.length < limit)
    | _, _ => false

/-- mechanisms whose rule-level validation (assertions / expressions) is not part of the key: it has to be repeated
on **every** hit (`Validate` / `verify` → `eval` of the Go code). The extractor reports a call that is not executed on
every pass through the hit block (guarded by anything but an error check, behind a guarded early exit, in a loop or
closure) with a leading `?`, which does not count. -/
def rechecked : List (String × String) :=
  [("introspection", "Validate"), ("remoteAuthorizer", "verify"), ("remoteAuthorizer", "eval")]

/-- does the extracted hit path of the mechanism repeat the rule-level validation on every hit -/
def recheckOf (hitPath : List (String × List String)) (name : String) : Bool :=
  let need := rechecked.filter (·.1 == name)
  !need.isEmpty && need.all fun p => (hitPath.lookup name).any (·.contains p.2)

/-- `a` occurs in the call sequence, and storing (`Set`) occurs only after it -/
def before (a : String) : List String → Bool
  | [] => false
  | x :: xs => if x == "Set" then false else if x == a then xs.contains "Set" else before a xs

/-- mechanisms whose validation of the remote response does not depend on the rule and is therefore not repeated on a
hit (validation of the fetched JWK against the trust store, assertion of the session lifespan): it has to precede
storing. On the miss path the extractor appends to a call (other than `Set`) the conditions reading the receiver under which it is
executed: the session lifespan is asserted exactly if the mechanism is configured with one; any further condition
(e.g. a flag a rule could set) does not match. -/
def validatedBeforeStored : List (String × String) :=
  [("jwtAuthenticator", "validateJWK"), ("genericAuthenticator", "Assert?recv.sessionLifespanConf != nil")]

/-- the types (package : type) that may use the cache of the request context -/
def knownCacheSites : List String :=
  ["internal/httpcache:RoundTripper",
   "internal/rules/mechanisms/authenticators:genericAuthenticator",
   "internal/rules/mechanisms/authenticators:jwtAuthenticator",
   "internal/rules/mechanisms/authenticators:oauth2IntrospectionAuthenticator",
   "internal/rules/mechanisms/authorizers:remoteAuthorizer",
   "internal/rules/mechanisms/contextualizers:genericContextualizer",
   "internal/rules/mechanisms/finalizers:jwtFinalizer",
   "internal/rules/oauth2/clientcredentials:Config"]

end Heimdall.CacheKey
