import HeimdallModel.Model.CacheFlow
/-!
# C10 — what "not beyond its validity" means

The property, stated without reference to how TTLs are computed. Everything is decidable, so the same definitions
judge traces of the real implementation (family `c10judge` of the driver).

* An authentication result may be served from the cache at `t` only while `t < exp + validity leeway`
  (that is exactly while a fresh answer with that expiry would still be accepted).
* A cached verification key may be used at `t` only while `t ≤ NotAfter` of its certificate. "Its certificate" is the
  key's own (end-entity) certificate, the first element of the `x5c` chain: that is the certificate the JWK is bound
  to (go-jose checks that its public key is the JWK's key) and the one `validateJWK` validates, the further chain
  elements being only intermediates for building its path. The `NotAfter` of an issuing CA that lies *later* never
  extends this bound; an implementation that also stops at an *earlier* CA expiry would be stricter than required.
* A token obtained or issued by a finalizer may be handed out at `t` only while `t < exp`.
* A cached HTTP response may be served at `t` only while its age `t − received` does not exceed its freshness
  lifetime (RFC 7234 section 4.2.1, private cache: `max-age`, else `Expires − Date`; an `Expires` value that is not
  a date means already expired, section 5.3), and it must not be stored at all if that lifetime is not positive.
* Results that carry no expiry of their own are limited by the configured TTL only.
-/
namespace Heimdall.Validity

/-- may a result of mechanism `m`, cached as `it`, be reused at time `t` -/
def mayReuse (m : Mech) (cfg : Option Int) (vl : Nat) (it : Item Answer) (t : Int) : Bool :=
  match m with
  | .introspection | .generic =>
    match it.ans.exp with
    | some e => decide (t < e + validityLeeway m vl)
    | none => true
  | .jwtKey =>
    match it.ans.exp with
    | some e => decide (t ≤ e)
    | none => true
  | .clientCreds =>
    match it.ans.exp with
    | some e => decide (t < e)
    | none => true
  | .jwtFinalizer => decide (t < it.time + tokenLifetime cfg)
  | .remoteAuthz | .contextualizer => true

/-- RFC 7234 freshness lifetime of a response received at `now` (`none` = the response carries no explicit
expiration time; a heuristic lifetime, here the configured `default_ttl`, may then be used) -/
def freshnessLifetime (now : Int) (x : Exchange) : Option Int :=
  match x.maxAge with
  | some a => some a
  | none =>
    match x.expires with
    | .valid e => some (e - x.date.getD now)
    | .invalid => some 0
    | .absent => none

/-- may the cached response `it` be served at `t` -/
def mayServe (it : Item Exchange) (t : Int) : Bool :=
  match freshnessLifetime it.time it.ans with
  | some l => decide (t ≤ it.time + l)
  | none => true

/-- may a response received at `now` be stored at all -/
def mayStore (now : Int) (x : Exchange) : Bool :=
  match freshnessLifetime now x with
  | some l => decide (0 < l)
  | none => true

/-- the last instant at which an entry written at `now` with `ttl` is still served -/
def lastServed (k : StoreKind) (now ttl : Int) : Int :=
  match k with
  | .memory => now + ttl
  | .redis => now + ttl - 1

end Heimdall.Validity
