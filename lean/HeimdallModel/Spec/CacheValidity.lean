import HeimdallModel.Model.CacheFlow
/-!
# C10 — what "not beyond its validity" means

The property, stated without reference to how TTLs are computed. Everything is decidable, so the same definitions
judge traces of the real implementation (family `c10judge` of the driver).

* An authentication result may be served from the cache at `t` only while `t < exp + validity leeway`
  (that is exactly while a fresh answer with that expiry would still be accepted).
* A cached verification key may be used at `t` only while `t ≤ NotAfter` of its certificate. "Its certificate" is the
  key's own (end-entity) certificate, the first element of the `x5c` chain: that is the certificate the JWK is bound
  to (go-jose checks that its public key is the JWK's key) and the one `validateJWK` validates, the further chain
  elements being only intermediates for building its path. The `NotAfter` of an issuing CA that lies *later* never
  extends this bound; an implementation that also stops at an *earlier* CA expiry would be stricter than required.
* A token obtained or issued by a finalizer may be handed out at `t` only while `t < exp`.
* A cached HTTP response may be served at `t` only while its current age — the age it had when it was received
  (`Age` header, time since `Date`; RFC 7234 section 4.2.3) plus the time it spent in the cache — does not exceed
  its freshness lifetime (section 4.2.1, private cache: `max-age`, else `Expires − Date`; an `Expires` value that is
  not a date means already expired, section 5.3). It must not be stored at all if that lifetime is not positive or
  if it carries `no-cache` (it could only be reused after a validation, which heimdall does not do). A response
  without explicit expiration time gets the configured `default_ttl` and nothing else (no heuristic from
  `Last-Modified`): "a configured TTL can only shorten, a TTL of zero disables caching".
* Results that carry no expiry of their own are limited by the configured TTL only.
-/
namespace Heimdall.Validity

/-- may a result of mechanism `m`, cached as `it`, be reused at time `t` -/
def mayReuse (m : Mech) (cfg : Option Int) (vl : Int) (it : Item Answer) (t : Int) : Bool :=
  match m with
  | .introspection | .generic =>
    match it.ans.exp with
    | some e => decide (t < e + validityLeeway m vl)
    | none => true
  | .jwtKey =>
    match it.ans.exp with
    | some e => decide (t ≤ e)
    | none => true
  | .clientCreds =>
    match it.ans.exp with
    | some e => decide (t < e)
    | none => true
  | .jwtFinalizer => decide (t < it.time + tokenLifetime cfg)
  | .remoteAuthz | .contextualizer => true

/-- RFC 7234 freshness lifetime of a response received at `now` (`none` = the response carries no explicit
expiration time; a heuristic lifetime, here the configured `default_ttl`, may then be used) -/
def freshnessLifetime (now : Int) (x : Exchange) : Option Int :=
  match x.maxAge with
  | some a => some a
  | none =>
    match x.expires with
    | .valid e => some (e - x.date.getD now)
    | .invalid => some 0
    | .absent => none

/-- age of a response at the time it is received (RFC 7234 section 4.2.3, with a response delay of zero): the
larger of the `Age` header value and the apparent age `now − Date` -/
def initialAge (now : Int) (x : Exchange) : Int :=
  max (max 0 (x.age.getD 0)) (match x.date with
    | some d => max 0 (now - d)
    | none => 0)

/-- may the cached response `it` be served at `t`: its current age (age on receipt + time spent in this cache) must
not exceed its freshness lifetime; a response without explicit expiration time is limited by the configured
`default_ttl` (`dttl`) -/
def mayServe (dttl : Int) (it : Item Exchange) (t : Int) : Bool :=
  match freshnessLifetime it.time it.ans with
  | some l => decide (initialAge it.time it.ans + (t - it.time) ≤ l)
  | none => decide (t - it.time ≤ dttl)

/-- may a response received at `now` be stored at all -/
def mayStore (dttl : Int) (now : Int) (x : Exchange) : Bool :=
  !x.noCache &&
  match freshnessLifetime now x with
  | some l => decide (0 < l)
  | none => decide (0 < dttl)

/-- the last instant at which an entry written at `now` with `ttl` is still served -/
def lastServed (k : StoreKind) (now ttl : Int) : Int :=
  match k with
  | .memory => now + ttl
  | .redis => now + ttl - 1

end Heimdall.Validity
