import HeimdallModel.Model.Config
/-!
# What property C20 demands of the configuration loader (reference semantics)

* the documented naming rule `envName` (prefix removed): path segments joined by `_`, every `_` of a property name
  doubled, list indices in decimal, upper case;
* what can be observed of a configuration at a path (`Kind`: nothing / scalar with its value / a map / a list with its
  length) and observational equality `≈` (the same at every path);
* the leaves of a configuration, and the leaf-wise rule "environment over file over defaults" (`specLeaf`,
  `specAccepts` is its executable form used as oracle against the real loader).
-/
namespace Heimdall.Config

/-! ## observations -/

/-- what a configuration shows at one place -/
inductive Kind where
  | null
  | atom (a : String)
  | map
  | seq (n : Nat)
deriving Repr, DecidableEq

def Val.kind : Val → Kind
  | .null => .null
  | .atom a => .atom a
  | .map _ => .map
  | .seq es => .seq es.length

/-- `a ≈ b`: at every path both show the same thing (same scalar, same list length, map where the other has a map,
    nothing where the other has nothing) – equality of configurations up to the order of map keys -/
def Val.equiv (a b : Val) : Prop := ∀ p : Path, (a.get p).kind = (b.get p).kind

@[inherit_doc] infix:50 " ≈ " => Val.equiv

/-! ## the documented names of environment variables -/

/-- a property name inside a variable name: upper case, `_` doubled -/
def escapeKey : List Char → List Char
  | [] => []
  | c :: r => if c = '_' then '_' :: '_' :: escapeKey r else c.toUpper :: escapeKey r

def segName : Seg → List Char
  | .key k => escapeKey k
  | .idx n => natDigits n

/-- the name of the variable for a path (without the prefix): segments joined by `_` -/
def envName : Path → List Char
  | [] => []
  | [s] => segName s
  | s :: t :: r => segName s ++ '_' :: envName (t :: r)

/-- a character of a property name that survives the trip through a variable name: no `.`, not upper case
    (the loader lower-cases), and – what holds for every such character, stated rather than proved – upper-casing
    does not turn it into `_` and lower-casing brings it back -/
def charOk (c : Char) : Bool :=
  c != '.' && c.toLower == c && (c == '_' || (c.toUpper != '_' && c.toUpper.toLower == c))

/-- a property name that the naming rule can express: not empty, not starting with `_`, only `charOk` characters,
    not a number (that would be a list index) -/
def keyOk (k : Key) : Bool :=
  match k with
  | [] => false
  | c :: r => c != '_' && (c :: r).all charOk && (parseNat? (c :: r)).isNone

def segOk : Seg → Bool
  | .key k => keyOk k
  | .idx _ => true

/-- a path all of whose property names are expressible; the empty path names no variable -/
def pathOk (p : Path) : Bool := !p.isEmpty && p.all segOk

/-! ## leaves -/

mutual
/-- the scalar leaves of a configuration with their paths -/
def Val.leaves : Val → List (Path × String)
  | .null => []
  | .atom a => [([], a)]
  | .map fs => Fields.leaves fs
  | .seq es => Elems.leaves es 0
def Fields.leaves : Fields → List (Path × String)
  | .nil => []
  | .cons k v rest => (Val.leaves v).map (fun l => (Seg.key k :: l.1, l.2)) ++ Fields.leaves rest
def Elems.leaves : Elems → Nat → List (Path × String)
  | .nil, _ => []
  | .cons v rest, i => (Val.leaves v).map (fun l => (Seg.idx i :: l.1, l.2)) ++ Elems.leaves rest (i + 1)
end

mutual
/-- a configuration as a file can hold it and the environment can express it: scalars at the leaves, no `null`, no
    empty map, no empty list -/
def Val.leafy : Val → Bool
  | .null => false
  | .atom _ => true
  | .map fs => (match fs with | .nil => false | _ => true) && Fields.leafy fs
  | .seq es => (match es with | .nil => false | _ => true) && Elems.leafy es
def Fields.leafy : Fields → Bool
  | .nil => true
  | .cons _ v rest => Val.leafy v && Fields.leafy rest
def Elems.leafy : Elems → Bool
  | .nil => true
  | .cons v rest => Val.leafy v && Elems.leafy rest
end

/-- the configuration consisting of exactly these leaves (what a file listing them denotes) -/
def fromLeaves (ls : List (Path × String)) : Val :=
  envTree (ls.map fun l => (l.1, Val.atom l.2))

/-- the environment that gives exactly these leaves, named by the documented rule -/
def envOf (ls : List (Path × String)) : Env := ls.map fun l => (envName l.1, l.2)

/-- the inputs of a load fit together: maps have pairwise different keys, the variables address pairwise compatible,
    different places, and nowhere does a scalar meet a structure or a map meet a list (where the Go code panics or
    silently replaces) -/
def Loadable (defaults file : Val) (env : Env) : Bool :=
  defaults.nodup && file.nodup && env.consistent && defaults.compatB file
    && (merge defaults file).compatB (envTree env.entries)

/-- a complete configuration the environment can express: leafy, different keys, every property name expressible,
    and no list element that is defined to be nil (a variable cannot say that, known finding C20-nil-list-element) -/
def Expressible (t : Val) : Bool :=
  t.nodup && t.leafy && t.leaves.all (fun l => pathOk l.1 && !holeVar l.1 l.2)

/-- `p` and `q` lie on one branch (one is a prefix of the other) -/
def onBranch : Path → Path → Bool
  | [], _ => true
  | _, [] => true
  | s :: p, t :: q => s == t && onBranch p q

/-- some variable of the environment addresses `p`, something below `p` or something above `p` -/
def Env.touches (env : Env) (p : Path) : Bool := env.any fun e => onBranch (parseName e.1) p

/-- leaf-wise rule: the environment wins (with whatever value it defines, nil included), then the file, then the
    defaults -/
def specLeaf (defaults file : Val) (env : Env) (p : Path) : Val :=
  match env.find? (fun e => parseName e.1 == p) with
  | some e => .atom e.2
  | none =>
    if env.touches p then .null
    else match file.get p with
      | .null => defaults.get p
      | v => v

/-- the place shows the value `a`: the scalar itself; a value that is defined to be nil (`nullText`) is also shown by
    a place that holds nothing (a Go slice cannot tell a nil entry from an unfilled one, and to the typed decoding a nil
    map entry and an absent one are the same) -/
def showsLeaf (v : Val) (a : String) : Bool := v == .atom a || (a == nullText && v == .null)

/-- executable oracle: is `r` an acceptable result of loading `defaults`, `file`, `env`?
    every variable's value – a nil value included, at a property as well as at a list position – is at its path; every
    leaf of the file the environment does not touch is there; every default leaf neither file nor environment touch
    is there; and `r` has no leaf from anywhere else -/
def specAccepts (defaults file : Val) (env : Env) (r : Val) : Bool :=
  env.all (fun e => showsLeaf (r.get (parseName e.1)) e.2)
  && file.leaves.all (fun l => env.touches l.1 || showsLeaf (r.get l.1) l.2)
  && defaults.leaves.all (fun l => env.touches l.1 || file.get l.1 != .null || showsLeaf (r.get l.1) l.2)
  && r.leaves.all (fun l =>
        env.any (fun e => parseName e.1 == l.1 && e.2 == l.2)
        || file.get l.1 == .atom l.2 || defaults.get l.1 == .atom l.2)

/-! ## the prefix of the variable names -/

/-- the variables of `env` as the process environment holds them: the prefix (as the loader uses it) in front of every
    name -/
def withPrefix (pre : List Char) (env : Env) : ProcEnv := env.map fun e => (pre ++ e.1, e.2)

/-- a variable of the process that does not belong to the configuration: its name does not start with the prefix the
    operator configured (compared character by character: `DEMOCFG_X` is foreign to the prefix `DemoCfg_`) -/
def foreignTo (configured : List Char) (e : List Char × String) : Bool :=
  (stripPrefix? (trimSpace configured) e.1).isNone

end Heimdall.Config
