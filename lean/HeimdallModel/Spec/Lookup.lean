import HeimdallModel.Model.Trie
/-!
# Reference semantics of route lookup (C02)

What the property demands, written without reference to the search order of the tree:

* `matchCaps pat toks` — does a path expression match the request tokens, and with which captured values
  (a single wildcard takes exactly one non-separator segment, a free wildcard the whole non-empty remainder);
* `specLt p q` — `p` is more specific than `q`: at the first position where they differ, a literal beats a single
  wildcard, which beats a free wildcard;
* `scan` — try candidates in order; the first candidate with an accepted value wins, a candidate without one stops
  the search unless its backtracking flag is set.
-/
namespace Heimdall

/-- captured values when `pat` matches `toks` -/
def matchCaps : List PTok → List Tok → Option (List String)
  | [], [] => some []
  | [], _ :: _ => none
  | .lit s :: ps, tok :: rest => if s = tokStr tok then matchCaps ps rest else none
  | .wild :: ps, .seg sg :: rest => (matchCaps ps rest).map (sg :: ·)
  | .wild :: _, .sep :: _ => none
  | .catchAll :: ps, tok :: rest => if ps = [] then some [render (tok :: rest)] else none
  | _ :: _, [] => none

def rank : PTok → Nat
  | .lit _ => 0
  | .wild => 1
  | .catchAll => 2

/-- `p` is strictly more specific than `q` -/
def specLt : List PTok → List PTok → Bool
  | p :: ps, q :: qs => if p = q then specLt ps qs else rank p < rank q
  | _, _ => false

/-- a candidate: a node of the table whose expression matches, with the captured values -/
structure Cand (V : Type) where
  node : Node V
  caps : List String

def Cand.push {V} (p : PTok) (c : Cand V) : Cand V := { c with node := { c.node with pat := p :: c.node.pat } }

variable {V : Type}

def tryCand (m : V → List String → List String → Bool) (c : Cand V) : Res V := tryNode m c.node c.caps

def scan (m : V → List String → List String → Bool) : List (Cand V) → Res V
  | [] => (none, true)
  | c :: cs => let r := tryCand m c; if done r then r else scan m cs

/-- the matching nodes in the order the tree visits them -/
def cands : Table V → List Tok → List String → List (Cand V)
  | t, [], caps => (here t).toList.map (fun n => ⟨n, caps⟩)
  | t, tok :: rest, caps =>
    (cands (below t (.lit (tokStr tok))) rest caps).map (Cand.push (.lit (tokStr tok)))
    ++ (match tok with
        | .sep => []
        | .seg sg => (cands (below t .wild) rest (caps ++ [sg])).map (Cand.push .wild))
    ++ (here (below t .catchAll)).toList.map
        (fun n => ⟨{ n with pat := [.catchAll] }, caps ++ [render (tok :: rest)]⟩)

/-- does the node have a value the matcher accepts for these captures -/
def accepts (m : V → List String → List String → Bool) (n : Node V) (caps : List String) : Bool :=
  n.values.any (fun v => m v n.keys caps)

end Heimdall
