import Driver.Util
import HeimdallModel.Spec.Pipeline
import HeimdallModel.Model.HttpChain
-- @family pipeline
/-! Line-protocol family `pipeline` (C01): one rule / default rule with a scripted outcome vector, answered by the
model of the three entry points (`Heimdall.Pipeline.serve`) and by the specification (`expectedPositive`). -/
open Lean Heimdall.Pipeline

namespace Driver.Pipeline
open Driver

def kindOf (s : String) : E Kind :=
  match s with
  | "argument" => pure .argument
  | "authentication" => pure .authentication
  | "authorization" => pure .authorization
  | "communication" => pure .communication
  | "timeout" => pure .timeout
  | "configuration" => pure .configuration
  | "internal" => pure .internal
  | "norule" => pure .noRule
  | _ => throw s!"unknown kind {s}"

def celTypeOf (s : String) : E CelErrType :=
  match s with
  | "authentication_error" => pure .authentication
  | "authorization_error" => pure .authorization
  | "communication_error" => pure .communication
  | "internal_error" => pure .internal
  | "precondition_error" => pure .precondition
  | _ => throw s!"unknown CEL error type {s}"

def kindsOf (j : Json) : E (List Kind) := do
  if isNull j "kinds" then pure [] else (← strs j "kinds").mapM kindOf

def condOf (j : Json) : E Cond := do
  if isNull j "cond" then return .always
  let c ← fld j "cond"
  if !isNull c "lit" then return .lit (← bool c "lit")
  if !isNull c "sub" then return .subjectIs (← str c "sub")
  if !isNull c "err" then return .errorIs (← celTypeOf (← str c "err"))
  if boolD c "bad" false then return .broken
  throw "bad condition"

def authOf (j : Json) : E Authenticator := do
  let out ← match ← str j "out" with
    | "ok" => pure (AuthOut.ok (strD j "sub" ""))
    | "err" => pure (AuthOut.err (← kindsOf j))
    | "panic" => pure (AuthOut.panic (← kindsOf j))
    | o => throw s!"bad out {o}"
  pure ⟨← str j "id", out, boolD j "fb" false⟩

def handlerOf (j : Json) : E Handler := do
  let out ← match ← str j "out" with
    | "ok" => pure StepOut.ok
    | "err" => pure (StepOut.err (← kindsOf j))
    | "panic" => pure (StepOut.panic (← kindsOf j))
    | o => throw s!"bad out {o}"
  pure ⟨← str j "id", ← condOf j, out, boolD j "coe" false⟩

def ehOf (j : Json) : E ErrorHandler := do
  let kind ← match ← str j "kind" with
    | "default" => pure EHKind.default
    | "www" => pure EHKind.wwwAuthenticate
    | "redirect" =>
      -- `render`: does the `to` template render for the request of the case; `rendered`: to what (nominally — the
      -- model does not look at the value)
      pure (EHKind.redirect (if boolD j "render" true then .value (strD j "rendered" "") else .fails)
        (natD j "code" 0))
    | k => throw s!"bad error handler kind {k}"
  pure ⟨← condOf j, kind⟩

def docOf (j : Json) : E RuleDoc := do
  pure ⟨← (arrD j "auth").mapM authOf, ← (arrD j "hand").mapM handlerOf, ← (arrD j "fin").mapM handlerOf,
        ← (arrD j "eh").mapM ehOf, boolD j "backend" false⟩

def optDoc (c : Json) (k : String) : E (Option RuleDoc) := do
  if isNull c k then pure none else pure (some (← docOf (← fld c k)))

/-- `cfg.cors`: `{"origins": [...], "methods": [...] | null, "creds": bool}` (null = not configured); an absent
method list is rs/cors' default GET, POST, HEAD -/
def corsOf (j : Json) : E (Option Cors) := do
  if isNull j "cors" then return none
  let c ← fld j "cors"
  let origins ← if isNull c "origins" then pure [] else strs c "origins"
  let allowsGet ← if isNull c "methods" then pure true else do pure ((← strs c "methods").contains "GET")
  pure (some { origins := origins.map String.toLower, allowsGet := allowsGet, allowCredentials := boolD c "creds" false })

def cfgBase (c : Json) : Cfg :=
  let j := fldD c "cfg" (Json.mkObj [])
  { accepted := natD j "accepted" 0, argument := natD j "argument" 0, authn := natD j "authn" 0,
    authz := natD j "authz" 0, comm := natD j "comm" 0, internal := natD j "internal" 0,
    noRule := natD j "norule" 0, verbose := boolD j "verbose" false,
    logLevel := match strD j "log" "disabled" with
      | "trace" => .trace
      | "debug" => .debug
      | "info" => .info
      | "warn" => .warn
      | _ => .disabled }

def cfgOf (c : Json) : E Cfg := do
  let cors ← corsOf (fldD c "cfg" (Json.mkObj []))
  pure { cfgBase c with cors := cors }

/-- content negotiation of `formatter.go` for the `Accept` values the generator uses: absent header, wildcards and
the four supported media types are acceptable; other types and malformed values are not -/
def negotiableAccept (c : Json) : E Bool := do
  if isNull c "accept" then return true
  match ← str c "accept" with
  | "*/*" | "application/json" | "text/plain" | "text/html" | "application/xml"
  | "text/plain;q=0.5, image/png" => pure true
  | "image/png" | "application/pdf, image/*" | "foobar" | "application/json;q=foo" => pure false
  | a => throw s!"accept value {a} not in the negotiation table"

def traceJson (c : Ctx) : Json := jstrs c.trace

/-- the same shape the Go harness prints; `pre` = the watched response headers set in front of the service handler -/
def respJson (ep : EntryPoint) (rp : Reply) (c : Ctx) (pre : List String) : Json :=
  match ep, rp.resp with
  | .proxy, .http s f =>
    Json.mkObj [("status", jnat s), ("hits", jnat (if f then 1 else 0)), ("relayed", Json.bool f),
                ("errbody", Json.bool rp.errorBody), ("trace", traceJson c), ("pre", jstrs pre)]
  | _, .http s _ => Json.mkObj [("status", jnat s), ("errbody", Json.bool rp.errorBody), ("trace", traceJson c),
                                ("pre", jstrs pre)]
  | _, .checkOk =>
    Json.mkObj [("code", jnat 0), ("http", jnat 0), ("ok", Json.bool true), ("body", Json.bool false),
                ("trace", traceJson c)]
  | _, .checkDenied code st =>
    Json.mkObj [("code", jnat code), ("http", jnat st), ("ok", Json.bool false), ("body", Json.bool rp.errorBody),
                ("trace", traceJson c)]
  | _, .rpcError code => Json.mkObj [("rpcerr", jnat code), ("trace", traceJson c)]

def rejected : Json := Json.mkObj [("load", jstr "rejected")]

/-- which way the request went (for the input distribution reported in the evidence) -/
def branchOf (found : Option Rule) : String :=
  match found with
  | none => "no-rule"
  | some r =>
    match r.execute {} with
    | .panic _ _ => "panic"
    | .done out c =>
      match out.err, c.pipelineErr with
      | some _, _ => "error-returned"
      | none, some _ => "error-handled"
      | none, none => "completed"

def epName : EntryPoint → String
  | .decision => "decision"
  | .proxy => "proxy"
  | .envoy => "envoy"

def run (c : Json) : E Json := do
  let cfg ← cfgOf c
  let dflt ← optDoc c "default"
  let rule ← optDoc c "rule"
  let hit := boolD c "hit" true
  let up := natD c "upstream" 200
  let up := if up = 0 then 200 else up
  let rq := fldD c "req" (Json.mkObj [])
  let origin ← if isNull rq "origin" then pure none else do pure (some (← str rq "origin").toLower)
  let view : ReqView := { negotiable := ← negotiableAccept c, origin := origin,
                          preflight := boolD rq "preflight" false }
  let mut res : List (String × Json) := []
  let mut spec : List (String × Json) := []
  let mut stats : List (String × Json) := []
  for ep in [EntryPoint.decision, .envoy, .proxy] do
    match load ep.mode dflt rule with
    | none =>
      res := res ++ [(epName ep, rejected)]
      stats := stats ++ [(epName ep, jstr "rejected")]
    | some repo =>
      let found := repo.find hit
      -- the whole chain (CORS middleware of the proxy in front of the service handler); equal to `serve` unless the
      -- middleware answers a preflight request (`c01_chain_is_handler`)
      let (rp, ctx) := serveChain ep cfg view up found
      let r := rp.resp
      res := res ++ [(epName ep, respJson ep rp ctx (frontHeaders ep cfg view))]
      spec := spec ++ [(epName ep, Json.mkObj [
        ("expected_positive", Json.bool (expectedPositive ep found)),
        ("model_positive", Json.bool r.positive),
        ("model_success", Json.bool r.success),
        ("preflight_answered", Json.bool (preflightAnswered ep cfg view)),
        ("hyp", Json.bool (cfg.errorCodesNonSuccess && redirectsNonSuccess found && !preflightAnswered ep cfg view))])]
      stats := stats ++ [(epName ep, jstr (if preflightAnswered ep cfg view then "preflight-answered" else branchOf found))]
  return Json.mkObj [("res", Json.mkObj res), ("spec", Json.mkObj spec), ("stats", Json.mkObj stats)]

end Driver.Pipeline
