import Driver.Util
import HeimdallModel.Spec.CacheValidity
-- @family c10store
-- @family c10mech
-- @family c10http
-- @family c10judge
/-!
Line-protocol families of property C10.

* `c10store` — operation sequences (set / get / advance the clock) against the TTL-store model,
* `c10mech`  — a history of requests against one caching mechanism (`run (mechPolicy …)`),
* `c10http`  — a history of exchanges through the HTTP response cache (`run (httpPolicy …)`),
* `c10judge` — the SPEC as oracle: takes a `c10mech` / `c10http` case together with the outcomes *observed on the
  implementation* and reports every observed reuse or storage that `mayReuse` / `mayServe` / `mayStore` forbid.

Expiry values in the cases are relative to the (virtual) time of the request they belong to; the driver makes them
absolute before handing them to the model.
-/
open Lean Heimdall.Validity

namespace Driver.Validity

def optInt (j : Json) (k : String) : Option Int :=
  match j.getObjVal? k with
  | .ok v => match v.getInt? with
    | .ok i => some i
    | .error _ => none
  | .error _ => none

def jopt (o : Option Int) : Json :=
  match o with
  | some i => jint i
  | none => Json.null

def storeKind (s : String) : E StoreKind :=
  match s with
  | "virtual" => pure .memory
  | "memory" => pure .memory
  | "redis" => pure .redis
  | _ => throw s!"unknown store kind {s}"

def mechOf (s : String) : E Mech :=
  match s with
  | "introspection" => pure .introspection
  | "generic" => pure .generic
  | "jwtkey" => pure .jwtKey
  | "clientcreds" => pure .clientCreds
  | "jwtfin" => pure .jwtFinalizer
  | "remote" => pure .remoteAuthz
  | "contextualizer" => pure .contextualizer
  | _ => throw s!"unknown mechanism {s}"

/-! ### c10store -/

def runSession (k : StoreKind) (ops : List Json) : E Json := do
  let mut s : Store Int := []
  let mut now : Int := 0
  let mut out : List Json := []
  for op in ops do
    let o ← str op "op"
    if o == "adv" then
      now := now + (← int op "n")
      out := out ++ [jstr "adv"]
    else if o == "set" then
      let ttl0 ← int op "ttl"
      let ttl := if (optInt op "rawns").isSome then -1 else ttl0
      s := s.set (← nat op "k") (← int op "v") ttl now
      out := out ++ [jstr "set"]
    else
      out := out ++ [jopt (s.get k (← nat op "k") now)]
  return jarr out

def runStoreFam (c : Json) : E Json := do
  let k ← storeKind (← str c "kind")
  let ss ← arr c "sessions"
  let res ← ss.mapM (fun sj => do runSession k (← arr sj "ops"))
  return Json.mkObj [("res", jarr res)]

/-! ### histories -/

/-- rule-level settings of one instance of the mechanism -/
structure Inst where
  ovr : Option Int
  vl  : Int

structure Setup where
  mech  : Mech
  proto : Option Int
  insts : List Inst       -- never empty
  kind  : StoreKind

def Setup.inst (s : Setup) (i : Nat) : Inst := (s.insts[i]?).getD (s.insts.headD ⟨none, 0⟩)
def Setup.cfg (s : Setup) (i : Nat) : Option Int := effective s.proto (s.inst i).ovr
def Setup.policy (s : Setup) (i : Nat) : Policy Answer := mechPolicy s.mech (s.cfg i) (s.inst i).vl

def instOf (c : Json) : Inst :=
  let ovr := match c.getObjVal? "ovr" with
    | .ok o => optInt o "ttl"
    | .error _ => none
  ⟨ovr, (optInt c "vl").getD 0⟩

def setupOf (c : Json) : E Setup := do
  let m ← mechOf (← str c "mech")
  let insts := match arrD c "insts" with
    | [] => [instOf c]
    | l => l.map instOf
  return ⟨m, optInt c "ttl", insts, ← storeKind (← str c "store")⟩

/-- which instance handles each step -/
def stepInsts (c : Json) : List Nat := (arrD c "steps").map (fun st => natD st "inst" 0)

/-- requests of a mechanism case, expiry made absolute -/
def mechReqs (c : Json) : E (List (Req Answer)) := do
  let steps ← arr c "steps"
  let mut now : Int := 0
  let mut out : List (Req Answer) := []
  for st in steps do
    let dt ← nat st "dt"
    now := now + dt
    let t := now
    let more := (arrD st "chain").filterMap (fun j => (j.getInt?).toOption.map (· + t))
    out := out ++ [⟨dt, ← nat st "key", ⟨(optInt st "exp").map (· + now), more⟩⟩]
  return out

def methodOf (s : String) : Method :=
  match s with
  | "GET" => .get
  | "HEAD" => .head
  | "POST" => .post
  | _ => .other

def exchangeOf (method : Method) (now : Int) (st : Json) : Exchange :=
  let r := fldD st "resp" (Json.mkObj [])
  let ma := optInt r "maxage"
  let sma := optInt r "smaxage"
  { method := match (fld st "method" >>= (·.getStr?)).toOption with
      | some m => methodOf m
      | none => method
    hasBody := boolD st "body" false
    reqAuth := boolD st "auth" false
    reqNoStore := boolD st "reqnostore" false
    status := natD r "status" 200
    noStore := boolD r "no-store" false
    noCache := boolD r "no-cache" false
    isPublic := boolD r "public" false
    mustRevalidate := boolD r "must-revalidate" false
    vary := boolD r "vary" false
    maxAge := match ma with
      | some a => if a < 0 then none else some a
      | none => none
    sMaxAge := match sma with
      | some a => if a < 0 then none else some a
      | none => none
    badCC := (match ma with | some a => decide (a < 0) | none => false)
      || (match sma with | some a => decide (a < 0) | none => false)
    expires := if boolD r "badexpires" false then .invalid else
      match optInt r "expires" with
      | some e => .valid (now + e)
      | none => .absent
    date := (optInt r "date").map (· + now)
    age := optInt r "age"
    lastModified := (optInt r "lastmod").map (· + now) }

def httpReqs (c : Json) : E (List (Req Exchange)) := do
  let method := methodOf (strD c "method" "GET")
  let steps ← arr c "steps"
  let mut now : Int := 0
  let mut out : List (Req Exchange) := []
  for st in steps do
    let dt ← nat st "dt"
    now := now + dt
    out := out ++ [⟨dt, ← nat st "key", exchangeOf method now st⟩]
  return out

/-- `http_cache` settings of an HTTP case: `"hc"` as configured (absent = not configured; for a plain endpoint case
without `"hc"` caching is enabled with `"dttl"`), and whether the OAuth2 metadata endpoint is in front -/
def httpConf (c : Json) : Option HttpCacheConf :=
  match c.getObjVal? "hc" with
  | .ok (.obj o) =>
    let j := Json.obj o
    some ⟨boolD j "enabled" false, (optInt j "dttl").getD 0⟩
  | .ok _ => none
  | .error _ => if strD c "via" "" == "metadata" then none else some ⟨true, (optInt c "dttl").getD 0⟩

def httpCasePolicy (c : Json) : Policy Exchange :=
  if strD c "via" "" == "metadata" then metadataPolicy (httpConf c) else endpointPolicy (httpConf c)

/-- the `default_ttl` in force, `none` = no response cache at all -/
def effectiveDttl (c : Json) : Option Int :=
  let conf := if strD c "via" "" == "metadata" then
      (match httpConf c with | none => some ⟨true, Gen.metadataDefaultTTL⟩ | some x => some x)
    else httpConf c
  match conf with
  | some ⟨true, d⟩ => some d
  | _ => none

def outcomeJson {U : Type} (lookup : Bool) (remote : Bool) (idx : Nat) (extra : List (String × Json))
    (o : Outcome U) : Json :=
  let gets := if lookup then 1 else 0
  let up := if remote then 1 else 0
  match o with
  | .hit it => Json.mkObj ([("ok", Json.bool true), ("hit", Json.bool true), ("src", jnat it.src), ("gets", jnat gets), ("up", jnat 0),
      ("set", Json.null)] ++ extra)
  | .fresh _ stored => Json.mkObj ([("ok", Json.bool true), ("hit", Json.bool false), ("src", jnat idx), ("gets", jnat gets),
      ("up", jnat up), ("set", jopt stored)] ++ extra)
  | .denied => Json.mkObj [("ok", false), ("hit", false), ("src", jint (-1)), ("gets", jnat gets), ("up", jnat up),
      ("set", Json.null)]

def countOutcomes {U : Type} (os : List (Int × Outcome U)) : Json :=
  let hits := (os.filter (fun to => match to.2 with | .hit _ => true | _ => false)).length
  let stored := (os.filter (fun to => match to.2 with | .fresh _ (some _) => true | _ => false)).length
  let unstored := (os.filter (fun to => match to.2 with | .fresh _ none => true | _ => false)).length
  let denied := (os.filter (fun to => match to.2 with | .denied => true | _ => false)).length
  Json.mkObj [("hits", jnat hits), ("stored", jnat stored), ("fresh_not_stored", jnat unstored),
    ("denied", jnat denied)]

/-- which side of which boundary a remaining lifetime is on (input distribution of the evidence) -/
def remClass (leeway : Int) (rem : Option Int) : String :=
  match rem with
  | none => "absent"
  | some r =>
    if r < -10 then "long_expired"
    else if r ≤ 0 then "just_passed"
    else if r ≤ leeway then "inside_leeway"
    else if r ≤ leeway + 2 then "just_outside_leeway"
    else "far"

def runMech (c : Json) : E Json := do
  let su ← setupOf c
  -- a negative validity leeway is refused when the configuration is loaded (fix C10-5)
  if (su.mech == .introspection || su.mech == .generic) && su.insts.any (fun i => decide (i.vl < 0)) then return Json.mkObj [("res", Json.mkObj [("config_error", true)])]
  let reqs ← mechReqs c
  let which := stepInsts c
  let os := runMixed su.kind [] 0 0 ((which.zip reqs).map (fun (i, r) => (su.policy i, r)))
  let remote := su.mech != .jwtFinalizer
  let times := os.map (·.1)
  let classes := (reqs.zip times).map (fun (r, t) => remClass su.mech.leeway (r.up.exp.map (· - t)))
  let chains := (reqs.zip times).map (fun (r, t) =>
    match r.up.exp, r.up.more with
    | some e, c :: cs =>
      let lo := (c :: cs).foldl min c
      let hi := (c :: cs).foldl max c
      s!"len{cs.length + 2}:" ++ (if hi < e then "cas_expire_before_own" else if e < lo then "cas_outlive_own" else "mixed")
        ++ (if lo ≤ t then ":expired_ca" else "")
    | some _, [] => "len1"
    | none, _ => "no_certificate")
  -- the JWT finalizer: lifetime of the token handed out (`exp − iat`) and offset of its `nbf`; whatever the claims
  -- template says, `exp`, `iat` and `nbf` are set by the signer
  let outs := (((os.zip which).zip reqs).zipIdx).map (fun (((to, w), r), i) =>
    let extra := if su.mech == .jwtFinalizer then
        [("life", jint (tokenLifetime (su.cfg w))), ("nbf", jint 0)] else []
    outcomeJson ((su.policy w).lookup r.up) remote i extra to.2)
  return Json.mkObj [("res", jarr outs),
    ("stats", Json.mkObj ([("outcomes", countOutcomes os), ("rem", jstrs classes),
      ("instances", jnat su.insts.length)] ++ (if su.mech == .jwtKey then [("chains", jstrs chains)] else [])))]

def runHttp (c : Json) : E Json := do
  let reqs ← httpReqs c
  let kind ← storeKind (← str c "store")
  let p := httpCasePolicy c
  let os := run p kind [] 0 0 reqs
  let times := os.map (·.1)
  let classes := (reqs.zip times).map (fun (r, t) =>
    (match freshnessLifetime t r.up with
    | none => "no_lifetime"
    | some l => if l < 0 then "negative" else if l = 0 then "zero" else "positive")
    ++ (if r.up.lastModified.isSome then "+last_modified" else "")
    ++ (if 0 < initialAge t r.up then "+aged" else ""))
  let kinds := reqs.map (fun r =>
    (match r.up.method with | .get => "GET" | .head => "HEAD" | .post => "POST" | .other => "other")
    ++ (if r.up.hasBody then "+body" else "") ++ (if r.up.vary then "+vary" else "")
    ++ (if r.up.noCache then "+no-cache" else ""))
  let outs := ((os.zip reqs).zipIdx).map (fun ((to, r), i) => outcomeJson (p.lookup r.up) true i [] to.2)
  return Json.mkObj [("res", jarr outs),
    ("stats", Json.mkObj [("outcomes", countOutcomes os), ("lifetime", jstrs classes), ("requests", jstrs kinds),
      ("settings", jstr (match effectiveDttl c with
        | none => "cache_off"
        | some d => if d < 0 then "default_ttl_negative" else if d = 0 then "default_ttl_zero"
          else "default_ttl_positive"))])]

/-! ### the SPEC as oracle for traces observed on the implementation -/

structure Obs where
  ok   : Bool
  hit  : Bool
  src  : Int
  gets : Nat
  set  : Option Int
  life : Option Int     -- JWT finalizer: observed `exp − iat` of the token handed out

def obsOf (j : Json) : E Obs := do
  return ⟨← bool j "ok", ← bool j "hit", ← int j "src", ← nat j "gets", optInt j "set", optInt j "life"⟩

def absTimes {U : Type} (reqs : List (Req U)) : List Int :=
  (reqs.foldl (fun (acc : Int × List Int) r => (acc.1 + r.dt, acc.2 ++ [acc.1 + r.dt])) (0, [])).2

def judgeMech (c : Json) (obs : List Obs) : E (List Json) := do
  let su ← setupOf c
  let reqs ← mechReqs c
  let which := stepInsts c
  let times := absTimes reqs
  let fin := su.mech == .jwtFinalizer
  let mut out : List Json := []
  let mut i := 0
  for o in obs do
    let t := times.getD i 0
    let w := which.getD i 0
    let cfg := su.cfg w
    let vl := (su.inst w).vl
    let mut bad : List String := []
    if o.hit then
      let j := o.src.toNat
      match reqs[j]?, times[j]? with
      | some rj, some tj =>
        if o.src < 0 || j ≥ i then bad := bad ++ ["hit without an earlier source request"]
        else if fin then
          -- judged against the expiry of the token that was actually handed out (observed `exp − iat`)
          match (obs[j]?).bind (·.life) with
          | some life => if !(decide (t < tj + life)) then
              bad := bad ++ [s!"reused at t={t} a token issued at t={tj} that expired at t={tj + life}"]
          | none => bad := bad ++ ["reused a token whose expiry was not observed"]
        else
          if !mayReuse su.mech (su.cfg (which.getD j 0)) vl ⟨rj.up, tj, j⟩ t then
            bad := bad ++ [s!"reused at t={t} a result obtained at t={tj} beyond its validity"]
          match cfg with
          | some cc => if su.insts.length == 1 && 0 < cc && tj + cc < t then
              bad := bad ++ [s!"reused at t={t} a result obtained at t={tj}, older than the configured cache_ttl={cc}"]
          | none => pure ()
      | _, _ => bad := bad ++ ["hit without a source request"]
    match o.set, reqs[i]? with
    | some ttl, some ri =>
      if 0 < ttl then
        if fin then
          match o.life with
          | some life => if !(decide (lastServed su.kind t ttl < t + life)) then
              bad := bad ++ [s!"stored at t={t} with ttl={ttl} a token that expires at t={t + life}: would be handed out expired"]
          | none => bad := bad ++ ["stored a token whose expiry was not observed"]
        else if !mayReuse su.mech cfg vl ⟨ri.up, t, i⟩ (lastServed su.kind t ttl) then
          bad := bad ++ [s!"stored at t={t} with ttl={ttl}: would be served beyond its validity"]
      match cfg with
      | some cc => if !fin && 0 < ttl && cc < ttl then
          bad := bad ++ [s!"ttl={ttl} exceeds the configured cache_ttl={cc}"]
      | none => pure ()
    | _, _ => pure ()
    match cfg with
    | some cc =>
      if !fin && cc ≤ 0 && (o.hit || o.gets > 0 || (o.set.map (fun x => decide (0 < x))).getD false) then
        bad := bad ++ [s!"cache used although cache_ttl={cc} disables caching"]
    | none => pure ()
    out := out ++ [jstrs bad]
    i := i + 1
  return out

def judgeHttp (c : Json) (obs : List Obs) : E (List Json) := do
  let reqs ← httpReqs c
  let kind ← storeKind (← str c "store")
  let times := absTimes reqs
  let eff := effectiveDttl c
  let dttl := eff.getD 0
  let mut out : List Json := []
  let mut i := 0
  for o in obs do
    let t := times.getD i 0
    let mut bad : List String := []
    if eff.isNone && (o.hit || o.gets > 0 || (o.set.map (fun x => decide (0 < x))).getD false) then
      bad := bad ++ ["response cache used although http_cache is not enabled"]
    if o.hit then
      let j := o.src.toNat
      match reqs[j]?, times[j]? with
      | some rj, some tj =>
        if o.src < 0 || j ≥ i then bad := bad ++ ["hit without an earlier source request"]
        else if !mayStore dttl tj rj.up then
          bad := bad ++ [s!"served from cache at t={t} a response received at t={tj} that must not be stored at all (freshness lifetime not positive, no-cache, or no explicit lifetime and default_ttl={dttl})"]
        else if !mayServe dttl ⟨rj.up, tj, j⟩ t then
          bad := bad ++ [s!"served from cache at t={t} a response received at t={tj} after its freshness lifetime (age on receipt {initialAge tj rj.up}, default_ttl={dttl})"]
      | _, _ => bad := bad ++ ["hit without a source request"]
    match o.set, reqs[i]? with
    | some ttl, some ri =>
      if 0 < ttl && !(mayStore dttl t ri.up && mayServe dttl ⟨ri.up, t, i⟩ (lastServed kind t ttl)) then
        bad := bad ++ [s!"stored at t={t} with ttl={ttl}: would be served after its freshness lifetime (default_ttl={dttl})"]
    | _, _ => pure ()
    out := out ++ [jstrs bad]
    i := i + 1
  return out

def runJudge (c : Json) : E Json := do
  let cs ← fld c "case"
  let obs ← (← arr c "obs").mapM obsOf
  let fam ← str cs "fam"
  let res ← if fam == "c10http" then judgeHttp cs obs else judgeMech cs obs
  return Json.mkObj [("res", jarr res)]

def run (c : Json) : E Json := do
  match ← str c "fam" with
  | "c10store" => runStoreFam c
  | "c10mech" => runMech c
  | "c10http" => runHttp c
  | "c10judge" => runJudge c
  | f => throw s!"unknown family {f}"

end Driver.Validity
