import Driver.Util
import HeimdallModel.Model.FactoryProbe
import HeimdallModel.Spec.Inheritance
-- @family factory
/-! Line-protocol family `factory` (property C14): a configuration (catalogue, mode, default rule) and one rule
definition; answers with the load verdict and, for an accepted rule, the traces of the probe requests — once from
the model (`Factory.load`, the function the theorems are about) and once from the specification (`Spec.load`). -/
open Lean Heimdall Heimdall.Factory

namespace Driver.Factory

def parseKind (s : String) : E Kind :=
  match s with
  | "authn" => pure .authn
  | "authz" => pure .authz
  | "ctx" => pure .ctx
  | "fin" => pure .fin
  | "eh" => pure .eh
  | _ => throw s!"bad kind {s}"

def parseCond (s : String) : E Cond :=
  match s with
  | "absent" => pure .absent
  | "expr" => pure .expr
  | "empty" => pure .empty
  | "invalid" => pure .invalid
  | "nonstring" => pure .nonString
  | _ => throw s!"bad cond {s}"

def optStr (j : Json) (k : String) : Option String :=
  match j.getObjVal? k with
  | .ok (.str s) => some s
  | _ => none

def parseStep (j : Json) : E Step := do
  let keys := fldD j "keys" (Json.mkObj [])
  let cfg ← (if isNull j "cfg" then pure none else do pure (some (← nat j "cfg")))
  pure { authenticator := optStr keys "authenticator", authorizer := optStr keys "authorizer",
         contextualizer := optStr keys "contextualizer", finalizer := optStr keys "finalizer",
         errorHandler := optStr keys "error_handler",
         cond := ← parseCond (strD j "cond" "absent"), config := cfg }

def parseSteps (j : Json) (k : String) : E (List Step) := (arrD j k).mapM parseStep

structure Decl where
  kind : Kind
  id : String
  accepts : List Nat
  flavour : Flavour

def parseDecl (j : Json) : E Decl := do
  let kind ← parseKind (← str j "kind")
  let typ ← str j "type"
  let fl : Flavour := match kind, typ with
    | .authn, "anonymous" => .constant
    | .eh, "default" => .passthrough
    | .eh, _ => .redirect
    | _, _ => .remote
  pure ⟨kind, ← str j "id", ← nats j "accepts", fl⟩

def catalogue (ds : List Decl) : Catalogue := fun k id =>
  (ds.find? (fun d => d.kind == k && d.id == id)).map (·.accepts)

def flavours (ds : List Decl) : Flavours := fun k id =>
  ((ds.find? (fun d => d.kind == k && d.id == id)).map (·.flavour)).getD .remote

def parseDefault (c : Json) : E (Option DefaultRule) := do
  if isNull c "default" then pure none else
  let d ← fld c "default"
  pure (some { backtracking := boolD d "bt" false, execute := ← parseSteps d "execute",
               onError := ← parseSteps d "on_error" })

def parseRule (c : Json) : E RuleDef := do
  let r ← fld c "rule"
  let bt ← (if isNull r "bt" then pure none else do pure (some (← bool r "bt")))
  pure { backtracking := bt, forwardTo := boolD r "forward_to" false, execute := ← parseSteps r "execute",
         onError := ← parseSteps r "on_error" }

/-- the second rule of the probe rule set: `/r/**`, any method, one anonymous authenticator, `forward_to` set -/
def companion : RuleDef := { forwardTo := true, execute := [{ authenticator := some "anon" }] }

def traceJson (rule : String) (t : Trace) : Json :=
  Json.mkObj [("rule", jstr rule), ("calls", jstrs t.calls), ("fin", jstrs t.fin), ("ret", jstr t.ret),
    ("perr", jstr t.perr), ("upstream", Json.bool t.upstream)]

def noRule : Json := Json.mkObj [("rule", jstr "none:no_rule")]

/-- the six probe requests against the rule set {main, companion} and the default rule -/
def probes (fl : Flavours) (main comp : Effective) (dflt : Option Pipelines) : List Json :=
  let fallback (p : Probe) : Json :=
    match dflt with
    | some d => traceJson "default" (execute fl { toPipelines := d } p)
    | none => noRule
  [ traceJson "main" (execute fl main ⟨false, false⟩),
    traceJson "main" (execute fl main ⟨false, true⟩),
    traceJson "main" (execute fl main ⟨true, false⟩),
    traceJson "main" (execute fl main ⟨true, true⟩),
    (if main.backtracking then traceJson "companion" (execute fl comp ⟨true, false⟩) else fallback ⟨true, false⟩),
    fallback ⟨true, false⟩ ]

def rejectedCfg : Json := Json.mkObj [("factory", jstr "rejected")]
def rejectedRule : Json := Json.mkObj [("factory", jstr "ok"), ("load", jstr "rejected")]
def acceptedJson (ps : List Json) : Json :=
  Json.mkObj [("factory", jstr "ok"), ("load", jstr "accepted"), ("probes", jarr ps)]

def reasonStr (r : Reason) : String :=
  match r with
  | .noForwardTo => "no_forward_to"
  | .emptyExecute => "empty_execute"
  | .authenticatorAfterOther => "authenticator_after_other"
  | .handlerAfterFinalizer => "handler_after_finalizer"
  | .unsupportedStep => "unsupported_step"
  | .badCondition => "bad_condition"
  | .unknownMechanism => "unknown_mechanism"
  | .badOverride => "bad_override"
  | .noAuthenticator => "no_authenticator"
  | .duplicateSteps => "duplicate_steps"

def stageName (s : Stage) : String :=
  match s with
  | .authentication => "authn"
  | .handling => "sh"
  | .finalization => "fin"
  | .errorHandling => "eh"

def allStages : List Stage := [.authentication, .handling, .finalization, .errorHandling]

def keyCount (s : Step) : Nat :=
  [s.authenticator, s.authorizer, s.contextualizer, s.finalizer, s.errorHandler].countP (·.isSome)

def run (c : Json) : E Json := do
  let decls ← (← arr c "cat").mapM parseDecl
  let cat := catalogue decls
  let fl := flavours decls
  let proxy := strD c "mode" "decision" == "proxy"
  let d ← parseDefault c
  let r ← parseRule c
  -- the model: the function the theorems of Props/C14 are about
  let (res, reason) ← (match load cat proxy d r with
    | .configRejected why => pure (rejectedCfg, "config:" ++ reasonStr why)
    | .ruleRejected why => pure (rejectedRule, reasonStr why)
    | .accepted f e =>
      match loadRule cat f companion with
      | .ok comp => pure (acceptedJson (probes fl e comp f.dflt), "")
      | .error _ => throw "companion rule not loadable (catalogue without 'anon')" : E (Json × String))
  -- the specification as oracle
  let spec : Json := match Spec.load cat proxy d r with
    | none => rejectedCfg
    | some none => rejectedRule
    | some (some (f, e)) => acceptedJson (probes fl e (Spec.effective d companion) f.dflt)
  let ownSt := allStages.filter (fun st => !(own st r.execute r.onError).isEmpty)
  let inhSt := allStages.filter (fun st => (own st r.execute r.onError).isEmpty && !(ownDefault st d).isEmpty)
  let condOnly := allStages.filter (fun st =>
    let o := own st r.execute r.onError
    !o.isEmpty && o.all (·.conditional))
  let stats := Json.mkObj [
    ("reason", jstr reason),
    ("has_default", Json.bool d.isSome),
    ("own", jstrs (ownSt.map stageName)),
    ("inherited", jstrs (inhSt.map stageName)),
    ("cond_only", jstrs (condOnly.map stageName)),
    ("n_execute", jnat r.execute.length),
    ("n_on_error", jnat r.onError.length),
    ("ordered", Json.bool (orderedFrom 0 r.execute)),
    ("multi_key", Json.bool ((r.execute ++ r.onError).any (fun s => keyCount s > 1))),
    ("overrides", jnat ((r.execute ++ r.onError).countP (·.config.isSome))),
    ("bt_own", Json.bool r.backtracking.isSome)]
  pure (Json.mkObj [("res", res), ("spec", spec), ("stats", stats)])

end Driver.Factory
