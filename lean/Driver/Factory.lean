import Driver.Util
import HeimdallModel.Model.FactoryProbe
import HeimdallModel.Model.FactoryCel
import HeimdallModel.Spec.Inheritance
-- @family factory
/-! Line-protocol family `factory` (property C14): a configuration (catalogue, mode, default rule) and a history
of rule definitions loaded by one factory; answers, per rule, with the load verdict and, for an accepted rule, the traces of the probe requests — once from
the model (`Factory.load`, the function the theorems are about) and once from the specification (`Spec.load`).
CEL expressions (`if` of a step, `expressions` of a rule-level override) come as text plus the tree that text spells
(table `cel` of the case); their static type is computed here (`Cel.check`).  Operation `cel`: the static types of a
list of expressions, to be compared with what cel-go reports. -/
open Lean Heimdall Heimdall.Factory

namespace Driver.Factory

def parseKind (s : String) : E Kind :=
  match s with
  | "authn" => pure .authn
  | "authz" => pure .authz
  | "ctx" => pure .ctx
  | "fin" => pure .fin
  | "eh" => pure .eh
  | _ => throw s!"bad kind {s}"

/-- a CEL expression of the case: `{"b": true}`, `{"i": 1}`, `{"s": "x"}`, `{"list": e}`, `{"map": ["k", e]}`,
`{"var": "Subject"}`, `{"sel": [e, "f"]}`, `{"idx": [e, i]}`, `{"eq"|"ne"|"and"|"or": [a, b]}`, `{"not": a}`,
`{"ite": [c, a, b]}`, `{"call": [recv, "fn"]}`, `{"call": [recv, "fn", arg]}`, `{"fn": ["name", arg]}`,
`{"raw": "text the parser refuses"}` -/
partial def parseCel (j : Json) : E Cel := do
  let two (k : String) (mk : Cel → Cel → Cel) : E Cel := do
    match ← arr j k with
    | [a, b] => pure (mk (← parseCel a) (← parseCel b))
    | _ => throw s!"cel: {k} takes two operands"
  match j with
  | .obj m =>
    match m.toList with
    | [("b", .bool b)] => pure (.bool b)
    | [("i", v)] => pure (.int (← v.getNat?))
    | [("s", .str s)] => pure (.str s)
    | [("list", e)] => pure (.list1 (← parseCel e))
    | [("map", .arr #[.str k, e])] => pure (.map1 k (← parseCel e))
    | [("var", .str n)] => pure (.var n)
    | [("sel", .arr #[e, .str f])] => pure (.sel (← parseCel e) f)
    | [("idx", _)] => two "idx" .idx
    | [("eq", _)] => two "eq" .eq
    | [("ne", _)] => two "ne" .ne
    | [("and", _)] => two "and" .and
    | [("or", _)] => two "or" .or
    | [("not", a)] => pure (.not (← parseCel a))
    | [("ite", .arr #[c, a, b])] => pure (.ite (← parseCel c) (← parseCel a) (← parseCel b))
    | [("call", .arr #[r, .str f])] => pure (.call0 (← parseCel r) f)
    | [("call", .arr #[r, .str f, a])] => pure (.call1 (← parseCel r) f (← parseCel a))
    | [("fn", .arr #[.str f, a])] => pure (.fn1 f (← parseCel a))
    | [("raw", .str _)] => pure .garbage
    | _ => throw s!"cel: unknown node {j.compress}"
  | _ => throw s!"cel: unknown node {j.compress}"

/-- the table `cel` of a case: expression text ↦ the tree it spells.  Fails closed on a text listed twice with
different trees. -/
def parseCelTable (c : Json) : E (List (String × Cel)) := do
  let entries ← (arrD c "cel").mapM fun e => do pure (← str e "src", ← parseCel (← fld e "ast"))
  for (src, ast) in entries do
    if entries.any (fun x => x.1 == src && x.2 != ast) then throw s!"cel: two trees for {src}"
  pure entries

abbrev CelTable := List (String × Cel)

/-- the expression by which the cel authorizers of the harness catalogue listen to the probe that asks to be refused:
`Request.Header("X-Deny") != "1"` (prototype of every cel authorizer, payload 3 of the older streams) -/
def denyText : String := "Request.Header(\"X-Deny\") != \"1\""
def denyTree : Cel := .ne (.call1 (.var "Request") "Header" (.str "X-Deny")) (.str "1")

/-- the expression texts the harness catalogue and the fixed payloads of the older streams use, with their trees; they
complete the table of a case -/
def builtinCel : CelTable :=
  [(denyText, denyTree), ("true", .bool true), ("Subject.ID != \"\"", .ne (.sel (.var "Subject") "ID") (.str ""))]

/-- the `if` of a step.  `cel`: the step's `if` is an expression of the case's table, its class is computed from the
tree (`Cel.cond`: static type, or does not compile); the other names are the classes of the older streams (`expr`: the
boolean expression `Request.Header("X-Skip") != "1"`) -/
def parseCond (Γ : CelTable) (j : Json) : E Cond :=
  match strD j "cond" "absent" with
  | "absent" => pure .absent
  | "expr" => pure (.expr (strD j "if" "") (some .bool))
  | "empty" => pure .empty
  | "invalid" => pure (.expr (strD j "if" "") none)
  | "nonstring" => pure .nonString
  | "cel" => do
    let src ← str j "if"
    match Γ.lookup src with
    | some ast => pure (ast.cond src)
    | none => throw s!"cond: expression {src} is not in the table of the case"
  | s => throw s!"bad cond {s}"

def optStr (j : Json) (k : String) : Option String :=
  match j.getObjVal? k with
  | .ok (.str s) => some s
  | _ => none

def parseStep (Γ : CelTable) (j : Json) : E Step := do
  let keys := fldD j "keys" (Json.mkObj [])
  let cfg ← (if isNull j "cfg" then pure none else do pure (some (← nat j "cfg")))
  pure { authenticator := optStr keys "authenticator", authorizer := optStr keys "authorizer",
         contextualizer := optStr keys "contextualizer", finalizer := optStr keys "finalizer",
         errorHandler := optStr keys "error_handler",
         cond := ← parseCond Γ j, config := cfg }

structure Decl where
  kind : Kind
  id : String
  accepts : List Nat
  flavour : Flavour
  mech : TMech

/-- the catalogue entry the Go harness configures for a declaration (`facMechanism`): its type and what the
prototype shows; the override payloads of the older streams (tags below 100, fixed per type, acceptance declared by
the generator): tag 1 is the one whose effect is visible; the cel authorizers listen to the deny probe unless
overridden with payload 1 (`true`) or 2 (`Subject.ID != ""`), payload 3 is the listening expression again -/
def typedMech (kind : Kind) (typ id : String) (accepts : List Nat) : E TMech := do
  let (t, proto, ovr) ← (match kind, typ with
    | .authn, "generic" => pure (MType.generic, ({} : Shown), ({ fallback := false } : Shown))
    | .authn, "anonymous" => pure (.anonymous, { subject := "anon".toList }, { subject := "ovr".toList })
    | .authz, "remote" => pure (.remote, { values := [("v".toList, "base".toList)] }, { values := [("v".toList, "ovr".toList)] })
    | .authz, "cel" => pure (.cel, { expressions := [denyText.toList] }, { expressions := ["true".toList] })
    | .ctx, "generic" => pure (.genericCtx, { values := [("v".toList, "base".toList)] }, { values := [("v".toList, "ovr".toList)] })
    | .fin, "header" => pure (.header, { headers := [("X-Fin".toList, (id ++ "/{{ .Subject.ID }}/base").toList)] },
                              { headers := [("X-Fin".toList, (id ++ "/{{ .Subject.ID }}/ovr").toList)] })
    | .eh, "redirect" => pure (.redirect, {}, {})
    | .eh, "default" => pure (.dflt, {}, {})
    | .eh, "www_authenticate" => pure (.wwwAuthenticate, { realm := "base".toList }, { realm := "base".toList })
    | _, _ => throw s!"catalogue: unsupported mechanism type {typ}" : E (MType × Shown × Shown))
  let shown (n : Nat) : Shown :=
    if n == 1 then ovr
    else if t == .cel && n == 2 then { expressions := ["Subject.ID != \"\"".toList] }
    else proto
  pure { type := t, proto := proto, legacy := accepts.map fun n => (n, shown n) }

def parseDecl (j : Json) : E Decl := do
  let kind ← parseKind (← str j "kind")
  let typ ← str j "type"
  let id ← str j "id"
  let accepts ← nats j "accepts"
  let fl : Flavour := match kind, typ with
    | .authn, "anonymous" => .constant
    | .authz, "cel" => .silent
    | .eh, "default" => .passthrough
    | .eh, "www_authenticate" => .challenge
    | .eh, _ => .redirect
    | _, _ => .remote
  pure ⟨kind, id, accepts, fl, ← typedMech kind typ id accepts⟩

/-- a decoded `config` value of the case (JSON) as a `Val`; the entries of an object come sorted by key -/
partial def toVal (j : Json) : E Val :=
  match j with
  | .null => pure .null
  | .bool b => pure (.bool b)
  | .str s => pure (.str s.toList)
  | .num n => if n.exponent == 0 then pure (.num n.mantissa) else throw "override values: integers only"
  | .arr a => do
    let vs ← a.toList.mapM toVal
    pure (.list (vs.foldr Vals.cons .nil))
  | .obj m => do
    let kvs ← m.toList.mapM fun kv => do pure (kv.1.toList, ← toVal kv.2)
    pure (.obj (kvs.foldr (fun kv acc => Flds.cons kv.1 kv.2 acc) .nil))

/-- tags from 100 on name the values of the case's `ovr` table -/
def typedBase : Nat := 100

def typed (ds : List Decl) (ovr : List Val) (Γ : CelTable) : Typed :=
  { mech := fun k id => (ds.find? (fun d => d.kind == k && d.id == id)).map (·.mech)
    ovr := fun n => if n < typedBase then none else ovr[n - typedBase]?
    tags := (List.range ovr.length).map (· + typedBase)
    cel := fun src => (Γ.lookup (String.ofList src)).bind Cel.check }

mutual
/-- the non-empty strings under a key `expression` of an override value -/
partial def exprTexts : Val → List String
  | .list es => exprTextsL es
  | .obj fs => exprTextsF fs
  | _ => []
partial def exprTextsL : Vals → List String
  | .nil => []
  | .cons v rest => exprTexts v ++ exprTextsL rest
partial def exprTextsF : Flds → List String
  | .nil => []
  | .cons k (.str s) rest =>
    (if k == "expression".toList && !s.isEmpty then [String.ofList s] else []) ++ exprTextsF rest
  | .cons _ v rest => exprTexts v ++ exprTextsF rest
end

def flavours (ds : List Decl) : Flavours := fun k id =>
  ((ds.find? (fun d => d.kind == k && d.id == id)).map (·.flavour)).getD .remote

/-- a list-valued key as spelled in the case: absent, `null` or a list -/
def parseListed (Γ : CelTable) (j : Json) (k : String) : E Listed :=
  match j.getObjVal? k with
  | .error _ => pure .absent
  | .ok .null => pure .null
  | .ok (.arr a) => do pure (.items (← a.toList.mapM (parseStep Γ)))
  | .ok _ => throw s!"{k}: list, null or nothing expected"

def spelling (l : Listed) : String :=
  match l with
  | .absent => "absent"
  | .null => "null"
  | .items [] => "empty"
  | .items _ => "items"

def parseDefault (Γ : CelTable) (c : Json) : E (Option RawDefault) := do
  if isNull c "default" then pure none else
  let d ← fld c "default"
  pure (some { backtracking := boolD d "bt" false, execute := ← parseListed Γ d "execute",
               onError := ← parseListed Γ d "on_error" })

def parseRule (Γ : CelTable) (r : Json) : E RawRule := do
  let bt ← (if isNull r "bt" then pure none else do pure (some (← bool r "bt")))
  pure { backtracking := bt, forwardTo := boolD r "forward_to" false, execute := ← parseListed Γ r "execute",
         onError := ← parseListed Γ r "on_error" }

/-- the second rule of the probe rule set: `/r/**`, any method, one anonymous authenticator, `forward_to` set -/
def companion : RuleDef := { forwardTo := true, execute := [{ authenticator := some "anon" }] }

def traceJson (rule : String) (t : Trace) : Json :=
  Json.mkObj [("rule", jstr rule), ("calls", jstrs t.calls), ("fin", jstrs t.fin), ("hdr", jstrs t.hdr), ("ret", jstr t.ret),
    ("perr", jstr t.perr), ("upstream", Json.bool t.upstream), ("src", jstr t.src)]

def noRule : Json := Json.mkObj [("rule", jstr "none:no_rule")]

/-- the eight probe requests against the rule set {main, companion} and the default rule; the last two ask the cel
authorizers to refuse them (conditions true / false) -/
def probes (sh : Showing) (fl : Flavours) (den : Refusing) (main comp : Effective) (dflt : Option Pipelines) :
    List Json :=
  let fallback (p : Probe) : Json :=
    match dflt with
    | some d => traceJson "default" (execute sh fl den { toPipelines := d } p)
    | none => noRule
  [ traceJson "main" (execute sh fl den main { authnOk := false, skip := false }),
    traceJson "main" (execute sh fl den main { authnOk := false, skip := true }),
    traceJson "main" (execute sh fl den main { authnOk := true, skip := false }),
    traceJson "main" (execute sh fl den main { authnOk := true, skip := true }),
    (if main.backtracking then traceJson "companion" (execute sh fl den comp { authnOk := true, skip := false })
     else fallback { authnOk := true, skip := false }),
    fallback { authnOk := true, skip := false },
    traceJson "main" (execute sh fl den main { authnOk := true, skip := false, deny := true }),
    traceJson "main" (execute sh fl den main { authnOk := true, skip := true, deny := true }) ]

def rejectedCfg : Json := Json.mkObj [("factory", jstr "rejected")]
def rejectedRule : Json := Json.mkObj [("load", jstr "rejected")]
def acceptedRule (ps : List Json) : Json := Json.mkObj [("load", jstr "accepted"), ("probes", jarr ps)]
def loadedJson (loads : List Json) : Json := Json.mkObj [("factory", jstr "ok"), ("loads", jarr loads)]

def reasonStr (r : Reason) : String :=
  match r with
  | .noForwardTo => "no_forward_to"
  | .emptyExecute => "empty_execute"
  | .authenticatorAfterOther => "authenticator_after_other"
  | .handlerAfterFinalizer => "handler_after_finalizer"
  | .unsupportedStep => "unsupported_step"
  | .badCondition => "bad_condition"
  | .unknownMechanism => "unknown_mechanism"
  | .badOverride => "bad_override"
  | .noAuthenticator => "no_authenticator"
  | .duplicateSteps => "duplicate_steps"
  | .notAList => "not_a_list"

def stageName (s : Stage) : String :=
  match s with
  | .authentication => "authn"
  | .handling => "sh"
  | .finalization => "fin"
  | .errorHandling => "eh"

def allStages : List Stage := [.authentication, .handling, .finalization, .errorHandling]

def keyCount (s : Step) : Nat :=
  [s.authenticator, s.authorizer, s.contextualizer, s.finalizer, s.errorHandler].countP (·.isSome)

/-- the steps of a rule that carry a typed override (a tag naming a value of the `ovr` table), and those among
them whose mechanism exists and refuses that value -/
def typedSteps (T : Typed) (r : RuleDef) : Nat × Nat :=
  let refs : List (Kind × String × Option Nat) :=
    r.execute.filterMap (fun s => s.target.map fun t => (t.1, t.2, s.config)) ++
    r.onError.filterMap (fun s => s.errorHandler.map fun id => (Kind.eh, id, s.config))
  let typedRefs := refs.filter fun x => match x.2.2 with | some n => n ≥ typedBase | none => false
  (typedRefs.length,
   (typedRefs.filter fun x => (T.mech x.1 x.2.1).isSome && (T.variant x.1 x.2.1 x.2.2).isNone).length)

def ruleStats (T : Typed) (d : Option DefaultRule) (raw : RawRule) (reason : String) : Json :=
  let r := raw.decode
  let ownSt := allStages.filter (fun st => !(own st r.execute r.onError).isEmpty)
  let inhSt := allStages.filter (fun st => (own st r.execute r.onError).isEmpty && !(ownDefault st d).isEmpty)
  let condOnly := allStages.filter (fun st =>
    let o := own st r.execute r.onError
    !o.isEmpty && o.all (·.conditional))
  Json.mkObj [
    ("reason", jstr reason),
    ("own", jstrs (ownSt.map stageName)),
    ("inherited", jstrs (inhSt.map stageName)),
    ("cond_only", jstrs (condOnly.map stageName)),
    ("n_execute", jnat r.execute.length),
    ("n_on_error", jnat r.onError.length),
    ("execute_spelled", jstr (spelling raw.execute)),
    ("on_error_spelled", jstr (spelling raw.onError)),
    ("ordered", Json.bool (orderedFrom 0 r.execute)),
    ("multi_key", Json.bool ((r.execute ++ r.onError).any (fun s => keyCount s > 1))),
    ("overrides", jnat ((r.execute ++ r.onError).countP (·.config.isSome))),
    ("conds", jstrs ((r.execute ++ r.onError).filterMap fun s =>
      match s.cond with
      | .absent => none
      | .expr _ (some t) => some ("expr:" ++ t.name)
      | .expr _ none => some "invalid"
      | .empty => some "empty"
      | .nonString => some "nonstring")),
    ("typed", jnat (typedSteps T r).1),
    ("typed_refused", jnat (typedSteps T r).2),
    ("bt_own", Json.bool r.backtracking.isSome)]

/-- operation `cel`: static type (as cel-go prints it, `error` when the expression does not compile) and verdict of
`cellib.CompileExpression` for each expression of the case -/
def runCel (c : Json) : E Json := do
  let Γ ← parseCelTable c
  let res := Γ.map fun (_, ast) =>
    Json.mkObj [("type", jstr (match ast.check with | some t => t.name | none => "error")),
                ("accepted", Json.bool (condition (ast.cond "") == .ok true))]
  let r := Json.mkObj [("cel", jarr res)]
  pure (Json.mkObj [("res", r), ("spec", r)])

def run (c : Json) : E Json := do
  if strD c "op" "" == "cel" then return ← runCel c
  let Γ := (← parseCelTable c) ++ builtinCel
  let decls ← (← arr c "cat").mapM parseDecl
  -- the typed catalogue: what every mechanism shows, and the override VALUES the steps name by tag; the abstract
  -- catalogue of the rule factory model is derived from it (`WithConfig` accepts a tag iff it accepts its value)
  let ovr ← (arrD c "ovr").mapM toVal
  for v in ovr do
    for src in exprTexts v do
      if (Γ.lookup src).isNone then throw s!"ovr: expression {src} is not in the table of the case"
  let T := typed decls ovr Γ
  let cat := T.catalogue
  let sh : Showing := fun m => (T.variant m.kind m.id m.config).getD {}
  let fl := flavours decls
  -- which mechanisms verify an expression that listens to the probe asking to be refused
  let den : Refusing := refusing sh fun src => Γ.lookup (String.ofList src)
  let proxy := strD c "mode" "decision" == "proxy"
  -- rule sets of kubernetes resources are not validated by heimdall's rule set decoder
  let validated := strD c "path" "yaml" != "k8s"
  let d ← parseDefault Γ c
  let rs ← (arrD c "rules").mapM (parseRule Γ)
  -- the model: the function the theorems of Props/C14 are about
  let (res, cfgReason, reasons) ← (match loadDocuments cat proxy validated d rs with
    | .configRejected why => pure (rejectedCfg, reasonStr why, rs.map (fun _ => ""))
    | .loaded f results =>
      match loadRule cat validated f companion with
      | .error _ => throw "companion rule not loadable (catalogue without 'anon')"
      | .ok comp =>
        let loads := results.map fun r =>
          match r with
          | .ok e => acceptedRule (probes sh fl den e comp f.dflt)
          | .error _ => rejectedRule
        let reasons := results.map fun r =>
          match r with
          | .ok _ => ""
          | .error why => reasonStr why
        pure (loadedJson loads, "", reasons) : E (Json × String × List String))
  -- the specification as oracle
  let decoded : Except Reason (Option DefaultRule) := match d with
    | none => .ok none
    | some raw => raw.decode.map some
  let (spec, dd) : Json × Option DefaultRule := match decoded with
    | .error _ => (rejectedCfg, none)
    | .ok dd =>
      match Spec.loadHistory cat proxy validated dd (rs.map RawRule.decode) with
      | none => (rejectedCfg, dd)
      | some results =>
        let f := Spec.factory proxy dd
        let comp := Spec.effective dd companion
        (loadedJson (results.map fun r =>
          match r with
          | some e => acceptedRule (probes sh fl den e comp f.dflt)
          | none => rejectedRule), dd)
  let stats := Json.mkObj [
    ("config_reason", jstr cfgReason),
    ("has_default", Json.bool d.isSome),
    ("default_execute_spelled", jstr (match d with | some raw => spelling raw.execute | none => "-")),
    ("default_on_error_spelled", jstr (match d with | some raw => spelling raw.onError | none => "-")),
    ("rules", jarr ((rs.zip reasons).map fun (raw, why) => ruleStats T dd raw why))]
  pure (Json.mkObj [("res", res), ("spec", spec), ("stats", stats)])

end Driver.Factory
