import Driver.Util
import HeimdallModel.Spec.Config
import HeimdallModel.Spec.ConfigLeaf
import HeimdallModel.Spec.ConfigYaml
-- @family config
/-! Line-protocol family `config` (property C20): the configuration loader model on generated inputs.

* op `load`: `res` = the list of distinct results of `Config.load defaults file env` over the given enumeration orders
  of the environment (one element by theorem `c20_perm`), `"panic"` where the Go code refuses to merge (kind clash);
* op `spec`: `res` = does the leaf-wise rule accept the given result (`Config.specAccepts`), with the offending leaves
  and the places of the variables that give a nil value to a list position (known finding C20-nil-list-element);
* op `leafload`: the loader model followed by the decoding model, what arrives at one typed leaf;
* op `dialect`: for every text the reading of the model (`readText`; `"beyond"` outside the modelled fragment), what a
  file saying the text at a leaf of the given type gives where the schema wants the given JSON type (`"rejected"` or the
  decoded leaf) and what a variable carrying the text gives; with `refs` (variables a FILE may refer to) the text is first resolved
  (`substitute`) and `substituted` is what the file then says;
* op `names`: `res` = the path each variable name addresses and the name the documented rule gives that path back.

A case may carry `prefix` (the text handed to `WithEnvPrefix`); its `env` then lists the variables of the process under
their full names, the model takes those that start with the trimmed prefix (`Config.selectEnv`).
-/
open Lean Heimdall.Config

namespace Driver.Config

/-- scalars travel as JSON scalars; the atom is their compressed JSON text. `null` under a map key is the value that
    is defined to be nil (`Val.nil`, Go's map entry `k: nil`), `null` in a list is an unfilled position (`Val.null`:
    Go's `mergeSlices` treats every nil entry so) -/
partial def ofJson : Json → Val
  | .null => .null
  | .arr xs => .seq (xs.foldr (fun x acc => .cons (ofJson x) acc) .nil)
  | .obj kvs => .map (kvs.foldl (fun acc k v => acc.set k.toList (match v with | .null => Val.nil | _ => ofJson v)) .nil)
  | j => .atom j.compress

mutual
partial def toJson : Val → Json
  | .null => .null
  | .atom a => match Json.parse a with
      | .ok j => j
      | .error _ => .str a
  | .map fs => Json.mkObj (fieldsToJson fs)
  | .seq es => Json.arr (elemsToJson es).toArray
partial def fieldsToJson : Fields → List (String × Json)
  | .nil => []
  | .cons k v rest => (String.ofList k, toJson v) :: fieldsToJson rest
partial def elemsToJson : Elems → List Json
  | .nil => []
  | .cons v rest => toJson v :: elemsToJson rest
end

def segToJson : Seg → Json
  | .key k => Json.str (String.ofList k)
  | .idx n => Driver.jnat n

def pathToJson (p : Path) : Json := Driver.jarr (p.map segToJson)

def fileOf (c : Json) : Driver.E Val := do
  match c.getObjVal? "file" with
  | .ok (.str s) => match Json.parse s with
      | .ok j => pure (ofJson j)
      | .error e => throw s!"file is not JSON: {e}"
  | _ => pure .null

def envOfCase (c : Json) : Driver.E Env := do
  let es ← Driver.arr c "env"
  es.mapM fun e => do
    match e with
    | .arr #[.str name, _, typed] => pure (name.toList, typed.compress)
    | _ => throw "env entry must be [name, raw, typed]"

def maxDepth : Val → Nat
  | v => (v.leaves.map (fun l => l.1.length)).foldl max 0

def countIdx (ls : List (Path × String)) : Nat :=
  (ls.filter fun l => l.1.any fun s => match s with | .idx _ => true | _ => false).length

def scalarOf : Json → Driver.E Scalar
  | .null => pure .null
  | .str s => pure (.str s.toList)
  | .bool b => pure (.bool b)
  | .num n => if n.exponent == 0 then pure (.int n.mantissa) else throw "non-integer number: give floats as {\"$float\": text}"
  | j => match j.getObjVal? "$float" with
    | .ok (.str r) => pure (.float r.toList)
    | _ => match j.getObjVal? "$collection" with
      | .ok _ => pure .coll
      | _ => match j.getObjVal? "$time" with
        | .ok _ => pure .time
        | _ => throw "unsupported scalar"

def scalarToJson : Scalar → Json
  | .str s => Json.str (String.ofList s)
  | .int n => Driver.jint n
  | .bool b => Json.bool b
  | .float r => Json.mkObj [("$float", Json.str (String.ofList r))]
  | .null => Json.null
  | .coll => Json.mkObj [("$collection", Json.bool true)]
  | .time => Json.mkObj [("$time", Json.bool true)]

/-- the scalar the merged tree hands to the decoder at a leaf -/
def scalarAt (v : Val) : Driver.E Scalar :=
  match v with
  | .null => pure .null
  | .atom a => match Json.parse a with
      | .ok j => scalarOf j
      | .error e => throw s!"atom is not JSON: {e}"
  | _ => pure .coll

def pathOfJson (j : Json) : Driver.E Path := do
  let segs ← j.getArr?
  segs.toList.mapM fun s => match s with
    | .str k => pure (Seg.key k.toList)
    | other => do pure (Seg.idx (← other.getNat?))

def leafTypeOf : String → Driver.E LeafType
  | "string" => pure .string
  | "int" => pure .int
  | "bool" => pure .bool
  | "text" => pure .text
  | "any" => pure .any
  | t => throw s!"unknown leaf type {t}"

def leafToJson : Leaf → Json
  | .str s => Json.str (String.ofList s)
  | .int n => Driver.jint n
  | .bool b => Json.bool b
  | .text s => Json.mkObj [("text", Json.str (String.ofList s))]
  | .zero => Json.str "zero"
  | .fail => Json.str "err:decode"
  | .unsupported => Json.str "unsupported"
  | .raw y => Json.mkObj [("raw", scalarToJson y)]

/-- op `leaf`: `res` = what the typed decoding makes of the scalar for a leaf of the given type; `stats.faithful` = is
    the scalar a faithful reading of the plain spelling of `value` (the spec demands the file's leaf then) -/
def runLeaf (c : Json) : Driver.E Json := do
  let t ← leafTypeOf (← Driver.str c "type")
  let y ← scalarOf (← Driver.fld c "scalar")
  let res := leafToJson (decode t y)
  match c.getObjVal? "value" with
  | .ok vj =>
    let v : Value ← (match t, vj with
      | .string, .str s => pure (Value.str s.toList)
      | .text, .str s => pure (Value.text s.toList)
      | .bool, .bool b => pure (Value.bool b)
      | .int, .num n => pure (Value.int n.mantissa)
      | _, _ => throw "value does not fit the leaf type")
    pure (Json.mkObj [("res", res), ("stats", Json.mkObj [
      ("faithful", Json.bool (faithful v y)),
      ("file", leafToJson (decode t v.fileScalar)),
      ("spelling", Json.str (String.ofList v.spelling))])])
  | _ => pure (Json.mkObj [("res", res)])

def outcomeToJson : Outcome → Json
  | .rejected => Json.str "rejected"
  | .leaf l => leafToJson l

/-- op `dialect` -/
def runDialect (c : Json) : Driver.E Json := do
  let t ← leafTypeOf (← Driver.str c "type")
  let want ← (match (← Driver.str c "want") with
    | "string" => pure JsonType.string
    | "boolean" => pure JsonType.boolean
    | "integer" => pure JsonType.integer
    | w => throw s!"unknown JSON type {w}")
  let texts ← Driver.arr c "texts"
  -- `refs`: the variables the texts may refer to (`${NAME}`); the model then reads what the file says after the
  -- references are resolved (`Config.substitute`) and reports that text (`substituted`)
  let refs : Option Vars := match c.getObjVal? "refs" with
    | .ok (.obj kvs) => some (kvs.foldl (fun acc k v => match v with | .str x => (k.toList, x.toList) :: acc | _ => acc) [])
    | _ => none
  let out ← texts.mapM fun j => do
    let written ← j.getStr?
    let resolved : Option String := match refs with
      | some vs => (substitute vs written.toList).map String.ofList
      | none => some written
    match resolved with
    | none => pure (Json.mkObj [("text", Json.str written), ("modelled", Json.bool false), ("reading", Json.str "beyond"),
        ("file", Json.str "beyond"), ("env", Json.str "beyond"), ("string", Json.bool false),
        ("validator", Json.str "beyond"), ("substituted", Json.null)])
    | some s =>
    let reading := match readText s.toList with
      | some y => scalarToJson y
      | none => Json.str "beyond"
    let file := match fileOutcomeOf t want s.toList with
      | some o => outcomeToJson o
      | none => Json.str "beyond"
    let env := match envOutcomeOf t s.toList with
      | some o => outcomeToJson o
      | none => Json.str "beyond"
    let isStr := match readText s.toList with
      | some (.str _) => true
      | _ => false
    pure (Json.mkObj [("text", Json.str written), ("substituted", Json.str s), ("modelled", Json.bool (readText s.toList).isSome), ("reading", reading),
      ("file", file), ("env", env), ("string", Json.bool isStr),
      ("validator", match (validatorReads s.toList) with
        | some y => Json.str (if schemaAccepts .string y then "string" else if schemaAccepts .boolean y then "boolean"
                              else if schemaAccepts .integer y then "integer" else "other")
        | none => Json.str "beyond")])
  pure (Json.mkObj [("res", Driver.jarr out)])

def run (c : Json) : Driver.E Json := do
  let op ← Driver.str c "op"
  if op == "leaf" then return (← runLeaf c)
  if op == "dialect" then return (← runDialect c)
  let d := ofJson (Driver.fldD c "defaults" Json.null)
  let d := match d with | .null => Val.map .nil | v => v
  let f ← fileOf c
  -- a case with a `prefix` of its own (what the operator passed as --env-config-prefix) lists the variables of the
  -- PROCESS under their full names, foreign ones included: the loader model selects (`selectEnv`)
  let penv ← envOfCase c
  let sel : Env → Env := match c.getObjVal? "prefix" with
    | .ok (.str p) => selectEnv p.toList
    | _ => id
  let env := sel penv
  match op with
  | "load" =>
    let orders := Driver.arrD c "orders"
    let envs ← (if orders.isEmpty then pure [env] else orders.mapM fun o => do
      let idxs ← (← o.getArr?).toList.mapM (·.getNat?)
      pure (sel (idxs.filterMap fun i => penv[i]?)))
    let e0 := envTree env.entries
    let ok := env.consistent && d.compatB f && (merge d f).compatB e0 && f.nodup && d.nodup
    let results := envs.map fun e => (toJson (load d f e)).compress
    let distinct := results.foldl (fun acc r => if acc.contains r then acc else acc ++ [r]) []
    let sorted := (distinct.toArray.qsort (· < ·)).toList
    let res ← sorted.mapM fun r => Json.parse r
    let r := load d f env
    let envLeaves := env.entries.map fun e => (e.1, "")
    let overridden := (env.entries.filter fun e => (merge d f).get e.1 != .null).length
    let stats := Json.mkObj [
      ("ok", Json.bool ok),
      ("env", Driver.jnat env.length),
      ("foreign", Driver.jnat (penv.length - env.length)),
      ("env_list_leaves", Driver.jnat (countIdx envLeaves)),
      ("env_overrides", Driver.jnat overridden),
      ("env_nil", Driver.jnat (env.filter fun e => e.2 == nullText).length),
      ("env_nil_overrides", Driver.jnat (env.filter fun e => e.2 == nullText && (merge d f).get (parseName e.1) != .null).length),
      ("env_holes", Driver.jnat (env.filter fun e => holeVar (parseName e.1) e.2).length),
      ("file_leaves", Driver.jnat f.leaves.length),
      ("default_leaves", Driver.jnat d.leaves.length),
      ("result_leaves", Driver.jnat r.leaves.length),
      ("depth", Driver.jnat (maxDepth r)),
      ("spec", Json.bool (specAccepts d f env r))]
    pure (Json.mkObj [("res", if ok then Driver.jarr res else Json.str "panic"), ("stats", stats)])
  | "spec" =>
    let r := ofJson (← Driver.fld c "result")
    let bad :=
      (env.filter fun e => !showsLeaf (r.get (parseName e.1)) e.2).map (fun e => pathToJson (parseName e.1))
      ++ (f.leaves.filter fun l => !(env.touches l.1 || showsLeaf (r.get l.1) l.2)).map (fun l => pathToJson l.1)
      ++ (d.leaves.filter fun l => !(env.touches l.1 || f.get l.1 != .null || showsLeaf (r.get l.1) l.2)).map
          (fun l => pathToJson l.1)
      ++ (r.leaves.filter fun l => !(env.any (fun e => parseName e.1 == l.1 && e.2 == l.2)
            || f.get l.1 == .atom l.2 || d.get l.1 == .atom l.2)).map (fun l => pathToJson l.1)
    let holes := (env.filter fun e => holeVar (parseName e.1) e.2).map (fun e => pathToJson (parseName e.1))
    pure (Json.mkObj [("res", Json.bool (specAccepts d f env r)),
      ("stats", Json.mkObj [("bad", Driver.jarr bad), ("holes", Driver.jarr holes)])])
  | "names" =>
    let out := env.map fun e =>
      let p := parseName e.1
      Json.mkObj [("path", pathToJson p), ("name", Json.str (String.ofList (envName p))), ("ok", Json.bool (pathOk p))]
    pure (Driver.jarr out)
  | "leafload" =>
    -- the loader model followed by the decoding model: what arrives at one typed leaf (`"zero"`: the target keeps
    -- what it held, i.e. the default of the property)
    let t ← leafTypeOf (← Driver.str c "type")
    let p ← pathOfJson (← Driver.fld c "path")
    let r := load d f env
    let y ← scalarAt (r.get p)
    let ok := env.consistent && d.compatB f && (merge d f).compatB (envTree env.entries) && f.nodup && d.nodup
    let holes := (env.filter fun e => holeVar (parseName e.1) e.2).length
    pure (Json.mkObj [("res", if ok then leafToJson (decode t y) else Json.str "panic"),
      ("stats", Json.mkObj [("ok", Json.bool ok), ("scalar", scalarToJson y), ("holes", Driver.jnat holes)])])
  | "merged" =>
    pure (Json.mkObj [("res", toJson (load d f env)),
      ("stats", Json.mkObj [("ok", Json.bool (env.consistent && d.compatB f && (merge d f).compatB (envTree env.entries)))])])
  | _ => throw s!"unknown op {op}"

end Driver.Config
