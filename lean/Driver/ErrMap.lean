import Driver.Util
import HeimdallModel.Spec.ErrMap
-- @family errmap
/-! Line-protocol family `errmap` (property C12): error terms, configurations and `Accept` headers against the model
of the two error translators (`op = handler`) and of the services' error path (`op = svc`); if a case carries the
implementation's answers (`impl`), they are judged by the executable specification `Spec.ok`. -/
open Lean Heimdall Heimdall.ErrMap

namespace Driver.ErrMap

def parseKind : String → E Kind
  | "argument" => pure .argument
  | "authentication" => pure .authentication
  | "authorization" => pure .authorization
  | "communication" => pure .communication
  | "timeout" => pure .timeout
  | "configuration" => pure .configuration
  | "internal" => pure .internal
  | "noRule" => pure .noRule
  | k => throw s!"unknown kind {k}"

partial def parseErr (j : Json) : E Err := do
  match ← str j "t" with
  | "kind" => pure (.kind (← parseKind (← str j "k")))
  | "redirect" => pure (.redirect (← int j "code") (← str j "to"))
  | "foreign" => pure .foreign
  | "ctxdone" => pure (.ctxDone (if strD j "c" "canceled" == "deadline" then .deadlineExceeded else .canceled))
  | "wrap" => pure (.wrap (← parseErr (← fld j "e")))
  | "join" => pure (.join (← (← arr j "es").mapM parseErr))
  | "chain" => pure (.chain (← (← arr j "es").mapM parseErr))
  | t => throw s!"unknown error term {t}"

def parseCfg (j : Json) : E Cfg := do
  let ov := fldD j "ov" (Json.mkObj [])
  let g (k : String) : Int := ((fld ov k) >>= (·.getInt?)).toOption.getD 0
  pure { verbose := boolD j "verbose" false,
         ov := { authn := g "authn", authz := g "authz", comm := g "comm", precond := g "precond",
                 noRule := g "noRule", internal := g "internal" } }

def parseAccept (j : Json) : E Accept := do
  match strD j "k" "absent" with
  | "absent" => pure .absent
  | "invalid" => pure .invalid
  | "ranges" =>
    let rs ← (← arr j "rs").mapM fun r => do
      pure ({ type := ← str r "t", subtype := ← str r "s", q := ← nat r "q", params := natD r "p" 0 } : Range)
    pure (.ranges rs)
  | k => throw s!"unknown accept form {k}"

def mediaName : Media → String
  | .html => "html" | .json => "json" | .plain => "plain" | .xml => "xml"

def parseMedia : String → Option Media
  | "html" => some .html | "json" => some .json | "plain" => some .plain | "xml" => some .xml | _ => none

def outJson : Out → Json
  | .resp r => Json.mkObj [
      ("out", "resp"), ("status", jint r.status),
      ("hdrs", jarr ((sortPairs r.headers).map fun kv => jstrs [kv.1, kv.2])),
      ("body", Json.bool r.body.isSome), ("fmt", jstr ((r.body.map mediaName).getD "")),
      ("grpc", match r.grpc with | some g => jnat g | none => jint (-1))]
  | .panic => Json.mkObj [("out", "panic"), ("status", jint 0), ("hdrs", jarr []), ("body", Json.bool false),
      ("fmt", jstr ""), ("grpc", jint (-1))]
  | .allowed => Json.mkObj [("out", "ok"), ("status", jint 0), ("hdrs", jarr []), ("body", Json.bool false),
      ("fmt", jstr ""), ("grpc", jint (-1))]

/-- an answer of the implementation, as reported by the harness -/
def parseOut (j : Json) : E Out := do
  match ← str j "out" with
  | "panic" => pure .panic
  | "ok" => pure .allowed
  | "resp" =>
    let hdrs ← (← arr j "hdrs").mapM fun h => do
      match ← (h.getArr?) with
      | #[k, v] => pure ((← k.getStr?), (← v.getStr?))
      | _ => throw "bad header"
    let body ← (do
      if ← bool j "body" then
        match parseMedia (← str j "fmt") with
        | some m => pure (some m)
        | none => throw "body in an unknown format"
      else pure none)
    let g ← int j "grpc"
    pure (.resp { status := ← int j "status", headers := hdrs, body := body,
                  grpc := if g < 0 then none else some g.toNat })
  | o => throw s!"no answer: {o}"

def judge (tr : Transport) (cfg : Cfg) (acc : Accept) (f : Failure) (impl : Json) : Json :=
  match parseOut impl with
  | .ok o => Json.bool (Spec.ok tr cfg acc f o)
  | .error e => jstr e

def actionName : Action → String
  | .redirect => "redirect"
  | .respond .authn => "authn" | .respond .authz => "authz" | .respond .comm => "comm"
  | .respond .precond => "precond" | .respond .noRule => "noRule" | .respond .internal => "internal"

partial def depth : Err → Nat
  | .wrap e => depth e + 1
  | .join es => (es.map depth).foldl max 0 + 1
  | .chain es => (es.map depth).foldl max 0 + 1
  | _ => 0

def dedup (l : List String) : List String := l.foldl (fun acc x => if acc.contains x then acc else acc ++ [x]) []

def errStats (e : Err) : List (String × Json) :=
  let cls := dedup (e.leaves.map fun l => actionName l.action)
  [("class", jstr (actionName e.action)), ("leaves", jnat e.leaves.length), ("depth", jnat (depth e)),
   ("classes", jnat cls.length), ("mixed", Json.bool (cls.length ≥ 2))]

def runHandler (c : Json) : E Json := do
  let cfg ← parseCfg (← fld c "cfg")
  let acc ← parseAccept (fldD c "acc" (Json.mkObj []))
  let e ← parseErr (← fld c "err")
  let f := plain e
  let h := ErrMap.http.respond cfg acc f
  let g := ErrMap.grpc.respond cfg acc f
  -- state of the request's context when the failure reaches the handler of a service
  let rc ← (match strD c "rctx" "live" with
    | "live" => pure ReqCtx.live
    | "cancelled" => pure ReqCtx.cancelled
    | "deadline" => pure ReqCtx.deadlineExceeded
    | x => throw s!"unknown request context state {x}")
  let noCtx : Ctx := { upstream := [], pipelineError := none }
  -- `(*handler).ServeHTTP` with the request context of the decision / proxy service, `Check` behind the interceptor
  let viaExec (tr : Transport) : Out := handlerServe tr.translator cfg acc rc (some e) noCtx
  -- the same failure kept as pipeline error and returned by `Finalize`
  let viaFinalize (tr : Transport) : Out :=
    handlerServe tr.translator cfg acc rc none { noCtx with pipelineError := some e }
  -- "identically by the HTTP services and the Envoy gRPC service" (inside the property's domain)
  let same (impl : Json) : Json :=
    match parseOut (fldD impl "http" Json.null), parseOut (fldD impl "grpc" Json.null) with
    | .ok a, .ok b => Json.bool (!(cfg.valid && e.redirectsValid) || (a.view == b.view && a.view.isSome))
    | _, _ => jstr "no answer"
  let svcSides : List (String × Transport × Out) :=
    [("dec", .http, viaExec .http), ("prx", .http, viaExec .http), ("env", .grpc, viaExec .grpc),
     ("decfin", .http, viaFinalize .http), ("prxfin", .http, viaFinalize .http), ("envfin", .grpc, viaFinalize .grpc)]
  let spec := match c.getObjVal? "impl" with
    | .ok impl => [("spec", Json.mkObj ([
        ("http", judge .http cfg acc f (fldD impl "http" Json.null)),
        ("grpc", judge .grpc cfg acc f (fldD impl "grpc" Json.null)),
        ("same", same impl)] ++
        (svcSides.filterMap fun (name, tr, _) =>
          match impl.getObjVal? name with
          -- "=http" / "=grpc": the answer of the service handler equals the translator's own
          | .ok (.str "=http") => some (name, judge tr cfg acc f (fldD impl "http" Json.null))
          | .ok (.str "=grpc") => some (name, judge tr cfg acc f (fldD impl "grpc" Json.null))
          | .ok a => some (name, judge tr cfg acc f a)
          | .error _ => none)))]
    | .error _ => []
  let accKind := match acc with | .absent => "absent" | .invalid => "invalid" | .ranges rs => s!"ranges{min rs.length 3}"
  let bodyOf (o : Out) : String := match o with
    | .resp r => (r.body.map mediaName).getD "none" | .panic => "panic" | .allowed => "allowed"
  pure (Json.mkObj ([
    -- an answer of a service handler equal to the translator's own is written "=http" / "=grpc" (as the harness does)
    ("res", Json.mkObj ([("http", outJson h), ("grpc", outJson g)] ++
      svcSides.map fun (name, tr, o) =>
        (name, if tr == .http && o == h then jstr "=http" else if tr == .grpc && o == g then jstr "=grpc"
               else outJson o))),
    ("stats", Json.mkObj (errStats e ++ [
      ("accept", jstr accKind), ("verbose", Json.bool cfg.verbose),
      ("rctx", jstr (strD c "rctx" "live")), ("ctxLeaf", Json.bool (e.leaves.any Leaf.isCtxDone)),
      ("httpBody", jstr (bodyOf h)), ("grpcBody", jstr (bodyOf g)),
      ("cfgValid", Json.bool cfg.valid), ("cfgNoSuccess", Json.bool cfg.noSuccess),
      ("redirectsValid", Json.bool e.redirectsValid)]))] ++ spec))

/-- the state in which a pipeline left the request context -/
def parseCtx (realm : String) (rcode : Int) (j : Json) : E Ctx := do
  let up ← (arrD j "up").mapM fun h => do
    match ← (h.getArr?) with
    | #[k, v] => pure ((← k.getStr?), (← v.getStr?))
    | _ => throw "bad upstream header"
  let prior ← (do if isNull j "err" then pure none else pure (some (← parseErr (← fld j "err"))))
  let base : Ctx := { upstream := up, pipelineError := prior }
  match strD j "exec" "none" with
  | "none" => pure base
  | "www" => pure (wwwAuthenticateExec realm base)
  | "redirect" => pure (redirectExec rcode (← str j "to") base)
  | x => throw s!"unknown handler {x}"

/-- an error value as a term of the line protocol (inverse of `parseErr`) -/
partial def errJson : Err → Json
  | .kind k => Json.mkObj [("t", "kind"), ("k", jstr (match k with
      | .argument => "argument" | .authentication => "authentication" | .authorization => "authorization"
      | .communication => "communication" | .timeout => "timeout" | .configuration => "configuration"
      | .internal => "internal" | .noRule => "noRule"))]
  | .redirect c t => Json.mkObj [("t", "redirect"), ("code", jint c), ("to", jstr t)]
  | .foreign => Json.mkObj [("t", "foreign")]
  | .ctxDone c => Json.mkObj [("t", "ctxdone"), ("c", jstr (match c with | .canceled => "canceled" | .deadlineExceeded => "deadline"))]
  | .wrap e => Json.mkObj [("t", "wrap"), ("e", errJson e)]
  | .join es => Json.mkObj [("t", "join"), ("es", jarr (es.map errJson))]
  | .chain es => Json.mkObj [("t", "chain"), ("es", jarr (es.map errJson))]

/-- what became of the token request of an `oauth2_client_credentials` strategy -/
def parseTokenOutcome (j : Json) : E TokenOutcome := do
  match ← str j "k" with
  | "issued" => pure .issued
  | "sendFailed" => pure (.sendFailed (← parseErr (← fld j "cause")))
  | "sendTimedOut" => pure (.sendTimedOut (← parseErr (← fld j "cause")))
  | "unexpectedStatus" => pure .unexpectedStatus
  | "badRequest" => pure (.badRequest (boolD j "doc" false))
  | "okUnparsable" => pure .okUnparsable
  | "okErrorDocument" => pure .okErrorDocument
  | k => throw s!"unknown token outcome {k}"

/-- the authentication strategy of an endpoint and what happens when it is applied -/
def parseStrategy (j : Json) : E Strategy := do
  match ← str j "s" with
  | "none" => pure .none
  | "basic" => pure .basicAuth
  | "apikey" => pure .apiKey
  | "cc" => pure (.clientCredentials (← parseTokenOutcome (← fld j "token")))
  | "sig" => pure (.signatures (boolD j "fails" false))
  | x => throw s!"unknown strategy {x}"

def parseLogLevel : String → E LogLevel
  | "trace" => pure .trace
  | "debug" => pure .debug
  | "info" => pure .info
  | "warn" => pure .warn
  | "error" => pure .error
  | "disabled" => pure .disabled
  | "" => pure .disabled
  | x => throw s!"unknown log level {x}"

def parseCel : String → E Cel
  | "holds" => pure .holds
  | "fails" => pure .fails
  | "error" => pure .error
  | x => throw s!"unknown CEL outcome {x}"

/-- how the pipeline of a rule failed (or did not) -/
partial def parseCause (j : Json) : E (Option Err) := do
  if j.isNull then return none
  match j.getObjVal? "term" with
  | .ok t => return some (← parseErr t)
  | .error _ => pure ()
  match j.getObjVal? "celAuthz" with
  | .ok c => return celAuthorize (← parseCel (← c.getStr?))
  | .error _ => pure ()
  -- a mechanism whose endpoint authenticates (`at = mech`), or `Endpoint.SendRequest` itself (`at = send`)
  match j.getObjVal? "ep" with
  | .ok ep =>
    let st ← parseStrategy (← fld ep "strategy")
    return (if strD ep "at" "mech" == "send" then authenticateRequest st else createRequest st)
  | .error _ => pure ()
  match j.getObjVal? "stepIf" with
  | .ok c => return stepIf (← parseCel (← c.getStr?)) (← parseCause (fldD j "step" Json.null))
  | .error _ => throw "unknown cause"

def parseHandler (realm : String) (rcode : Int) (j : Json) : E (Cel × Handler) := do
  let c ← parseCel (strD j "c" "holds")
  match ← str j "h" with
  | "default" => pure (c, .default)
  | "redirect" => pure (c, .redirect (((fld j "code") >>= (·.getInt?)).toOption.getD rcode) (← str j "to"))
  | "www" => pure (c, .www (strD j "realm" realm))
  | x => throw s!"unknown handler {x}"

/-- answer of the model and the failure that reaches the translator (for the specification) -/
def svcAnswer (tr : Transport) (cfg : Cfg) (acc : Accept) (realm : String) (rcode : Int) (j : Json) :
    E (Out × Option Failure) := do
  match j.getObjVal? "upstream" with
  | .ok _ => throw "an upstream scenario is answered by upAnswer"
  | .error _ => pure ()
  match j.getObjVal? "pipe" with
  | .ok p =>
    let up ← (arrD p "up").mapM fun h => do
      match ← (h.getArr?) with
      | #[k, v] => pure ((← k.getStr?), (← v.getStr?))
      | _ => throw "bad upstream header"
    let ctx : Ctx := { upstream := up, pipelineError := none }
    match ← parseCause (fldD p "cause" Json.null) with
    | none => pure (serve tr.translator cfg acc ctx, none)
    | some cause =>
      let hs ← (arrD p "hs").mapM (parseHandler realm rcode)
      let f := match handleError hs cause ctx with
        | (_, some e) => some (plain e)
        | (ctx', none) => finalize ctx'
      pure (serveFailure tr.translator cfg acc hs cause ctx, f)
  | .error _ =>
    let rc := ((fld j "code") >>= (·.getInt?)).toOption.getD rcode
    let ctx ← parseCtx realm rc j
    pure (serve tr.translator cfg acc ctx, finalize ctx)

/-- the proxy service forwarding to a scripted upstream: (informational responses, answer, failure for the
specification) -/
def upAnswer (cfg : Cfg) (acc : Accept) (u : Json) : E (List Int × Out × Option Failure) := do
  let infos ← (arrD u "infos").mapM fun i => match i.getInt? with
    | .ok n => pure n
    | .error e => throw e
  let lvl ← parseLogLevel (strD u "log" "")
  match ← str u "end" with
  | "answers" => let (is, o) := proxyForward lvl cfg acc infos .answers; pure (is, o, none)
  | "dies" => let (is, o) := proxyForward lvl cfg acc infos .dies; pure (is, o, some (plain upstreamFailure))
  | x => throw s!"unknown end of the upstream exchange {x}"

def runSvc (c : Json) : E Json := do
  let cfgD ← parseCfg (← fld c "cfg")
  let cfgP ← parseCfg (fldD c "pcfg" (← fld c "cfg"))
  let realm := strD c "realm" ""
  let rcode := ((fld c "rcode") >>= (·.getInt?)).toOption.getD 0
  let reqs ← arr c "reqs"
  let impl := arrD c "impl"
  let mut out : List Json := []
  let mut spec : List Json := []
  let mut trees : List Json := []
  let mut infos : List Json := []
  let mut i := 0
  for r in reqs do
    let tr : Transport := if (← str r "svc") == "envoy" then .grpc else .http
    let cfg := if (← str r "svc") == "proxy" then cfgP else cfgD
    let acc ← parseAccept (fldD r "acc" (Json.mkObj []))
    let ctxJ := fldD r "ctx" (Json.mkObj [])
    let (o, f, inf) ← (match ctxJ.getObjVal? "upstream" with
      | .ok u => do
        let (is, o, f) ← upAnswer cfg acc u
        pure (o, f, jarr (is.map jint))
      | .error _ => do
        let (o, f) ← svcAnswer tr cfg acc realm rcode ctxJ
        pure (o, f, Json.null))
    out := out ++ [outJson o]
    -- the error value the model says reaches the translator
    trees := trees ++ [match f with | some f => errJson f.err | none => Json.null]
    infos := infos ++ [inf]
    match impl[i]? with
    | some a =>
      match f with
      | some f => spec := spec ++ [judge tr cfg acc f (fldD a "resp" Json.null)]
      | none => spec := spec ++ [Json.bool (strD (fldD a "resp" Json.null) "out" "" == "ok")]
    | none => pure ()
    i := i + 1
  pure (Json.mkObj [("res", jarr out), ("spec", jarr spec), ("trees", jarr trees), ("infos", jarr infos)])

/-- a redirect error handler created from configuration and executed on a fresh request context -/
def runMech (c : Json) : E Json := do
  let cfg ← parseCfg (← fld c "cfg")
  let acc ← parseAccept (fldD c "acc" (Json.mkObj []))
  let code ← int c "code"
  let ctx := redirectExec code (← str c "to") { upstream := [], pipelineError := none }
  let h := serve ErrMap.http cfg acc ctx
  let g := serve ErrMap.grpc cfg acc ctx
  let spec := match c.getObjVal? "impl", finalize ctx with
    | .ok impl, some f => [("spec", Json.mkObj [
        ("http", judge .http cfg acc f (fldD impl "http" Json.null)),
        ("grpc", judge .grpc cfg acc f (fldD impl "grpc" Json.null))])]
    | _, _ => []
  pure (Json.mkObj ([("res", Json.mkObj [("http", outJson h), ("grpc", outJson g)])] ++ spec))

def runCfgKeys (c : Json) : E Json := do
  let kvs ← (← arr c "keys").mapM fun k => do pure ((← str k "key"), (← int k "code"))
  if kvs.any (fun kv => (keyClass kv.1).isNone) then
    return Json.mkObj [("res", Json.mkObj [("load", "unknown-key")])]
  let ov := loadOverrides kvs
  let view := Json.mkObj [("verbose", Json.bool true), ("authn", jint ov.authn), ("authz", jint ov.authz),
    ("comm", jint ov.comm), ("precond", jint ov.precond), ("noRule", jint ov.noRule), ("internal", jint ov.internal)]
  pure (Json.mkObj [("res", Json.mkObj [("load", "ok"), ("decision", view), ("proxy", view)])])

def run (c : Json) : E Json := do
  match ← str c "op" with
  | "handler" => runHandler c
  | "svc" => runSvc c
  | "mech" => runMech c
  | "cfgkeys" => runCfgKeys c
  | o => throw s!"unknown op {o}"

end Driver.ErrMap
