import Driver.Util
import Driver.Repo
import HeimdallModel.Model.EntryView
import HeimdallModel.Spec.EntryView
-- @family entryview
/-! Line-protocol family `entryview` (property C13): one logical request and one rule set through the model of the
three entry points (`Heimdall.EntryView.serve`, the definitions the theorems of `Props/C13.lean` are about) and
through the reference semantics (`Heimdall.EntryView.Spec.serve`). -/
open Lean Heimdall Heimdall.EntryView

namespace Driver.EntryView

def bytes (j : Json) (k : String) : E Bytes := do pure (← str j k).toList
def bytesD (j : Json) (k : String) : Bytes := (strD j k "").toList
def jbytes (b : Bytes) : Json := jstr (String.ofList b)

/-- FNV-1a (64 bit) over the bytes -/
def fnv1a64 (b : Bytes) : UInt64 :=
  b.foldl (fun h c => (h ^^^ c.toNat.toUInt64) * 1099511628211) 14695981039346656037

/-- a value as it is compared with the harness: as it is up to 1024 bytes; a longer one (bodies of up to some hundred
    KiB and what the templates make of them) by its first and last 32 bytes, its length and its FNV-1a hash — the
    harness (`c13Val`) renders the same -/
def digest (b : Bytes) : String :=
  let n := b.length
  if n ≤ 1024 then String.ofList b else
  String.ofList (b.take 32) ++ s!"...[{n} bytes fnv1a64={String.ofList (Nat.toDigits 16 (fnv1a64 b).toNat)}]..." ++
    String.ofList (b.drop (n - 32))

def jval (b : Bytes) : Json := jstr (digest b)

def parseProbe (j : Json) : E Probe := do
  let a := bytesD j "a"
  match ← str j "k" with
  | "method" => pure .method
  | "scheme" => pure .scheme
  | "host" => pure .host
  | "hostname" => pure .hostname
  | "port" => pure .port
  | "path" => pure .path
  | "query" => pure .query
  | "capture" => pure (.capture a)
  | "header" => pure (.header a)
  | "cookie" => pure (.cookie a)
  | "body" => pure .body
  | k => throw s!"unknown probe {k}"

def parseCond (j : Json) : E Cond := do pure { probe := ← parseProbe (← fld j "p"), eq := ← bytes j "eq" }

def parsePipe (j : Json) : E Pipe := do
  let authz ← (arrD j "authz").mapM parseCond
  let fins ← (arrD j "fin").mapM fun f => do
    let kind := if strD f "t" "header" == "cookie" then FinKind.cookie else FinKind.header
    let cond ← if isNull f "if" then pure none else do pure (some (← parseCond (← fld f "if")))
    let items ← (arrD f "items").mapM fun it => do
      pure ({ name := ← bytes it "name", probes := ← (arrD it "probes").mapM parseProbe } : Item)
    pure ({ kind, cond, items } : Fin)
  pure { authz, fins, authn := !(boolD j "deny" false), comm := boolD j "comm" false }

def parseRespond (j : Json) : Respond :=
  let codes := fldD j "codes" (Json.mkObj [])
  { accepted := natD codes "accepted" 0, argument := natD codes "argument" 0,
    authentication := natD codes "authentication" 0, authorization := natD codes "authorization" 0,
    communication := natD codes "communication" 0, internal := natD codes "internal" 0,
    norule := natD codes "norule" 0 }

def parseReq (j : Json) : E LReq := do
  let headers ← (arrD j "headers").mapM fun h => do
    match h.getArr? with
    | .ok #[.str n, .str v] => pure (n.toList, v.toList)
    | _ => throw "bad header line"
  let body := match j.getObjVal? "body" with
    | .ok (.str s) => some s.toList
    | _ => none
  pure { method := ← bytes j "method", tls := boolD j "tls" false, host := ← bytes j "host",
         rawPath := ← bytes j "path", query := bytesD j "query", headers, body }

def decName : DecKind → String
  | .json => "json" | .form => "form" | .yaml => "yaml"

/-- the decoding oracle for the body of this case (computed by the generator for the trusted decoders) -/
def parseDecoder (c : Json) (body : Option String) : Decoder := fun k b =>
  -- no bytes at all (only the original Envoy request context decodes them): `url.ParseQuery("")` is the empty
  -- map, yaml.v3 leaves the map nil, go-json reports an error
  if b.isEmpty then (match k with | .form => some "{}".toList | .yaml => some "null".toList | .json => none) else
  -- (compared as strings: bodies may be some hundred KiB long)
  if some (String.ofList b) != body then none else
  match (fldD c "dec" Json.null).getObjVal? (decName k) with
  | .ok (.str s) => some s.toList
  | _ => none

/-- `limits`: the `buffer_limit` block of the services in bytes (absent: 0 / 0) -/
def parseLimits (c : Json) : Limits :=
  let l := fldD c "limits" (Json.mkObj [])
  { read := natD l "read" 0, write := natD l "write" 0 }

def parseLevel (c : Json) : E LogLevel :=
  match strD c "log" "disabled" with
  | "trace" => pure .trace
  | "debug" => pure .debug
  | "info" => pure .info
  | "warn" => pure .warn
  | "error" => pure .error
  | "disabled" => pure .disabled
  | l => throw s!"unknown log level {l}"

def decStr : Dec → String
  | .ok => "ok" | .norule => "norule" | .argument => "argument" | .authorization => "authorization"
  | .internal => "internal" | .authentication => "authentication" | .communication => "communication"

def jpairs (l : List (Bytes × Bytes)) : Json :=
  jarr ((sortPairs (l.map fun kv => (String.ofList kv.1, digest kv.2))).map fun kv => jstrs [kv.1, kv.2])

/-- a Go map rendered as sorted pairs: the first entry of a key is the map's entry -/
def dedup (l : List (Bytes × Bytes)) : List (Bytes × Bytes) :=
  l.foldl (fun acc kv => if acc.any (·.1 == kv.1) then acc else acc ++ [kv]) []

def seenJson (spyH spyC : List Bytes) (F : Funcs) (hm : List (Bytes × Bytes)) (s : Seen) : Json :=
  Json.mkObj [
    ("method", jbytes s.obj.method), ("scheme", jbytes s.obj.url.scheme), ("host", jbytes s.obj.url.host),
    ("hostname", jbytes s.obj.url.hostname), ("port", jbytes s.obj.url.port),
    ("path", jbytes s.obj.url.path), ("rawpath", jbytes s.obj.url.rawPath), ("query", jbytes s.obj.url.rawQuery),
    ("captures", jpairs (dedup (s.obj.captures.getD []))),
    ("headers", jpairs (dedup hm)),
    ("header", jarr (spyH.map fun n => jarr [jbytes n, jbytes (F.header n)])),
    ("cookie", jarr (spyC.map fun n => jarr [jbytes n, jbytes (F.cookie n)])),
    ("body", jval F.body.render),
    ("stable", Json.bool s.stable)]

def outcomeJson (ep : EP) (spyH spyC : List Bytes) (F : Funcs) (hm : List (Bytes × Bytes)) (o : Outcome) : Json :=
  Json.mkObj [
    ("dec", jstr (decStr o.dec)),
    ("status", jnat o.status),
    ("spy", match o.seen with | some s => seenJson spyH spyC F hm s | none => Json.null),
    ("up", if o.dec = .ok then
        -- what the upstream application is shown, for the reserved header namespace of the tie; the payload it
        -- receives is observable at the proxy service only (its upstream is part of the tie)
        Json.mkObj ([("headers", jpairs (dedup (o.upSees.filter fun kv => b!"X-C13-".isPrefixOf kv.1))),
                     ("cookies", jpairs o.upCookies)] ++
                    (if ep = .proxy then [("payload", jval o.upBody)] else [])) else Json.null)]

/-- the headers of the reserved namespace the upstream application is shown when every collected header is handed
    over as the entry point does it (`Spec.delivered`): the signature of the known finding `C13-first-header-value` -/
def deliveredHeaders (R : Respond) (lr : LReq) (ep : EP) (sp : Spec.Run) : Json :=
  let o := Spec.delivered R lr ep sp
  if o.dec = .ok then jpairs (dedup (o.upSees.filter fun kv => b!"X-C13-".isPrefixOf kv.1)) else Json.null

def epName : EP → String
  | .decision => "decision" | .proxy => "proxy" | .envoy => "envoy"

def run (c : Json) : E Json := do
  let lr ← parseReq (← fld c "req")
  let pack := strD (← fld c "req") "envoy_body" "raw" != "str"
  let I : Impl := match strD c "impl" "fixed" with
    | "original" => Impl.original
    | "next" => Impl.next
    | _ => Impl.fixed
  -- the two definitions of the received spelling (this model's and the one of `Base/UrlEscape.lean`) agree
  if receivedL lr.rawPath ≠ Heimdall.receivedPathL lr.rawPath then
    throw "receivedL and Heimdall.receivedPathL disagree on the path of this case"
  let spy := fldD c "spy" (Json.mkObj [])
  let spyH := ((strs spy "headers").toOption.getD []).map String.toList
  let spyC := ((strs spy "cookies").toOption.getD []).map String.toList
  -- rules
  let mut repo := Repo.empty
  let mut pipes : List ((String × String) × Pipe) := []
  let mut rejected := false
  for s in arrD c "sets" do
    let src ← str s "src"
    let mut cfgs : List RuleCfg := []
    for r in ← arr s "rules" do
      match ← Driver.Repo.parseRule false r with
      | none => rejected := true
      | some rc =>
        cfgs := cfgs ++ [rc]
        pipes := pipes ++ [((src, rc.id), ← parsePipe (fldD r "pipe" (Json.mkObj [])))]
    match repo.apply (.add src cfgs) with
    | none => rejected := true
    | some r' => repo := r'
  if rejected then return Json.mkObj [("res", Json.mkObj [("load", jstr "rejected")])]
  let hasDefault := !(isNull c "default")
  let defaultPipe ← if hasDefault then parsePipe (fldD (← fld c "default") "pipe" (Json.mkObj [])) else pure { authz := [], fins := [] }
  let bodyStr : Option String := match (← fld c "req").getObjVal? "body" with
    | .ok (.str s) => some s
    | _ => none
  let cfg : Cfg := { repo, hasDefault, pipes, defaultPipe, D := parseDecoder c bodyStr,
                     respond := parseRespond (fldD c "respond" (Json.mkObj [])), logLevel := ← parseLevel c,
                     limits := parseLimits c }
  -- the three entry points
  let mut res : List (String × Json) := []
  let mut stats : List (String × Json) := []
  -- `via`: a trusted gateway delegates the decision to the HTTP decision service (`forwardAuth`); the proxy service and
  -- the Envoy gRPC service receive the logical request itself
  let via : Option Gateway ← (if isNull c "via" then pure none else do
    let v ← fld c "via"
    let m : Option Bytes := match v.getObjVal? "method" with
      | .ok (.str s) => some s.toList
      | _ => none
    pure (some { method := m, tls := boolD v "tls" false, path := ← bytes v "path" }))
  if via.isSome && !(originForm lr.rawPath && !lr.target.contains '#') then
    throw "via: the request target is outside the domain on which url.Parse is modelled (origin form, no #)"
  for ep in [EP.decision, EP.envoy, EP.proxy] do
    -- `listen`: the server in front of the handler chain refuses a head that exceeds the read buffer limit (431)
    let wire := match via, ep with
      | some g, .decision => forwardAuth g lr
      | _, _ => lr
    if !reachesChain cfg.limits ep wire then
      res := res ++ [(epName ep, Json.mkObj [("dec", jstr "status-431"), ("status", jnat 431), ("spy", Json.null),
                                              ("up", Json.null)])]
      stats := stats ++ [(epName ep, jstr "head-too-large")]
      continue
    let entry := match via, ep with
      | some g, .decision => mkCtxFwd cfg.D cfg.logLevel g lr
      | _, _ => mkCtx I cfg.D cfg.logLevel pack ep lr
    match entry with
    | none => res := res ++ [(epName ep, Json.mkObj [("dec", jstr "badrequest")])]
    | some e =>
      let o := finalize cfg.respond e.client e.payload ep (execute cfg e.funcs e.ctx)
      res := res ++ [(epName ep, outcomeJson ep spyH spyC e.funcs e.headersMap o)]
      stats := stats ++ [(epName ep, jstr (decStr o.dec))]
  let ck := toCheck pack lr
  res := res ++ [("check", Json.mkObj [
    ("method", jbytes ck.method), ("scheme", jbytes ck.scheme), ("host", jbytes ck.host), ("path", jbytes ck.path),
    ("query", jbytes ck.query), ("headers", jpairs ck.headers)])]
  -- the reference semantics (specification)
  let sp := Spec.serve cfg lr
  let F := Spec.funcs cfg.D lr
  let specJson := Json.mkObj [
    ("wellformed", Json.bool (Spec.wellFormed lr)),
    ("covered", Json.bool (Spec.covered I lr)),
    ("fits", Json.bool (Spec.fits cfg.limits lr && (match via with
      | some g => Spec.fits cfg.limits (forwardAuth g lr)
      | none => true))),
    ("forwardable", Json.bool (Spec.forwardable lr)),
    ("head_bytes", jnat lr.headLength),
    ("single_valued", Json.bool (Spec.singleValued sp)),
    ("delivered", Json.mkObj ([EP.decision, EP.envoy, EP.proxy].map fun ep =>
      (epName ep, deliveredHeaders cfg.respond lr ep sp))),
    ("decision", outcomeJson .decision spyH spyC F (Spec.headersMap lr) (Spec.answer cfg.respond lr .decision sp)),
    ("envoy", outcomeJson .envoy spyH spyC F (Spec.headersMap lr) (Spec.answer cfg.respond lr .envoy sp)),
    ("proxy", outcomeJson .proxy spyH spyC F (Spec.headersMap lr) (Spec.answer cfg.respond lr .proxy sp))]
  return Json.mkObj [("res", Json.mkObj res), ("spec", specJson), ("stats", Json.mkObj stats)]

end Driver.EntryView
