import Driver.Util
import HeimdallModel.Spec.Providers
-- @family prov
/-! Line-protocol family `prov` (C18): histories of rule-set sources against the provider models -/
open Lean Heimdall.Prov

namespace Driver.Providers

def srcName (k : Nat) : String := s!"s{k}"

def rejOf (step : Json) (extra : List Nat) : List String :=
  (((nats step "rej").toOption.getD []) ++ extra).map srcName

def isBad (spec : Json) : Bool := strD spec "st" "" == "valid" && boolD spec "bad" false

def renderCall (name : σ → String) (c : Call σ × Bool) : Json :=
  let res := if c.2 then "ok" else "rejected"
  match c.1 with
  | .created s h => jstrs ["created", name s, s!"v{h}", res]
  | .updated s h => jstrs ["updated", name s, s!"v{h}", res]
  | .deleted s => jstrs ["deleted", name s, "", res]

def sortBy (key : α → String) (l : List α) : List α :=
  (l.toArray.qsort (fun a b => key a < key b)).toList

/-- stable sort by source name (insertion sort keeps the order of the calls of one source) -/
def stableSort (key : α → String) : List α → List α
  | [] => []
  | x :: xs =>
    let rec ins (x : α) : List α → List α
      | [] => [x]
      | y :: ys => if key y ≤ key x then y :: ins x ys else x :: y :: ys
    ins x (stableSort key xs) |> fun l => l
termination_by l => l.length

def renderActive (name : σ → String) [DecidableEq σ] (a : Active σ) : Json :=
  let srcs := (a.map (·.1)).eraseDups
  let rows := srcs.map fun s => (name s, (loaded a s).map fun h => s!"v{h}")
  jarr ((sortBy (·.1) rows).map fun r => jarr [jstr r.1, jstrs r.2])

def renderBook (b : Book String) : Json :=
  jarr ((sortBy (·.1) b).map fun p => jstrs [p.1, if p.2 == 0 then "empty" else s!"v{p.2}"])

/-- the one path expression of content `h`: `h` and `h + 500` (below 500) use the same one (as the harness renders it) -/
def pathOf (h : Nat) : Nat := if h < 1000 then h % 500 else h

/-- every content number of the case stands for a path expression to be looked up after every step -/
partial def versionsOf (j : Json) : List Nat :=
  match j with
  | .obj kvs => kvs.foldl (init := []) fun acc k v =>
      if k == "v" then (match v.getNat? with | .ok n => if n > 0 && n < 1000 then pathOf n :: acc else acc | _ => acc)
      else versionsOf v ++ acc
  | .arr xs => xs.foldl (init := []) fun acc x => versionsOf x ++ acc
  | _ => []

def probesOf (c : Json) : List Nat := ((versionsOf c).eraseDups.toArray.qsort (· < ·)).toList

/-- what `FindRule` answers for each probed expression: the first loaded rule set using it -/
def renderServed (name : σ → String) (a : Active σ) (probes : List Nat) : Json :=
  jarr (probes.filterMap fun p =>
    (a.find? fun x => pathOf x.2 == p).map fun x => jstrs [s!"/c{p}", name x.1, s!"v{x.2}"])

/-- The repository lets one source own a path expression (`WithValuesConstraints` of `newRepository`, C06): `OnCreated` /
`OnUpdated` with a content whose expression is owned by another source is refused.  The provider models take refusals
as input; this derives the refusals of a step from the rule sets loaded before it (exact for steps with one call). -/
def clashes (a : Active String) : Call String → Bool
  | .created s h => a.any fun p => p.1 != s && pathOf p.2 == pathOf h
  | .updated s h => a.any fun p => p.1 != s && pathOf p.2 == pathOf h
  | .deleted _ => false

def repoRej (calls : List String → Trace String) (a : Active String) (rej0 : List String) : List String :=
  rej0 ++ ((calls rej0).filterMap fun c => if c.2 && clashes a c.1 then some c.1.src else none)

def snapshot (probes : List Nat) (st : St String) (calls : Trace String) (err : Option Bool) : Json :=
  Json.mkObj ([("calls", jarr (calls.map (renderCall id))), ("active", renderActive id st.active),
    ("served", renderServed id st.active probes),
    ("book", renderBook st.book)] ++ match err with | some e => [("err", Json.bool e)] | none => [])

/-! SPEC oracle: the content every source has to have loaded, computed from the observations alone -/

abbrev Des := List (String × Option Hash)

def desInit : Des := (List.range 12).map fun k => (srcName k, none)

def desStep (d : Des) (obs : String → Obs) : Des := d.map fun (s, x) => (s, (obs s).next x)

def renderDes (d : Des) : Json :=
  jarr ((sortBy (·.1) d).filterMap fun (s, x) => x.map fun h => jarr [jstr s, jstrs [s!"v{h}"]])

/-! file_system -/

def fileState (spec : Json) : E FileState := do
  match ← str spec "st" with
  | "valid" => pure (.valid (← nat spec "v"))
  | "empty" => pure .empty
  | "invalid" => pure .invalid
  | "dir" => pure .invalid
  | "missing" => pure .missing
  | s => throw s!"unknown file state {s}"

def fsOp (s : String) : E FsOp :=
  match s with
  | "create" => pure .create
  | "write" => pure .write
  | "chmod" => pure .chmod
  | "remove" => pure .remove
  | "rename" => pure .rename
  | _ => throw s!"unknown op {s}"

/-- the notifications fsnotify sends for one file operation (live mode) -/
def liveEvents (step : Json) (rej : List String) : E (List (FsEvent String)) := do
  let k := srcName (← nat step "k")
  let file := fun () => do fileState (← fld step "file")
  match ← str step "do" with
  | "put" => pure [⟨[.create], k, ← file (), rej⟩]
  | "rm" => pure [⟨[.remove], k, .missing, rej⟩]
  | "mv" => pure [⟨[.rename], k, .missing, rej⟩, ⟨[.create], srcName (← nat step "to"), ← file (), rej⟩]
  | "mvout" => pure [⟨[.rename], k, .missing, rej⟩]
  | "chmod" => pure [⟨[.chmod], k, ← file (), rej⟩]
  | "trunc" => pure [⟨[.write], k, .empty, rej⟩]
  | "write" => pure [⟨[.write], k, ← file (), rej⟩]
  | s => throw s!"unknown file operation {s}"

def runFS (c : Json) (live : Bool) : E Json := do
  let init ← (arrD c "init").mapM fun f => do
    pure (← nat f "k", ← fld f "file")
  let init := (init.toArray.qsort (fun a b => a.1 < b.1)).toList
  let probes := probesOf c
  -- directory entries: "link" = symbolic link (state = the one of its target), "dir" without link = sub directory
  let entries ← init.mapM fun (k, spec) => do
    let kind : EntryKind := if boolD spec "link" false then .symlink
      else if strD spec "st" "" == "dir" then .directory else .regular
    pure (srcName k, kind, ← fileState spec)
  let files := fsSources entries
  let startStep := fldD c "start" (Json.mkObj [])
  let startRej := rejOf startStep (init.filterMap fun (k, spec) => if isBad spec then some k else none)
  -- live mode, "during": files replaced (atomically, in this order) while `Start` is inside the first processor call of
  -- its initial load; nothing happens if `Start` makes no call
  let chg ← (if live then arrD c "during" else []).mapM fun f => do
    pure (srcName (← nat f "k"), ← fileState (← fld f "file"))
  let held := if chg.isEmpty then none else fsFirstCall files 0
  let (o0, files) := match held with
    | some h => (fsStartDuring startRej entries h chg, fsReadDuring files h chg)
    | none => (fsStart startRej entries, files)
  let mut st := o0.st
  let mut out : List Json := []
  -- the files `Start` gets to see: up to the first one it fails on
  let mut des := desInit
  let mut seen : St String := St.init
  for (n, f) in files do
    let o := fsCreatedOrUpdated startRej seen n f
    des := desStep des ((fileSystem : Provider String _).obs ⟨[.create], n, f, startRej⟩)
    seen := o.st
    if o.err then break
  -- SPEC after a successful `Start`: every source holds the latest valid content the load was shown, once
  let specStart := renderDes des
  -- ... where files were replaced meanwhile: the latest valid content of the files as they are on disk afterwards (a
  -- provider that notices the changes made during its start may have that loaded instead, source by source)
  let mut disk := desInit
  for (n, f) in fsSources entries do
    disk := desStep disk (fun s => if s == n then f.obs else .noinfo)
  for (n, f) in chg do
    disk := desStep disk (fun s => if s == n then f.obs else .noinfo)
  let specDisk := renderDes disk
  let mut specs : List Json := []
  -- live mode: the watcher is only set up after the initial load succeeded
  let steps := if live && o0.err then [] else arrD c "steps"
  for step in steps do
    if live then
      let bad := if isBad (fldD step "file" (Json.mkObj [])) then
        [(natD step "to" (natD step "k" 0))] else []
      let evs ← liveEvents step (rejOf step bad)
      let mut calls : Trace String := []
      for e0 in evs do
        let e := { e0 with rej := repoRej (fun r => (fsStep st { e0 with rej := r }).calls) st.active e0.rej }
        let o := fsStep st e
        st := o.st
        calls := calls ++ o.calls
        des := desStep des ((fileSystem : Provider String _).obs e)
      out := out ++ [snapshot probes st calls none]
      specs := specs ++ [renderDes des]
    else
      let spec ← fld step "file"
      let k ← nat step "k"
      let ops ← (← strs step "ops").mapM fsOp
      -- a rule set the processor refuses by itself matters only if the file is read
      let reads := ops.contains .create || ops.contains .write || ops.contains .chmod
      let e0 : FsEvent String := ⟨ops, srcName k, ← fileState spec, rejOf step (if isBad spec && reads then [k] else [])⟩
      let e := { e0 with rej := repoRej (fun r => (fsStep st { e0 with rej := r }).calls) st.active e0.rej }
      let o := fsStep st e
      st := o.st
      des := desStep des ((fileSystem : Provider String _).obs e)
      out := out ++ [snapshot probes st o.calls (some o.err)]
      specs := specs ++ [renderDes des]
  return Json.mkObj ([("res", Json.mkObj [("start", snapshot probes o0.st o0.calls (some o0.err)), ("steps", jarr out)]),
    ("spec", jarr specs)] ++ (if o0.err then [] else [("spec_start", specStart)] ++ (if held.isSome then [("spec_start_disk", specDisk)] else [])))

/-! http_endpoint -/

def httpOutcome (spec : Json) : E HttpOutcome := do
  match ← str spec "st" with
  | "valid" => pure (.valid (← nat spec "v"))
  | "empty" => pure .empty
  | "emptyct" => pure .empty
  | "invalid" => pure .invalid
  | "badct" => pure .invalid
  | "status" => pure (.status (← nat spec "code"))
  | "netfail" => pure .network
  | "cancel" => pure .cancelled
  | "cut" =>
    -- an otherwise valid answer (content v) damaged in transport.  "short" / "chunk" / "chunkend": the body ends before
    -- its announced end, wherever that is.  "over": only the first k bytes are announced, the client takes them for the
    -- whole body: nothing (k = 0) or a prefix that is no rule set (the generator only cuts where that is so)
    let v ← nat spec "v"
    match ← str spec "how" with
    | "over" =>
      if strD spec "rel" "" == "" && natD spec "at" 0 == 0 then pure .empty else pure .invalid
    | "short" | "chunk" | "chunkend" => pure (.truncated v)
    | h => throw s!"unknown damage {h}"
  | s => throw s!"unknown response {s}"

def runHTTP (c : Json) : E Json := do
  let mut st : St String := St.init
  let mut out : List Json := []
  let mut des := desInit
  let mut specs : List Json := []
  for step in arrD c "steps" do
    let spec ← fld step "resp"
    let k ← nat step "k"
    let e0 : HttpEvent String := ⟨srcName k, ← httpOutcome spec, rejOf step (if isBad spec then [k] else [])⟩
    let e := { e0 with rej := repoRej (fun r => (httpStep st { e0 with rej := r }).calls) st.active e0.rej }
    let o := httpStep st e
    st := o.st
    des := desStep des ((httpEndpoint : Provider String _).obs e)
    out := out ++ [snapshot (probesOf c) st o.calls none]
    specs := specs ++ [renderDes des]
  return Json.mkObj [("res", Json.mkObj [("steps", jarr out)]), ("spec", jarr specs)]

/-! cloud_blob -/

def blobState (spec : Json) : E (Option BlobState) := do
  match ← str spec "st" with
  | "valid" => if strD spec "ct" "" == "text" then pure (some .invalid) else pure (some (.valid (← nat spec "v")))
  | "empty" => pure (some .empty)
  | "invalid" => pure (some .invalid)
  | "cut" => pure (some (.truncated (← nat spec "v")))      -- the GET of the object breaks off mid-body
  | "absent" => pure none
  | s => throw s!"unknown blob state {s}"

/-- the leading deletions of a poll happen in the iteration order of a Go map: compare them sorted -/
def sortDeletes (calls : Trace String) : Trace String :=
  let isDel : Call String × Bool → Bool := fun c => match c with | (.deleted _, _) => true | _ => false
  let pre := calls.takeWhile isDel
  sortBy (fun c => c.1.src) pre ++ calls.dropWhile isDel

def runBlob (c : Json) : E Json := do
  let single := boolD c "single" false
  let mut st : St String := St.init
  let mut bucket : List (Nat × BlobState × Bool) := []     -- key index, state, bad
  let mut out : List Json := []
  let mut des := desInit
  let mut specs : List Json := []
  for step in arrD c "steps" do
    for m in arrD step "set" do
      let k ← nat m "k"
      let spec ← fld m "blob"
      bucket := bucket.filter (·.1 != k)
      match ← blobState spec with
      | some b => bucket := bucket ++ [(k, b, isBad spec)]
      | none => pure ()
    -- the polled bucket `b` owns the sources 4b .. 4b+3 (blob keys s0 .. s3 below its prefix)
    let b := natD step "b" 0
    let mine := (List.range 4).map fun i => srcName (4 * b + i)
    let listing := ((bucket.filter (·.1 / 4 == b)).toArray.qsort (fun x y => x.1 < y.1)).toList
    let fetch : BlobFetch String :=
      match strD step "fail" "" with
      | "comm" => .comm
      | "netfail" => .comm
      | "cancel" => .cancelled
      | _ =>
        if single then .single (srcName 0) ((listing.find? (·.1 == 0)).map (·.2.1))
        else .listing (listing.map fun (k, b, _) => (srcName k, b))
    -- a rule set the processor refuses by itself matters only if the bucket could be read
    let bad := match fetch with
      | .listing _ => listing.filterMap fun (k, _, b) => if b then some k else none
      | .single _ _ => listing.filterMap fun (k, _, b) => if b && k == 0 then some k else none
      | _ => []
    let e : BlobEvent String := ⟨fun s => mine.contains s, fetch, rejOf step bad⟩
    let o := blobStep st e
    st := o.st
    des := desStep des ((cloudBlob : Provider String _).obs e)
    out := out ++ [snapshot (probesOf c) st (sortDeletes o.calls) none]
    specs := specs ++ [renderDes des]
  return Json.mkObj [("res", Json.mkObj [("steps", jarr out)]), ("spec", jarr specs)]

/-! kubernetes -/

def kObj (k : Nat) (spec : Json) : E (KObj String) := do
  pure ⟨srcName k, natD spec "uid" 0, natD spec "gen" 0, boolD spec "cls" true, ← nat spec "v"⟩

def kName (s : String × Nat) : String := s!"{s.1}u{s.2}"

def kSnapshot (probes : List Nat) (st : KSt String) (calls : Trace (String × Nat)) (sorted : Bool) : Json :=
  let calls := if sorted then stableSort (fun c => kName c.1.src) calls else calls
  Json.mkObj [("calls", jarr (calls.map (renderCall kName))), ("active", renderActive kName st.active),
    ("served", renderServed kName st.active probes), ("panic", Json.bool false)]

def kObjs (l : List Json) : E (List (KObj String) × List Nat) := do
  let l ← l.mapM fun o => do pure (← nat o "k", ← fld o "obj")
  let l := (l.toArray.qsort (fun a b => srcName a.1 < srcName b.1)).toList
  let objs ← l.mapM fun (k, spec) => kObj k spec
  pure (objs, l.filterMap fun (k, spec) => if boolD spec "bad" false then some k else none)

def runK8s (c : Json) : E Json := do
  let (init, bad0) ← kObjs (arrD c "init")
  let o0 := kStep (rejOf (fldD c "start" (Json.mkObj [])) bad0) ⟨[], []⟩ (.relist init)
  let mut st := o0.st
  let mut out : List Json := []
  for step in arrD c "steps" do
    let ev ← str step "ev"
    if ev == "relist" then
      let (objs, bad) ← kObjs (arrD step "objs")
      let o := kStep (rejOf step bad) st (.relist objs)
      st := o.st
      out := out ++ [kSnapshot (probesOf c) st o.calls true]
    else
      let k ← nat step "k"
      let spec ← fld step "obj"
      let obj ← kObj k spec
      let e : KEvent String ← match ev with
        | "add" => pure (.added obj)
        | "mod" => pure (.modified obj)
        | "del" => pure (.deleted obj)
        | s => throw s!"unknown event {s}"
      -- rules the processor refuses by themselves matter only where the rules are loaded
      let o := kStep (rejOf step (if boolD spec "bad" false && ev != "del" then [k] else [])) st e
      st := o.st
      out := out ++ [kSnapshot (probesOf c) st o.calls false]
  return Json.mkObj [("res", Json.mkObj [("start", kSnapshot (probesOf c) o0.st o0.calls true), ("steps", jarr out)])]

def run (c : Json) : E Json := do
  match ← str c "kind" with
  | "fs" => runFS c false
  | "fslive" => runFS c true
  | "http" => runHTTP c
  | "blob" => runBlob c
  | "k8s" => runK8s c
  | k => throw s!"unknown provider kind {k}"

end Driver.Providers
