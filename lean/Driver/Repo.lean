import Driver.Util
import HeimdallModel.Model.Repo
import HeimdallModel.Spec.Lookup
-- @family repo
/-! Line-protocol family `repo`: rule-set histories and lookups against the repository model -/
open Lean Heimdall

namespace Driver.Repo

/-- JSON strings arrive as UTF-8; the model works on octets, one `Char` per byte (as the Go code does) -/
def bytesOf (s : String) : String := String.ofList (s.toUTF8.toList.map fun b => Char.ofNat b.toNat)

def hexDigit (n : Nat) : Char := if n < 10 then Char.ofNat (48 + n) else Char.ofNat (87 + n)

/-- what is printed for a byte string: the text itself if it is ASCII, `hex:…` otherwise (the harness does the same) -/
def outStr (s : String) : String :=
  if s.toList.all (·.toNat < 128) then s
  else "hex:" ++ String.ofList (s.toList.flatMap fun c => [hexDigit (c.toNat / 16 % 16), hexDigit (c.toNat % 16)])

def globMeta (c : Char) : Bool := c == '{' || c == '}' || c == '[' || c == ']' || c == '!'

def parseGlob : List Char → E (List GTok)
  | [] => pure []
  | '\\' :: c :: rest => do pure (.lit c :: (← parseGlob rest))
  | '*' :: '*' :: rest => do pure (.dstar :: (← parseGlob rest))
  | '*' :: rest => do pure (.star :: (← parseGlob rest))
  | '?' :: rest => do pure (.any1 :: (← parseGlob rest))
  | c :: rest => do
    if globMeta c || c == '\\' then throw "glob outside the modelled fragment"
    pure (.lit c :: (← parseGlob rest))

def regexMeta (c : Char) : Bool := "*+?()[]{}|^$".toList.contains c

def parseAtoms : List Char → E (List RAtom)
  | [] => pure []
  | '\\' :: c :: rest => do
    if c.isAlphanum then throw "regex outside the modelled fragment"
    pure (.lit c :: (← parseAtoms rest))
  | '.' :: rest => do pure (.dot :: (← parseAtoms rest))
  | c :: rest => do
    if regexMeta c || c == '\\' then throw "regex outside the modelled fragment"
    pure (.lit c :: (← parseAtoms rest))

def parseTM (sep : Char) (j : Json) : E TM := do
  let ty ← str j "type"
  let v := bytesOf (← str j "value")
  match ty with
  | "exact" => pure (.exact v)
  | "glob" => pure (.glob (← parseGlob v.toList) sep)
  | "regex" =>
    let cs := v.toList
    let aS := cs.head? == some '^'
    let cs := if aS then cs.drop 1 else cs
    let aE := cs.getLast? == some '$' && (cs.dropLast.getLast? != some '\\')
    let cs := if aE then cs.dropLast else cs
    pure (.regex (← parseAtoms cs) aS aE)
  | _ => throw "bad matcher type"

def parseEsh (s : String) : SlashHandling :=
  if s == "on" then .on else if s == "no_decode" then .noDecode else .off

/-- `forward_to` of a rule: host and the optional `rewrite` -/
def parseBackend (j : Json) : Option BackendCfg :=
  match j.getObjVal? "forward_to" with
  | .ok fw@(.obj _) =>
    let rw : Option RewriteCfg := match fw.getObjVal? "rewrite" with
      | .ok r@(.obj _) =>
        some { scheme := bytesOf (strD r "scheme" ""),
               strip := bytesOf (strD r "strip" ""),
               add := bytesOf (strD r "add" ""),
               stripQ := ((strs r "strip_query").toOption.getD []).map bytesOf }
      | _ => none
    some { host := bytesOf (strD fw "host" ""), rewrite := rw }
  | _ => none

def parseRule (drBt : Bool) (j : Json) : E (Option RuleCfg) := do
  let esh := parseEsh (strD j "esh" "")
  let bt := match j.getObjVal? "bt" with
    | .ok (.bool b) => b
    | _ => drBt
  let hosts ← (arrD j "hosts").mapM (parseTM '.')
  match mkMethods ((strs j "methods").toOption.getD []) with
  | none => pure none
  | some methods =>
    let routes ← (← arr j "routes").mapM fun r => do
      let pps ← (arrD r "pp").mapM fun p => do pure (bytesOf (← str p "name"), ← parseTM '/' p)
      pure (bytesOf (← str r "path"), ({ scheme := strD j "scheme" "", methods, hosts, pps, esh } : RouteM))
    pure (some { id := ← str j "id", bt, esh, routes, ver := natD j "ver" 0, backend := parseBackend j })

def splitTarget (t : String) : String × String :=
  let cs := t.toList
  (String.ofList (cs.takeWhile (· ≠ '?')), String.ofList ((cs.dropWhile (· ≠ '?')).drop 1))

def upJson (u : UpUrl) : Json :=
  Json.mkObj [("scheme", jstr (outStr u.scheme)), ("host", jstr (outStr u.host)), ("path", jstr (outStr u.path)),
    ("query", jstr (outStr u.query))]

/-- answer to one lookup; second component: 0 = no rule, 1 = default rule, 2 = regular rule -/
def answer (s : Repo) (hasDr : Bool) (q : ReqView) (rawQuery : String) (proxy : Bool := false) : Json × Nat :=
  let sv := s.serve hasDr q
  match sv.rule, sv.exec with
  | some (src, rid), some ex =>
    let kind := if src == "config" then 1 else 2
    match ex with
    | .argument => (Json.mkObj [("rule", jstr (src ++ "/" ++ rid)), ("exec", jstr "argument")], kind)
    | .ok caps =>
      let ver := match s.findRule hasDr q with
        | .rule v _ => v.ver
        | _ => 0
      let caps' := sortPairs (caps.map fun kv => (outStr kv.1, outStr kv.2))
      (Json.mkObj ([("rule", jstr (src ++ "/" ++ rid)), ("exec", jstr "ok"),
        ("caps", jarr (caps'.map fun kv => jstrs [kv.1, kv.2]))]
        ++ (if ver > 0 then [("ver", jstr (toString ver))] else [])
        ++ (match s.upstream hasDr q rawQuery with
            | some u => [("up", upJson u)]
            | none => [])
        -- the request target the proxy service writes to the upstream connection (cases carrying `"proxy": true`)
        ++ (match (if proxy then s.sent hasDr q rawQuery else none) with
            | some t => [("sent", jstr (outStr t))]
            | none => [])), kind)
  | _, _ => (Json.mkObj [("rule", Json.null), ("err", jstr "norule")], 0)

/-- the request views of a lookup operation: through the request context of the HTTP based services (`none`: the
request line is not accepted) and through the one of the Envoy ext_authz service; and the raw query -/
def viewsOf (op : Json) : E (Option ReqView × ReqView × String) := do
  let (received, query) := splitTarget (bytesOf (← str op "target"))
  let method ← str op "method"
  let scheme := strD op "scheme" "http"
  let scheme := if scheme.isEmpty then "http" else scheme
  let host := bytesOf (← str op "host")
  let ev := envoyViewPath received
  pure ((httpViewPath received).map fun v => { method, scheme, host, rawPath := v.1, path := v.2 },
        { method, scheme, host, rawPath := ev.1, path := ev.2 }, query)

/-- the answer through the second request context is reported for cases asking for it (`"envoy": true`) -/
def withEnvoy (both : Bool) (j e : Json) : Json := if both then j.setObjVal! "envoy" e else j

def changeOf (drBt : Bool) (k : String) (op : Json) : E (Option RepoOp) := do
  let src ← str op "src"
  if k == "del" then pure (some (RepoOp.del src)) else
  let rules ← (← arr op "rules").mapM (parseRule drBt)
  if rules.any (·.isNone) then pure none else
  let rs := rules.filterMap id
  pure (some (if k == "add" then RepoOp.add src rs else RepoOp.upd src rs))

def run (c : Json) : E Json := do
  let hasDr := boolD c "dr" false
  let drBt := hasDr && boolD c "dr_bt" false
  let both := boolD c "envoy" false
  let proxy := boolD c "proxy" false
  let mut s := Repo.empty
  let mut out : List Json := []
  let mut multi := 0
  let mut matched := 0
  let mut dflt := 0
  let mut fwd := 0
  for op in ← arr c "ops" do
    let k ← str op "op"
    if k == "find" then
      let (hq, eq, query) ← viewsOf op
      let (je, _) := answer s hasDr eq query
      match hq with
      | none => out := out ++ [withEnvoy both (Json.mkObj [("badrequest", Json.bool true)]) je]
      | some q =>
        if (cands s.index (tokenize (lookupPath q)) []).length ≥ 2 then multi := multi + 1
        let (j, kind) := answer s hasDr q query proxy
        if kind == 1 then dflt := dflt + 1
        if kind == 2 then matched := matched + 1
        if (s.upstream hasDr q query).isSome then fwd := fwd + 1
        out := out ++ [withEnvoy both j je]
    else
      match ← changeOf drBt k op with
      | none => out := out ++ [jstr "configuration"]
      | some o =>
        out := out ++ [jstr (if (s.apply o).isSome then "ok" else "internal")]
        s := s.step o
  return Json.mkObj [("res", jarr out), ("stats", Json.mkObj [("multi", jnat multi), ("matched", jnat matched),
    ("default", jnat dflt), ("forwarded", jnat fwd)])]

end Driver.Repo
