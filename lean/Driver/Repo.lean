import Driver.Util
import HeimdallModel.Model.Repo
import HeimdallModel.Spec.Lookup
-- @family repo
/-! Line-protocol family `repo`: rule-set histories and lookups against the repository model -/
open Lean Heimdall

namespace Driver.Repo

/-- JSON strings arrive as UTF-8; the model works on octets, one `Char` per byte (as the Go code does) -/
def bytesOf (s : String) : String := String.ofList (s.toUTF8.toList.map fun b => Char.ofNat b.toNat)

def hexDigit (n : Nat) : Char := if n < 10 then Char.ofNat (48 + n) else Char.ofNat (87 + n)

/-- what is printed for a byte string: the text itself if it is ASCII, `hex:…` otherwise (the harness does the same) -/
def outStr (s : String) : String :=
  if s.toList.all (·.toNat < 128) then s
  else "hex:" ++ String.ofList (s.toList.flatMap fun c => [hexDigit (c.toNat / 16 % 16), hexDigit (c.toNat % 16)])

def globMeta (c : Char) : Bool := c == '{' || c == '}' || c == '[' || c == ']' || c == '!'

def parseGlob : List Char → E (List GTok)
  | [] => pure []
  | '\\' :: c :: rest => do pure (.lit c :: (← parseGlob rest))
  | '*' :: '*' :: rest => do pure (.dstar :: (← parseGlob rest))
  | '*' :: rest => do pure (.star :: (← parseGlob rest))
  | '?' :: rest => do pure (.any1 :: (← parseGlob rest))
  | c :: rest => do
    if globMeta c || c == '\\' then throw "glob outside the modelled fragment"
    pure (.lit c :: (← parseGlob rest))

def regexMeta (c : Char) : Bool := "*+?()[]{}|^$".toList.contains c

def parseAtoms : List Char → E (List RAtom)
  | [] => pure []
  | '\\' :: c :: rest => do
    if c.isAlphanum then throw "regex outside the modelled fragment"
    pure (.lit c :: (← parseAtoms rest))
  | '.' :: rest => do pure (.dot :: (← parseAtoms rest))
  | c :: rest => do
    if regexMeta c || c == '\\' then throw "regex outside the modelled fragment"
    pure (.lit c :: (← parseAtoms rest))

def parseTM (sep : Char) (j : Json) : E TM := do
  let ty ← str j "type"
  let v := bytesOf (← str j "value")
  match ty with
  | "exact" => pure (.exact v)
  | "glob" => pure (.glob (← parseGlob v.toList) sep)
  | "regex" =>
    let cs := v.toList
    let aS := cs.head? == some '^'
    let cs := if aS then cs.drop 1 else cs
    let aE := cs.getLast? == some '$' && (cs.dropLast.getLast? != some '\\')
    let cs := if aE then cs.dropLast else cs
    pure (.regex (← parseAtoms cs) aS aE)
  | _ => throw "bad matcher type"

def parseEsh (s : String) : SlashHandling :=
  if s == "on" then .on else if s == "no_decode" then .noDecode else .off

def parseRule (drBt : Bool) (j : Json) : E (Option RuleCfg) := do
  let esh := parseEsh (strD j "esh" "")
  let bt := match j.getObjVal? "bt" with
    | .ok (.bool b) => b
    | _ => drBt
  let hosts ← (arrD j "hosts").mapM (parseTM '.')
  match mkMethods ((strs j "methods").toOption.getD []) with
  | none => pure none
  | some methods =>
    let routes ← (← arr j "routes").mapM fun r => do
      let pps ← (arrD r "pp").mapM fun p => do pure (bytesOf (← str p "name"), ← parseTM '/' p)
      pure (bytesOf (← str r "path"), ({ scheme := strD j "scheme" "", methods, hosts, pps, esh } : RouteM))
    pure (some { id := ← str j "id", bt, esh, routes, ver := natD j "ver" 0 })

def splitTarget (t : String) : String × String :=
  let cs := t.toList
  (String.ofList (cs.takeWhile (· ≠ '?')), String.ofList ((cs.dropWhile (· ≠ '?')).drop 1))

/-- answer to one lookup; second component: 0 = no rule, 1 = default rule, 2 = regular rule -/
def answer (s : Repo) (hasDr : Bool) (q : ReqView) : Json × Nat :=
  let sv := s.serve hasDr q
  match sv.rule, sv.exec with
  | some (src, rid), some ex =>
    let kind := if src == "config" then 1 else 2
    match ex with
    | .argument => (Json.mkObj [("rule", jstr (src ++ "/" ++ rid)), ("exec", jstr "argument")], kind)
    | .ok caps =>
      let ver := match s.findRule hasDr q with
        | .rule v _ => v.ver
        | _ => 0
      let caps' := sortPairs (caps.map fun kv => (outStr kv.1, outStr kv.2))
      (Json.mkObj ([("rule", jstr (src ++ "/" ++ rid)), ("exec", jstr "ok"),
        ("caps", jarr (caps'.map fun kv => jstrs [kv.1, kv.2]))]
        ++ (if ver > 0 then [("ver", jstr (toString ver))] else [])), kind)
  | _, _ => (Json.mkObj [("rule", Json.null), ("err", jstr "norule")], 0)

/-- the request view of a lookup operation (`none`: the request line is not accepted) -/
def viewOf (op : Json) : E (Option ReqView) := do
  let (received, _) := splitTarget (bytesOf (← str op "target"))
  -- the request context spells the received path with the octets a path may not contain percent-encoded
  let rawPath := receivedPath received
  match (pathUnescape received).bind fun _ => pathUnescape rawPath with
  | none => pure none
  | some path =>
    pure (some { method := ← str op "method", scheme := strD op "scheme" "http", host := bytesOf (← str op "host"),
                 rawPath, path })

def changeOf (drBt : Bool) (k : String) (op : Json) : E (Option RepoOp) := do
  let src ← str op "src"
  if k == "del" then pure (some (RepoOp.del src)) else
  let rules ← (← arr op "rules").mapM (parseRule drBt)
  if rules.any (·.isNone) then pure none else
  let rs := rules.filterMap id
  pure (some (if k == "add" then RepoOp.add src rs else RepoOp.upd src rs))

def run (c : Json) : E Json := do
  let hasDr := boolD c "dr" false
  let drBt := hasDr && boolD c "dr_bt" false
  let mut s := Repo.empty
  let mut out : List Json := []
  let mut multi := 0
  let mut matched := 0
  let mut dflt := 0
  for op in ← arr c "ops" do
    let k ← str op "op"
    if k == "find" then
      match ← viewOf op with
      | none => out := out ++ [Json.mkObj [("badrequest", Json.bool true)]]
      | some q =>
        if (cands s.index (tokenize (lookupPath q)) []).length ≥ 2 then multi := multi + 1
        let (j, kind) := answer s hasDr q
        if kind == 1 then dflt := dflt + 1
        if kind == 2 then matched := matched + 1
        out := out ++ [j]
    else
      match ← changeOf drBt k op with
      | none => out := out ++ [jstr "configuration"]
      | some o =>
        out := out ++ [jstr (if (s.apply o).isSome then "ok" else "internal")]
        s := s.step o
  return Json.mkObj [("res", jarr out), ("stats", Json.mkObj [("multi", jnat multi), ("matched", jnat matched),
    ("default", jnat dflt)])]

end Driver.Repo
