import Driver.Util
import HeimdallModel.Model.Repo
import HeimdallModel.Spec.Lookup
-- @family repo
/-! Line-protocol family `repo`: rule-set histories and lookups against the repository model -/
open Lean Heimdall

namespace Driver.Repo

def parseTM (sep : Char) (j : Json) : E TM := do
  let ty ← str j "type"
  let v ← str j "value"
  match ty with
  | "exact" => pure (.exact v)
  | "glob" =>
    if v.toList.getLast? == some '*' then pure (.globPrefix (String.ofList v.toList.dropLast) sep)
    else throw "glob outside the modelled shape"
  | "regex" =>
    if v.toList.head? == some '^' then pure (.regexPrefix (String.ofList (v.toList.drop 1)))
    else throw "regex outside the modelled shape"
  | _ => throw "bad matcher type"

def parseEsh (s : String) : SlashHandling :=
  if s == "on" then .on else if s == "no_decode" then .noDecode else .off

def parseRule (drBt : Bool) (j : Json) : E (Option RuleCfg) := do
  let esh := parseEsh (strD j "esh" "")
  let bt := match j.getObjVal? "bt" with
    | .ok (.bool b) => b
    | _ => drBt
  let hosts ← (arrD j "hosts").mapM (parseTM '.')
  match mkMethods ((strs j "methods").toOption.getD []) with
  | none => pure none
  | some methods =>
    let routes ← (← arr j "routes").mapM fun r => do
      let pps ← (arrD r "pp").mapM fun p => do pure (← str p "name", ← parseTM '/' p)
      pure (← str r "path", ({ scheme := strD j "scheme" "", methods, hosts, pps, esh } : RouteM))
    pure (some { id := ← str j "id", bt, esh, routes })

def splitTarget (t : String) : String × String :=
  let cs := t.toList
  (String.ofList (cs.takeWhile (· ≠ '?')), String.ofList ((cs.dropWhile (· ≠ '?')).drop 1))

def lastWins (ps : List (String × String)) : List (String × String) :=
  ps.foldl (fun acc kv => (acc.filter (fun a => a.1 != kv.1)) ++ [kv]) []

def run (c : Json) : E Json := do
  let hasDr := boolD c "dr" false
  let drBt := hasDr && boolD c "dr_bt" false
  let mut s := Repo.empty
  let mut out : List Json := []
  let mut multi := 0
  let mut matched := 0
  let mut dflt := 0
  for op in ← arr c "ops" do
    let k ← str op "op"
    if k == "find" then
      let (rawPath, _) := splitTarget (← str op "target")
      match pathUnescape rawPath with
      | none => out := out ++ [Json.mkObj [("badrequest", Json.bool true)]]
      | some path =>
        let q : ReqView := { method := ← str op "method", scheme := "http", host := ← str op "host", rawPath, path }
        if (cands s.index (tokenize (lookupPath q)) []).length ≥ 2 then multi := multi + 1
        match s.findRule hasDr q with
        | .none => out := out ++ [Json.mkObj [("rule", Json.null), ("err", jstr "norule")]]
        | .default =>
          dflt := dflt + 1
          if containsEncodedSlash rawPath then
            out := out ++ [Json.mkObj [("rule", jstr "config/default"), ("exec", jstr "argument")]]
          else
            out := out ++ [Json.mkObj [("rule", jstr "config/default"), ("exec", jstr "ok"), ("caps", jarr [])]]
        | .rule v ps =>
          matched := matched + 1
          let name := v.src ++ "/" ++ v.rid
          if v.esh = .off && containsEncodedSlash rawPath then
            out := out ++ [Json.mkObj [("rule", jstr name), ("exec", jstr "argument")]]
          else
            let caps := (sortPairs (lastWins ps)).map fun kv => jstrs [kv.1, unescapeCapture v.esh kv.2]
            out := out ++ [Json.mkObj [("rule", jstr name), ("exec", jstr "ok"), ("caps", jarr caps)]]
    else
      let src ← str op "src"
      let res ← (do
        if k == "del" then pure (s.deleteRuleSet src) else
        let rules ← (← arr op "rules").mapM (parseRule drBt)
        if rules.any (·.isNone) then pure none else
        let rs := rules.filterMap id
        pure (if k == "add" then s.addRuleSet src rs else s.updateRuleSet src rs))
      match res with
      | some s' => s := s'; out := out ++ [jstr "ok"]
      | none => out := out ++ [jstr "internal"]
  return Json.mkObj [("res", jarr out), ("stats", Json.mkObj [("multi", jnat multi), ("matched", jnat matched),
    ("default", jnat dflt)])]

end Driver.Repo
