import Driver.Util
import HeimdallModel.Spec.Jwt
-- @family jwt
/-! Line-protocol family `jwt` (property C05): the case as generated plus the abstract view `abs` of the minted
token (computed by the harness with the Go standard library only) → verdict of `Jwt.authenticate` (the function the
theorems of `Props/C05.lean` are about) and of the executable specification `Jwt.Spec.authenticate`. -/
open Lean Heimdall Heimdall.Jwt

namespace Driver.Jwt

partial def toVal : Json → Val
  | .null => .null
  | .bool b => .bool b
  | .num n => .num n.mantissa n.exponent
  | .str s => .str s
  | .arr a => .arr (a.toList.map toVal)
  | .obj o => .obj (o.toList.map fun (k, v) => (k, toVal v))

partial def ofVal : Val → Json
  | .null => .null
  | .bool b => .bool b
  | .num m e => .num ⟨m, e⟩
  | .str s => .str s
  | .arr l => Json.arr (l.map ofVal).toArray
  | .obj kvs => Json.mkObj (kvs.map fun (k, v) => (k, ofVal v))

def path (s : String) : List Seg := (s.splitOn ".").map fun k => { key := k, idx := k.toNat? }

def leeway (j : Json) : E Int :=
  match j.getObjVal? "validity_leeway" with
  | .ok (.str s) =>
    match (s.dropEnd 2).toString.toInt? with
    | some n => if s.endsWith "ms" then pure n else throw s!"leeway {s}"
    | none => throw s!"leeway {s}"
  | _ => pure 0

def scopes (j : Json) : E (Option ScopesMatcher) :=
  match j.getObjVal? "scopes" with
  | .ok (.arr a) => do pure (some ⟨.exact, ← a.toList.mapM (·.getStr?)⟩)
  | .ok (.obj o) => do
    let j := Json.obj o
    let st ← match strD j "matching_strategy" "exact" with
      | "exact" => pure Strategy.exact
      | "hierarchic" => pure Strategy.hierarchic
      | "wildcard" => pure Strategy.wildcard
      | s => throw s!"strategy {s}"
    pure (some ⟨st, ← strs j "values"⟩)
  | _ => pure none

def strsD (j : Json) (k : String) : E (List String) :=
  if isNull j k then pure [] else strs j k

def expectation (j : Json) : E Expectation := do
  pure { issuers := ← strsD j "issuers", scopes := ← scopes j, audiences := ← strsD j "audience",
         algs := ← strsD j "allowed_algorithms", leeway := ← leeway j }

def config (c : Json) : E Config := do
  let cc := fldD c "conf" (Json.mkObj [])
  let a ← if isNull cc "assertions" then pure ({} : Expectation) else expectation (← fld cc "assertions")
  let sj := fldD cc "subject" Json.null
  let idp := strD sj "id" "sub"
  let attrs := if isNull sj "attributes" then none else some (path (strD sj "attributes" ""))
  pure { jwksMode := strD c "mode" "jwks" != "metadata", assertions := a,
         subject := { idPath := path idp, attrsPath := attrs },
         validateJwk := boolD cc "validate_jwk" true }

def key (trust : Bool) (j : Json) : E Key := do
  let cert := match strD j "cert" "none" with
    | "none" => Cert.none
    | "valid" => if trust then Cert.trusted else Cert.untrusted
    | _ => Cert.untrusted
  pure { kid := strD j "kid" "", alg := strD j "alg" "", mat := ← nat j "mat", cert := cert,
         usable := strD j "form" "public" != "private" }

/-- `ServerMetadata.verify` for a metadata URL `<srv>/.well-known/openid-configuration` -/
def issuerIdentifies (issuer srv : String) : Bool := issuer == srv || issuer == srv ++ "/"

def world (c : Json) : E World := do
  let cc := fldD c "conf" (Json.mkObj [])
  let trust := boolD cc "trust_store" false
  let jw := fldD c "jwks" (Json.mkObj [])
  let jwks ← if strD jw "status" "ok" == "ok" then (do pure (some (← (arrD jw "keys").mapM (key trust)))) else pure none
  let m := fldD c "meta" Json.null
  let md : Option Metadata :=
    match strD m "status" "ok" with
    | "ok" => if boolD m "verify" false && !issuerIdentifies (strD m "issuer" "") (strD c "srv" "$SRV") then none
              else some { issuer := strD m "issuer" "", hasJwks := true }
    | "nojwks" => if boolD m "verify" false && !issuerIdentifies (strD m "issuer" "") (strD c "srv" "$SRV") then none
                  else some { issuer := strD m "issuer" "", hasJwks := false }
    | _ => none
  pure { metadata := md, jwks := jwks }

def presented (a : Json) : E Presented := do
  if !boolD a "present" false then return .absent
  if !boolD a "wf" false then return .garbage
  let sig := (arrD a "sig").map fun j => j.getBool?.toOption.getD false
  let payload := if boolD a "payload_json" false then some (toVal (fldD a "payload" Json.null)) else none
  pure (.token { alg := strD a "alg" "", kid := strD a "kid" "", critOk := !boolD a "crit_bad" false,
                 payload := payload, sigOk := fun m => sig[m]?.getD false })

def whyName (w : Why) : String := (reprStr w).replace "Heimdall.Jwt.Why." ""

def verdict : Verdict → Json
  | .subject id attrs => Json.mkObj [("verdict", "accept"), ("id", jstr id), ("attrs", ofVal attrs)]
  | .refused => Json.mkObj [("verdict", "reject")]
  | .noAuthenticator => Json.mkObj [("verdict", "config")]
  | .unmodelled => Json.mkObj [("verdict", "unmodelled")]

def why : Outcome → String
  | .accepted _ _ => "accepted"
  | .rejected w => whyName w
  | .noAuthenticator => "config"
  | .unmodelled => "unmodelled"

def run (c : Json) : E Json := do
  let a ← fld c "abs"
  let cfg ← config c
  let rule ← if isNull c "rule" then pure none
             else (do
               let r ← fld c "rule"
               if isNull r "assertions" then pure (some ({} : Expectation))
               else pure (some (← expectation (← fld r "assertions"))))
  let w ← world c
  let p ← presented a
  let now ← int a "now"
  let lo := authenticate cfg rule w p (now * 1000)
  let hi := authenticate cfg rule w p (now * 1000 + 999)
  let slo := Spec.authenticate cfg rule w p (now * 1000)
  let shi := Spec.authenticate cfg rule w p (now * 1000 + 999)
  let jl := verdict lo.verdict
  let jh := verdict hi.verdict
  let sl := verdict slo
  let sh := verdict shi
  let wl := why lo
  let amb := jl.compress != jh.compress || sl.compress != sh.compress
  let unmod := boolD a "unmodelled_header" false
  let res := if amb then Json.mkObj [("verdict", "ambiguous")] else if unmod then Json.mkObj [("verdict", "unmodelled")] else jl
  let spec := if amb then Json.mkObj [("verdict", "ambiguous")] else if unmod then Json.mkObj [("verdict", "unmodelled")] else sl
  return Json.mkObj [("res", res), ("spec", spec), ("stats", Json.mkObj [("why", jstr wl)])]

end Driver.Jwt
