import Driver.Util
import HeimdallModel.Spec.Jwt
import HeimdallModel.Model.JwtProcess
-- @family jwt
/-! Line-protocol family `jwt` (property C05): the case as generated plus, per request, the abstract view `abs` of
the minted token (computed by the harness with the Go standard library only) → verdicts of `Jwt.run` (the functions
the theorems of `Props/C05.lean` are about) and of the executable specification `Jwt.Spec.authenticate`, the latter
against the key-set endpoint as it answered at each moment up to the request (`c05_history_sound`). -/
open Lean Heimdall Heimdall.Jwt

namespace Driver.Jwt

partial def toVal : Json → Val
  | .null => .null
  | .bool b => .bool b
  | .num n => .num n.mantissa n.exponent
  | .str s => .str s
  | .arr a => .arr (a.toList.map toVal)
  | .obj o => .obj (o.toList.map fun (k, v) => (k, toVal v))

partial def ofVal : Val → Json
  | .null => .null
  | .bool b => .bool b
  | .num m e => .num ⟨m, e⟩
  | .str s => .str s
  | .arr l => Json.arr (l.map ofVal).toArray
  | .obj kvs => Json.mkObj (kvs.map fun (k, v) => (k, ofVal v))

def hexDigit (n : Nat) : Char := if n < 10 then Char.ofNat (48 + n) else Char.ofNat (87 + n)

/-- the UTF-8 octets of a string in hexadecimal: what is compared with the octets of the implementation's strings -/
def hexOf (s : String) : String :=
  s.toUTF8.foldl (fun acc b => (acc.push (hexDigit (b.toNat / 16))).push (hexDigit (b.toNat % 16))) ""

/-- a value with every string spelled as its octets (member names: hex, string values: `s:` + hex) -/
partial def ofValHex : Val → Json
  | .null => .null
  | .bool b => .bool b
  | .num m e => .num ⟨m, e⟩
  | .str s => .str ("s:" ++ hexOf s)
  | .arr l => Json.arr (l.map ofValHex).toArray
  | .obj kvs => Json.mkObj (kvs.map fun (k, v) => (hexOf k, ofValHex v))

/-- gjson syntax the model does not cover -/
def specialPath (s : String) : Bool :=
  s.toList.any fun c => "*?#|@\\!{}[]:,<>=%~\"'()".toList.contains c

def path (s : String) : List Seg := (s.splitOn ".").map fun k => { key := k, idx := k.toNat? }

/-- a Go duration of the form `<int><unit>`, in milliseconds -/
def duration (s : String) : Option Int :=
  let num (n : Nat) : Option Int := (s.dropEnd n).toString.toInt?
  if s.endsWith "ms" then num 2
  else if s.endsWith "s" then (num 1).map (· * 1000)
  else if s.endsWith "m" then (num 1).map (· * 60000)
  else if s.endsWith "h" then (num 1).map (· * 3600000)
  else none

def leeway (j : Json) : E Int :=
  match j.getObjVal? "validity_leeway" with
  | .ok (.str s) =>
    match duration s with
    | some n => pure n
    | none => throw s!"leeway {s}"
  | _ => pure 0

def scopes (j : Json) : E (Option ScopesMatcher) :=
  match j.getObjVal? "scopes" with
  | .ok (.arr a) => do pure (some ⟨.exact, ← a.toList.mapM (·.getStr?)⟩)
  | .ok (.obj o) => do
    let j := Json.obj o
    let st ← match strD j "matching_strategy" "exact" with
      | "exact" => pure Strategy.exact
      | "hierarchic" => pure Strategy.hierarchic
      | "wildcard" => pure Strategy.wildcard
      | s => throw s!"strategy {s}"
    pure (some ⟨st, ← strs j "values"⟩)
  | _ => pure none

def strsD (j : Json) (k : String) : E (List String) :=
  if isNull j k then pure [] else strs j k

def expectation (j : Json) : E Expectation := do
  pure { issuers := ← strsD j "issuers", scopes := ← scopes j, audiences := ← strsD j "audience",
         algs := ← strsD j "allowed_algorithms", leeway := ← leeway j }

/-- `isCacheEnabled` for a `cache_ttl` setting: not configured, or positive -/
def ttlEnabled (j : Json) : Option Bool :=
  match j.getObjVal? "cache_ttl" with
  | .ok (.str s) => (duration s).map (· > 0)
  | _ => none

def config (c : Json) : E (Config × Bool) := do
  let cc := fldD c "conf" (Json.mkObj [])
  let a ← if isNull cc "assertions" then pure ({} : Expectation) else expectation (← fld cc "assertions")
  let sj := fldD cc "subject" Json.null
  let idp := strD sj "id" "sub"
  let ap := if isNull sj "attributes" then none else some (strD sj "attributes" "")
  let attrs := match ap with
    | none => none
    | some "@this" => none
    | some p => some (path p)
  let special := specialPath idp || (match ap with | some "@this" => false | some p => specialPath p | none => false)
  let rule := fldD c "rule" Json.null
  let enabled := ((ttlEnabled rule).orElse fun _ => ttlEnabled cc).getD true
  pure ({ jwksMode := strD c "mode" "jwks" != "metadata", templated := boolD cc "templated" false, assertions := a,
          subject := { idPath := path idp, attrsPath := attrs },
          validateJwk := boolD cc "validate_jwk" true, cacheEnabled := enabled }, special)

def key (trust : Bool) (j : Json) : E Key := do
  if !isNull j "raw" then
    -- a key go-jose accepts but which is none of the pool's materials
    return { kid := strD j "kid" "", alg := strD j "alg" "", mat := 99 }
  let fl := strD j "cert" "none"
  let cert := match fl with
    | "none" => Cert.none
    | "valid" => if trust then Cert.trusted else Cert.untrusted
    | "chain" => if trust then Cert.trusted else Cert.untrusted
    | _ => Cert.untrusted
  pure { kid := strD j "kid" "", alg := strD j "alg" "", mat := ← nat j "mat", cert := cert,
         certExpiring := fl == "expired", usable := strD j "form" "public" != "private" }

def keySet (trust : Bool) (jw : Json) : E (Option (List Key)) := do
  if strD jw "status" "ok" != "ok" then return none
  let ks := arrD jw "keys"
  if ks.any (fun k => strD k "effect" "" == "undecodable") then return none
  pure (some (← ks.mapM (key trust)))

def issuerIdentifies (issuer srv : String) : Bool := issuer == srv || issuer == srv ++ "/"

def metadataOf (c : Json) : Option Metadata :=
  let m := fldD c "meta" Json.null
  let verified := !boolD m "verify" false || issuerIdentifies (strD m "issuer" "") (strD c "srv" "$SRV")
  match strD m "status" "ok" with
  | "ok" => if verified then some { issuer := strD m "issuer" "", hasJwks := true } else none
  | "nojwks" => if verified then some { issuer := strD m "issuer" "", hasJwks := false } else none
  | "noissuer" => if boolD m "verify" false then none else some { issuer := "", hasJwks := true }
  | _ => none

/-- what the endpoints answer during one step -/
def world (c : Json) (jw : Json) : E World := do
  let cc := fldD c "conf" (Json.mkObj [])
  let trust := boolD cc "trust_store" false
  let dflt ← keySet trust jw
  let byIss : List (String × Option (List Key)) ← match jw.getObjVal? "by_issuer" with
    | .ok (.obj o) => o.toList.mapM fun (iss, spec) => do pure (iss, ← keySet trust spec)
    | _ => pure []
  let templated := boolD cc "templated" false && strD c "mode" "jwks" != "metadata"
  pure { metadata := metadataOf c,
         jwks := fun u => if templated then (byIss.lookup u).getD none else dflt }

def presented (a : Json) : Presented :=
  if !boolD a "present" false then .absent
  else if !boolD a "wf" false then .garbage
  else
    let sig := (arrD a "sig").map fun j => j.getBool?.toOption.getD false
    let payload := if boolD a "payload_json" false then some (toVal (fldD a "payload" Json.null)) else none
    .token { alg := strD a "alg" "", kid := strD a "kid" "", critOk := !boolD a "crit_bad" false,
             canonical := boolD a "canonical" true, payload := payload, sigOk := fun m => sig[m]?.getD false }

def whyName (w : Why) : String := (reprStr w).replace "Heimdall.Jwt.Why." ""

def verdict : Verdict → Json
  | .subject id attrs => Json.mkObj [("verdict", "accept"), ("id", jstr id), ("attrs", ofVal attrs),
      ("id_hex", jstr (hexOf id)), ("attrs_hex", ofValHex attrs)]
  | .refused => Json.mkObj [("verdict", "reject")]
  | .noAuthenticator => Json.mkObj [("verdict", "config")]
  | .unmodelled => Json.mkObj [("verdict", "unmodelled")]

def why : Outcome → String
  | .accepted _ _ => "accepted"
  | .rejected w => whyName w
  | .noAuthenticator => "config"
  | .unmodelled => "unmodelled"

/-- the token's issuer decides the url but is not a string: the rendering of the template is not modelled -/
def templateUnmodelled (cfg : Config) (p : Presented) : Bool :=
  cfg.jwksMode && cfg.templated &&
    match p with
    | .token t =>
      match t.payload with
      | some (.obj kvs) => match lookup "iss" kvs with | some (.str _) => false | _ => true
      | _ => false
    | _ => false

def marker (s : String) : Json := Json.mkObj [("verdict", s)]

/-- another mechanism created in the process of the authenticator under test: what it configures as allowed
algorithms at mechanism level and, if a rule-level copy is made, at rule level -/
def neighbour (j : Json) : E Neighbour := do
  let a := fldD (fldD j "conf" (Json.mkObj [])) "assertions" (Json.mkObj [])
  let r := fldD j "rule" Json.null
  let ruleAlgs ← if r.isNull then pure none
                 else (do pure (some (← strsD (fldD r "assertions" (Json.mkObj [])) "allowed_algorithms")))
  pure { kind := if strD j "type" "" == "jwt" then .jwt else .introspection,
         algs := ← strsD a "allowed_algorithms", ruleAlgs := ruleAlgs }

/-- the moment a neighbour is created: `none` = before the first request (before the authenticator under test or
between its prototype and its rule-level copy), `some k` = just before request `k` (0-based) -/
def moment (j : Json) : Option Nat :=
  match j.getObjVal? "at" with
  | .ok (.num n) => some n.mantissa.toNat
  | _ => none

/-- the history of the process: creations and requests in the order they happen -/
def history (ns : List (Option Nat × Neighbour)) (steps : List (World × Presented × Int)) : List Event :=
  (ns.filter (·.1.isNone)).map (fun (_, n) => Event.create n) ++
    (steps.zipIdx.map fun ((w, p, n), k) =>
      ((ns.filter (·.1 == some k)).map fun (_, x) => Event.create x) ++ [Event.request w p n]).flatten

def run (c : Json) : E Json := do
  let (cfg, special) ← config c
  let rule ← if isNull c "rule" then pure none
             else (do
               let r ← fld c "rule"
               if isNull r "assertions" then pure (some ({} : Expectation))
               else pure (some (← expectation (← fld r "assertions"))))
  -- steps: earlier requests, then the request of the case
  let pre := arrD c "pre"
  let absPre := arrD c "abs_pre"
  let mut steps : List (World × Presented × Int) := []
  for (st, a) in pre.zip absPre do
    let jw := if isNull st "jwks" then fldD c "jwks" (Json.mkObj []) else fldD st "jwks" (Json.mkObj [])
    steps := steps ++ [(← world c jw, presented a, ← int a "now")]
  let a ← fld c "abs"
  steps := steps ++ [(← world c (fldD c "jwks" (Json.mkObj [])), presented a, ← int a "now")]
  let ns ← (arrD c "neighbours").mapM fun j => do pure (moment j, ← neighbour j)
  let lo := Heimdall.Jwt.runIn cfg rule (history ns (steps.map fun (w, p, n) => (w, p, n * 1000))) {} []
  let hi := Heimdall.Jwt.runIn cfg rule (history ns (steps.map fun (w, p, n) => (w, p, n * 1000 + 999))) {} []
  let unmod := special || steps.any (fun (_, p, _) => templateUnmodelled cfg p) ||
    boolD a "unmodelled_header" false || absPre.any (fun a => boolD a "unmodelled_header" false)
  let mut out : List Json := []
  let mut specs : List Json := []
  let mut whys : List Json := []
  let mut i := 0
  for ((w, p, n), (l, h)) in steps.zip (lo.zip hi) do
    let jl := verdict l.verdict
    let jh := verdict h.verdict
    -- the specification against the key-set endpoint as it answered now or earlier
    let cands := (steps.take (i + 1)).map fun (w', _, _) =>
      let ww : World := { metadata := w.metadata, jwks := w'.jwks }
      let s1 := verdict (Spec.authenticate cfg rule ww p (n * 1000))
      let s2 := verdict (Spec.authenticate cfg rule ww p (n * 1000 + 999))
      if s1.compress == s2.compress then s1 else marker "ambiguous"
    let amb := jl.compress != jh.compress || cands.any (fun s => s.compress == (marker "ambiguous").compress)
    out := out ++ [if unmod then marker "unmodelled" else if amb then marker "ambiguous" else jl]
    specs := specs ++ [if unmod then jarr [marker "unmodelled"] else if amb then jarr [marker "ambiguous"] else jarr cands]
    whys := whys ++ [jstr (why l)]
    i := i + 1
  let final := out.getLast?.getD (marker "unmodelled")
  let res := final.setObjVal! "pre" (jarr out.dropLast)
  return Json.mkObj [("res", res), ("spec", jarr specs),
    ("stats", Json.mkObj [("why", whys.getLast?.getD (jstr "")), ("why_pre", jarr whys.dropLast)])]

end Driver.Jwt
