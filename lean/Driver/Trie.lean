import Driver.Util
import HeimdallModel.Spec.Lookup
-- @family trie
/-! Line-protocol family `trie`: operation sequences against the routing-tree model -/
open Lean Heimdall

namespace Driver.Trie

structure Val where
  id  : Nat
  src : Nat
  pp  : Option (String × String)
deriving Repr

def canAdd (old : List Val) (v : Val) : Bool :=
  match old with
  | [] => true
  | o :: _ => o.src == v.src

/-- matcher used by the harness on both sides: the value is accepted for this query and its optional
    path-parameter condition holds on the keys/values the tree hands over -/
def matcher (acc : List Nat) (v : Val) (keys caps : List String) : Bool :=
  acc.contains v.id &&
  match v.pp with
  | none => true
  | some (k, x) => (keys.zip caps).any (fun kv => kv.1 == k && kv.2 == x)

def lastWins (ps : List (String × String)) : List (String × String) :=
  ps.foldl (fun acc kv => (acc.filter (fun a => a.1 != kv.1)) ++ [kv]) []

def applyItem (t : Table Val) (it : Json) : E (Except String (Table Val)) := do
  let k ← str it "k"
  let p ← str it "p"
  if k == "add" then
    let pp ← (do
      if isNull it "pp" then pure none else
      let l ← strs it "pp"
      match l with
      | [a, b] => pure (some (a, b))
      | _ => throw "bad pp")
    let v : Val := ⟨← nat it "id", ← nat it "src", pp⟩
    match add canAdd t p v (← bool it "bt") with
    | .ok t' => pure (.ok t')
    | .error .invalidPath => pure (.error "invalid")
    | .error .ambiguousKeys => pure (.error "invalid")
    | .error .constraint => pure (.error "constraint")
  else
    let ids ← nats it "ids"
    match del t p (fun v => ids.contains v.id) with
    | some t' => pure (.ok t')
    | none => pure (.error "delete")

def applyBatch (t : Table Val) (items : List Json) : E (Table Val × String) := do
  let mut cur := t
  let mut i := 0
  for it in items do
    match ← applyItem cur it with
    | .ok t' => cur := t'
    | .error e => return (t, s!"err:{e}@{i}")
    i := i + 1
  return (cur, "ok")

def run (c : Json) : E Json := do
  let ops ← arr c "ops"
  let mut t : Table Val := []
  let mut out : List Json := []
  let mut multi := 0
  let mut hits := 0
  for op in ops do
    let k ← str op "op"
    if k == "batch" then
      let (t', r) ← applyBatch t (← arr op "items")
      t := t'
      out := out ++ [jstr r]
    else
      let acc ← nats op "acc"
      let path ← str op "path"
      if (cands t (tokenize path) []).length ≥ 2 then multi := multi + 1
      match lookup (matcher acc) t path with
      | none => out := out ++ [Json.null]
      | some (v, ps) =>
        hits := hits + 1
        out := out ++ [Json.mkObj [("id", jnat v.id),
          ("params", jarr ((sortPairs (lastWins ps)).map fun kv => jstrs [kv.1, kv.2]))]]
  return Json.mkObj [("res", jarr out), ("stats", Json.mkObj [("multi", jnat multi), ("hits", jnat hits)])]

end Driver.Trie
