import Driver.Families
/-! One JSON case per line in, one JSON result per line out. -/
open Lean Driver

partial def loop (hin hout : IO.FS.Stream) : IO Unit := do
  let line ← hin.getLine
  if line.isEmpty then return ()
  let l := line.trimAscii.toString
  if l.isEmpty then loop hin hout else
  let out := match Json.parse l >>= dispatch with
    | .ok j => j.compress
    | .error e => (Json.mkObj [("driver_error", Json.str e)]).compress
  hout.putStrLn out
  loop hin hout

def main : IO Unit := do
  let hin ← IO.getStdin
  let hout ← IO.getStdout
  loop hin hout
  hout.flush
