import Driver.Util
import HeimdallModel.Model.ReqView
-- @family fwd
/-! Line-protocol family `fwd` (C09): one request through the decision / proxy service model -/
open Lean Heimdall.Fwd

namespace Driver.Fwd

def pairs (j : Json) (k : String) : E Headers := do
  (← arr j k).mapM fun p => do
    match ← p.getArr? with
    | #[a, b] => pure (← a.getStr?, ← b.getStr?)
    | _ => throw "bad pair"

/-- the graph of the real `net/url` on the values of this case (filled in by the check from the implementation) -/
def uriTab (c : Json) : E UriParse := do
  let rows ← (arrD c "uri_tab").mapM fun row => do
    match ← row.getArr? with
    | #[v, ok, rp, ep, q] => pure (← v.getStr?, ← ok.getBool?, ← rp.getStr?, ← ep.getStr?, ← q.getStr?)
    | _ => throw "bad uri_tab row"
  pure fun v => match rows.find? (fun r => r.1 == v) with
    | some (_, true, rp, ep, q) => some ⟨rp, ep, q⟩
    | _ => none

/-! the rule set of the harness (fixture, see harness/main/fwd.go `fwdRules`): which rule the real matcher selects
for a view.  Free wildcards need a non-empty remainder; a rule whose conditions fail allows backtracking to `/**`. -/
def under (pre : String) (p : String) : Bool := pre.toList.isPrefixOf p.toList && p.length > pre.length

def ruleOf (v : View) : Option String :=
  let p := v.rawPath
  if !(under "/" p) then none
  else if under "/admin/" p then some "r-path"
  else if under "/m/" p && v.method == "DELETE" then some "r-method"
  else if under "/s/" p && v.scheme == "https" then some "r-scheme"
  else if under "/h/" p && v.host == "trusted.example.com" then some "r-host"
  else some "r-any"

def jpairs (h : Headers) : Json := jarr (h.map fun kv => jstrs [kv.1, kv.2])

def runReq (c : Json) : E Json := do
  let proxies := match fld c "trusted" with
    | .ok (.arr a) => a.toList.filterMap (·.getStr?.toOption)
    | _ => []
  let r : Req := {
    method := ← str c "method", host := ← str c "host", rawPath := strD c "raw_path" "",
    escPath := ← str c "esc_path",
    rawQuery := ← str c "raw_query", tls := boolD c "tls" false, remoteAddr := ← str c "remote",
    wire := ← pairs c "headers" }
  let parse ← uriTab c
  let mode ← str c "mode"
  let o := serve parse proxies r
  let h := effective stripSet proxies r
  let tr := trustedPeer proxies r.remoteAddr
  let fam := (canonHeaders r.wire).filter fun kv => stripSet.contains kv.1
  let base := viewOf parse [] r
  let changed : List String :=
    (if o.view.method != base.method then ["method"] else []) ++
    (if o.view.scheme != base.scheme then ["scheme"] else []) ++
    (if o.view.host != base.host then ["host"] else []) ++
    (if o.view.rawPath != base.rawPath then ["path"] else []) ++
    (if o.view.query != base.query then ["query"] else []) ++
    (if o.view.ips != base.ips then ["ips"] else [])
  let offered := (parse (hget h "X-Forwarded-Uri")).getD ⟨"", "", ""⟩
  let spellingKept := r.path != r.escPath ||
    (hget h "X-Forwarded-Uri" != "" && pathAsReceived offered.rawPath offered.escPath != offered.escPath)
  let stats := Json.mkObj [("trusted", Json.bool tr), ("family_lines", jnat fam.length),
    ("received_path_differs_from_go_encoding", Json.bool spellingKept),
    ("query_from_header", Json.bool (offered.rawQuery != "" && o.view.query == offered.rawQuery)),
    ("family_names", jstrs (fam.map (·.1)).eraseDups), ("overridden", jstrs changed),
    ("rule", jstr ((ruleOf o.view).getD "none")),
    ("rule_differs_from_actual", Json.bool (ruleOf o.view != ruleOf base)),
    ("entries_valid", jnat (proxies.filterMap parseEntry).length), ("entries", jnat proxies.length),
    ("peer_parsable", Json.bool (parseIP (ipFromHostPort r.remoteAddr)).isSome)]
  match ruleOf o.view with
  | none => pure (Json.mkObj [("res", Json.mkObj [("status", jnat 404), ("up", Json.null)]), ("stats", stats)])
  | some rule =>
    let v := o.view
    let up := if mode == "proxy" then
        Json.mkObj [("method", jstr v.method),
          ("uri", jstr (v.rawPath ++ (if v.query == "" then "" else "?" ++ v.query))),
          ("fwd", jpairs (stripSet.flatMap fun k => (hvalues o.upstream k).map fun x => (k, x)))]
      else Json.null
    let res := Json.mkObj [
      ("status", jnat 200), ("rule", jstr rule),
      ("view", Json.mkObj [("method", jstr v.method), ("scheme", jstr v.scheme), ("host", jstr v.host),
        ("rawpath", jstr v.rawPath), ("query", jstr v.query), ("ips", jstrs v.ips)]),
      ("path_ok", Json.bool true),
      ("hdrs", jpairs (sortPairs o.shown)),
      ("xfm", jstr (mechHeader h r "x-forwarded-method")),
      ("up", up)]
    pure (Json.mkObj [("res", res), ("stats", stats)])

def runTrust (c : Json) : E Json := do
  let proxies ← strs c "trusted"
  let remote ← str c "remote"
  let t := trustedPeer proxies remote
  pure (Json.mkObj [("res", Json.mkObj [("trusted", Json.bool t)]),
    ("stats", Json.mkObj [("trusted", Json.bool t),
      ("entries_valid", jnat (proxies.filterMap parseEntry).length), ("entries", jnat proxies.length),
      ("unpatched", Json.bool (trustedPeerUnpatched proxies remote)),
      ("peer_parsable", Json.bool (parseIP (ipFromHostPort remote)).isSome)])])

def resOf (j : Json) : Json := fldD j "res" j

/-- a sequence of requests against one process: the model keeps no state between requests -/
def runSeq (c : Json) : E Json := do
  let subs ← arr c "cases"
  let outs ← subs.mapM runReq
  pure (Json.mkObj [("res", jarr (outs.map resOf)), ("stats", Json.mkObj [("seq_len", jnat subs.length)])])

/-- peers served in parallel by one service instance: every worker gets, every time, the answer it gets alone -/
def runPar (c : Json) : E Json := do
  let ws ← arr c "workers"
  let outs ← ws.mapM runReq
  let trusted := outs.filter fun o => (fldD (fldD o "stats" Json.null) "trusted" (Json.bool false)) == Json.bool true
  pure (Json.mkObj [("res", jarr (outs.map fun o => jarr [resOf o])),
    ("stats", Json.mkObj [("workers", jnat ws.length), ("listed_workers", jnat trusted.length)])])

def run (c : Json) : E Json := do
  match ← str c "op" with
  | "req" => runReq c
  | "seq" => runSeq c
  | "par" => runPar c
  | "trust" => runTrust c
  | op => throw s!"fwd: unknown op {op}"

end Driver.Fwd
