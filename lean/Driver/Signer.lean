import Driver.Util
import HeimdallModel.Spec.Signer
import HeimdallModel.Model.SignerCache
import HeimdallModel.Model.SignerTime
-- @family signer
/-! Line-protocol family `signer`: jwt finalizers over key store files, token creation, JWKS reads, reloads (C16) -/
open Lean Heimdall Heimdall.Signer

namespace Driver.Signer

def keyOfType (t : String) (pid : Nat) : E PrivKey :=
  let mk (f : Family) (b : Nat) : E PrivKey := pure ⟨⟨f, b, pid⟩, 1000 + pid⟩
  match t with
  | "rsa1024" => mk .rsa 1024
  | "rsa2048" => mk .rsa 2048
  | "rsa3072" => mk .rsa 3072
  | "rsa4096" => mk .rsa 4096
  | "p224" => mk .ecdsa 224
  | "p256" => mk .ecdsa 256
  | "p384" => mk .ecdsa 384
  | "p521" => mk .ecdsa 521
  | _ => throw s!"unknown key type {t}"

def parseKeys (c : Json) : E (Array PrivKey) := do
  let mut res := #[]
  for kd in ← arr c "keys" do
    res := res.push (← keyOfType (← str kd "t") res.size)
  pure res

/-- the validity periods of the certificates of a case: `"cert_validity": [[cid, notBefore, notAfter], ...]` in
milliseconds since the start of the case; a certificate that is not listed is valid throughout -/
def parseCertInfo (c : Json) : E CertInfo := do
  let mut tab : List (Nat × Validity) := []
  match fldD c "cert_validity" .null with
  | .null => pure ()
  | j =>
    for row in (← j.getArr?).toList do
      let r ← row.getArr?
      let some cid := r[0]? | throw "bad cert_validity row"
      let some nb := r[1]? | throw "bad cert_validity row"
      let some na := r[2]? | throw "bad cert_validity row"
      tab := tab ++ [(← cid.getNat?, ⟨← nb.getInt?, ← na.getInt?⟩)]
  pure (fun cid => ((tab.find? (fun e => e.1 = cid)).map (·.2)).getD ⟨-1000000000000000, 1000000000000000⟩)

/-- the instant of an operation on the case's clock (milliseconds since its start; 0 in cases without one) -/
def opNow (op : Json) : Int := Int.ofNat (natD op "at_ms" 0)

/-- a key store file as the generator describes it to the model: `null` = unparsable, else the key blocks in file
order, each with the chain x509 finds for it and the two x509 verdicts **apart from the validity periods listed in
`cert_validity`** (`Model/SignerTime.lean` judges those at the instant of the load) -/
def parseFile (keys : Array PrivKey) (j : Json) : E TimedFile := do
  match j with
  | .null => pure none
  | _ =>
    let mut res : List TimedEntry := []
    for e in (← j.getArr?).toList do
      let k ← nat e "k"
      let some key := keys[k]? | throw "bad key index"
      let chain ← (← arr e "chain").mapM (fun cj => do pure (⟨← nat cj "cid", ← str cj "ski"⟩ : Cert))
      res := res ++ [⟨← str e "xkid", key, chain, ← bool e "chain_valid", ← bool e "sign_usable"⟩]
    pure (some res)

structure Holder where
  keyID : String
  iss   : String
  fin   : Finalizer
  st    : State

def optInt (j : Json) (k : String) : E (Option Int) :=
  if isNull j k then pure none else do pure (some (← int j k))

def optNat (j : Json) (k : String) : E (Option Nat) :=
  if isNull j k then pure none else do pure (some (← nat j k))

def parseHolder (ci : CertInfo) (keys : Array PrivKey) (h : Json) : E (Option Holder) := do
  let keyID := strD h "key_id" ""
  let name := strD h "name" ""
  let header ← (if isNull h "header" then pure none else do
    let hj ← fld h "header"
    pure (some (← str hj "name", strD hj "scheme" "")))
  let file ← parseFile keys (fldD h "raw" .null)
  -- `newJWTFinalizer`: decode and validate the configuration, then load the key store (at the start of the case)
  match Finalizer.create (← optInt h "ttl_ns") (← optNat h "tpl") header, loadAt ci keyID file 0 with
  | some fin, some st => pure (some ⟨keyID, issuerName name, fin, st⟩)
  | _, _ => pure none

def parseCustom (j : Json) : E (Option (Claims Json)) := do
  match j with
  | .null => pure none
  | _ =>
    let mut res : Claims Json := []
    for kv in (← j.getArr?).toList do
      let pair ← kv.getArr?
      let some n := pair[0]? | throw "bad claim"
      let some v := pair[1]? | throw "bad claim"
      res := res ++ [(← n.getStr?, CVal.other v)]
    pure (some res)

def ktyOf (j : Jwk) : String := match j.pub.family with | .rsa => "RSA" | .ecdsa => "EC"

def sortStrings (l : List String) : List String := (l.toArray.qsort (· < ·)).toList

def jwkJson (j : Jwk) : Json :=
  Json.mkObj [("kid", jstr j.kid), ("alg", jstr j.alg), ("use", jstr j.use), ("kty", jstr (ktyOf j)),
    ("members", jstrs (sortStrings (jwkMembers j))), ("pid", jnat j.pub.pid),
    ("private", Json.bool ((jwkMembers j).any (fun m => privateMembers.contains m))), ("public_type", Json.bool true),
    ("x5c", jarr (j.certs.map (fun c => jnat c.cid)))]

def live (hs : Array (Option Holder)) : List Holder := hs.toList.filterMap id

def jwksJson (ci : CertInfo) (now : Int) (hs : Array (Option Holder)) : Json :=
  Json.mkObj [("status", jnat 200), ("ctype", jstr "application/json"),
    ("keys", jarr ((publishedAt ci ((live hs).map (·.st)) now).map jwkJson))]

def cvalJson (ttl : Int) (name : String) : CVal Json → Json
  | .str s => Json.mkObj [("json", jstr s)]
  | .num _ =>
    if name = "exp" then
      -- the clock is not an input: every reading gives one of these differences (`c16_exp_exact`, `c16_exp_bounds`)
      let d0 := unixSec (0 + ttl) - unixSec 0
      let d1 := unixSec (999999999 + ttl) - unixSec 999999999
      Json.mkObj [("minus_iat_in", jarr (if d0 = d1 then [jint d0] else [jint d0, jint d1]))]
    else if name = "nbf" then Json.mkObj [("minus_iat", jint 0)]
    else jstr "issue time"
  | .fresh => jstr "uuid"
  | .other v => Json.mkObj [("json", v)]

def claimsJson (ttl : Int) (c : Claims Json) : Json :=
  let names := sortStrings (c.map (·.1)).eraseDups
  jarr (names.map (fun n => jarr [jstr n, match lookup n c with | some v => cvalJson ttl n v | none => Json.null]))

structure Stats where
  tokens : Nat := 0
  reservedNamed : Nat := 0
  signErrors : Nat := 0
  reloadsOk : Nat := 0
  reloadsFailed : Nat := 0
  jwksReads : Nat := 0
  publishedKeys : Nat := 0
  clashes : Nat := 0
  fractionalTtl : Nat := 0
  algs : List String := []
  -- the clock (`Model/SignerTime.lean`): tokens handed out / key sets read while a certificate of a published key is
  -- outside its validity period, reloads refused only because a certificate of the file had run out
  tokensAfterExpiry : Nat := 0
  jwksAfterExpiry : Nat := 0
  reloadsRefusedExpired : Nat := 0
  -- one key under several ids: tokens whose id is a later id of a key the signer's store lists several times, key-set
  -- reads that show some key under several ids
  tokensLaterId : Nat := 0
  jwksSharedKey : Nat := 0

/-- the JWK with the id `kid` stands in `pub` behind a JWK with the same public key: `kid` is a later id of a key that
the store lists more than once -/
def laterIdOfSharedKey (pub : List Jwk) (kid : String) : Bool :=
  match pub.span (fun j => j.kid ≠ kid) with
  | (pre, j :: _) => pre.any (fun j0 => decide (j0.pub = j.pub))
  | _ => false

/-- some key material is published under more than one id -/
def sharedKeyListed (pub : List Jwk) : Bool := decide ((distinctKeys pub).length < pub.length)

/-- some published key carries a certificate that is outside its validity period at `now` -/
def expiredPublished (ci : CertInfo) (now : Int) (pub : List Jwk) : Bool :=
  pub.any (fun j => j.certs.any (fun c => !(c.validAt ci now)))

def allValid : CertInfo := fun _ => ⟨-1000000000000000, 1000000000000000⟩

/-- the reload is refused at `now`, and only because of the validity periods -/
def refusedExpired (ci : CertInfo) (keyID : String) (f : TimedFile) (now : Int) : Bool :=
  (loadAt ci keyID f now).isNone && (loadAt allValid keyID f now).isSome

/-- the process-wide token cache of a case that has one, and for every stored entry which operation issued it with
which TTL (bookkeeping of the driver: the model's tokens do not say which call made them) -/
structure CacheSt where
  on     : Bool := false
  tickNs : Int := 0
  cache  : Cache Json := []
  shadow : List (CacheKey × Nat × Int) := []
  hits   : Nat := 0
  stores : Nat := 0
  misses : Nat := 0
  crossVariantMisses : Nat := 0
  duringReload : Nat := 0

def signOp (ci : CertInfo) (pol : KeyPolicy) (keys : Array PrivKey) (hs : Array (Option Holder)) (op : Json) (idx : Nat) (stats : Stats)
    (cs : CacheSt) :
    E (Json × Stats × CacheSt × Array (Option Holder)) := do
  let hi ← nat op "h"
  let some (some h) := hs[hi]? | pure (Json.mkObj [("skip", jstr "no holder")], stats, cs, hs)
  let ov := fldD op "ov" .null
  let fin? ← (match ov with
    | .null => pure (some h.fin)
    | _ => do pure (h.fin.withConfig (← optInt ov "ttl_ns") (← optNat ov "tpl")))
  let some fin := fin? | pure (Json.mkObj [("err", jstr "override:configuration")], stats, cs, hs)
  let fail := (Json.mkObj [("err", jstr "internal")], { stats with signErrors := stats.signErrors + 1 }, cs, hs)
  if isNull op "sub" then pure fail else
  -- the rendered claims template (rendering itself is not modelled: the generator supplies what the template yields)
  let custom? ← (match fin.claims with
    | none => pure (some [])
    | some t => do parseCustom (fldD (← fld op "renders") (toString t) .null))
  let sub ← str op "sub"
  -- "inside": the key store of this finalizer is reloaded while Execute runs, after the cache key has been calculated
  let inside := fldD op "inside" .null
  let file? ← (match inside with
    | .null => pure none
    | _ => do pure (some (← parseFile keys (fldD inside "raw" .null))))
  let clock := opNow op
  let stAfter := match file? with
    | none => h.st
    | some f => reloadOn ci h.keyID h.st (clock, f)
  let hs' := hs.set! hi (some { h with st := stAfter })
  let mut stats := stats
  if let some f := file? then
    stats := if (loadAt ci h.keyID f clock).isSome then { stats with reloadsOk := stats.reloadsOk + 1 }
             else { stats with reloadsFailed := stats.reloadsFailed + 1,
                               reloadsRefusedExpired := stats.reloadsRefusedExpired +
                                 (if refusedExpired ci h.keyID f clock then 1 else 0) }
  -- `Execute`: without a cache in the context every call signs; with one, lookup / sign / store (`Model/SignerCache.lean`)
  let mut cs := cs
  let mut tok? : Option (Token Json) := none
  let mut issuedTtl := fin.ttlNs
  let mut extra : List (String × Json) := []
  if cs.on then
    let now := cs.tickNs * (Int.ofNat (natD op "at" 0))
    let x : Exec := ⟨0, fin, ⟨sub, (fldD op "attrs" .null).compress⟩, (fldD op "outputs" .null).compress, now, now, now⟩
    let rec_ : SignerRec := ⟨h.keyID, h.iss, h.st⟩
    let recAfter : SignerRec := ⟨h.keyID, h.iss, stAfter⟩
    let key := keyOf rec_ x
    let storeKey := if pol.underSigning then keyOf recAfter x else key
    let w : World Json := ⟨[rec_], cs.cache⟩
    let r := match file? with
      | none => executeK pol (fun _ _ _ => custom?) w x
      | some f => executeDuringK pol (fun _ _ _ => custom?) w x (fileAt ci clock f)
    match r with
    | none => tok? := none
    | some (t, .cached, _) =>
      let (from_, ttl) := ((cs.shadow.find? (fun e => e.1 = key)).map (·.2)).getD (idx, fin.ttlNs)
      tok? := some t
      issuedTtl := ttl
      extra := [("from", jnat from_)]
      cs := { cs with hits := cs.hits + 1 }
    | some (t, .fresh, w') =>
      let stored := decide (leewayNs < fin.ttlNs)
      -- the same subject, signer, outputs and template is cached under another TTL: the entries must not be shared
      let cross := cs.shadow.any (fun e => decide (dropTtl.norm e.1 = dropTtl.norm key) && decide (e.1 ≠ key)
        && (cs.cache.get e.1 now).isSome)
      tok? := some t
      extra := [("from", jnat idx)]
      cs := { cs with cache := w'.cache, misses := cs.misses + 1, stores := cs.stores + (if stored then 1 else 0),
                      crossVariantMisses := cs.crossVariantMisses + (if cross then 1 else 0),
                      duringReload := cs.duringReload + (if file?.isSome then 1 else 0),
                      shadow := if stored then (storeKey, idx, fin.ttlNs) :: cs.shadow.filter (fun e => e.1 ≠ storeKey)
                                else cs.shadow }
  else
    tok? := custom?.map (fun custom => sign stAfter ⟨sub, h.iss, 0, fin.ttlNs⟩ custom)
  let some tok := tok? | pure (fail.1, { stats with signErrors := stats.signErrors + 1 }, cs, hs')
  let custom := custom?.getD []
  let pub := publishedAt ci ((live hs').map (·.st)) clock
  let named := (custom.filter (fun kv => reserved.contains kv.1)).length
  let vf := verifiesFirst pub tok
  let res := Json.mkObj ([
    ("upstream_headers", jstrs [fin.headerName]), ("scheme", jstr fin.scheme),
    ("hdr", Json.mkObj [("kid", jstr tok.kid), ("alg", jstr tok.alg), ("typ", jstr tok.typ), ("extra", jarr [])]),
    ("claims", claimsJson issuedTtl tok.claims), ("signed_by", jnat tok.signedBy.pub.pid),
    ("verify_first", Json.bool vf), ("verify_any", Json.bool (verifiesAny pub tok))] ++ extra)
  pure (res, { stats with tokens := stats.tokens + 1, reservedNamed := stats.reservedNamed + named,
                          tokensAfterExpiry := stats.tokensAfterExpiry + (if expiredPublished ci clock pub then 1 else 0),
                          clashes := stats.clashes + (if vf then 0 else 1),
                          tokensLaterId := stats.tokensLaterId + (if laterIdOfSharedKey stAfter.pubKeys tok.kid then 1 else 0),
                          fractionalTtl := stats.fractionalTtl + (if fin.ttlNs % 1000000000 = 0 then 0 else 1),
                          algs := if stats.algs.contains tok.alg then stats.algs else stats.algs ++ [tok.alg] }, cs, hs')

def run (c : Json) : E Json := do
  let keys ← parseKeys c
  let ci ← parseCertInfo c
  let mut hs : Array (Option Holder) := #[]
  for h in ← arr c "holders" do
    hs := hs.push (← parseHolder ci keys h)
  let created := hs.toList.map (fun h => jstr (if h.isSome then "ok" else "fail"))
  let mut out : List Json := []
  let mut stats : Stats := {}
  let cj := fldD c "cache" .null
  let mut cs : CacheSt := match cj with
    | .null => {}
    | _ => { on := true, tickNs := Int.ofNat (natD cj "tick_ms" 0) * 1000000 }
  -- "policy": "lookup_key" asks for the behaviour of the code before fixes/C16-1 (a token signed while the key store
  -- was reloaded is stored under the key calculated for the lookup); the default is the model the theorems are about
  let pol : KeyPolicy := if strD c "policy" "" = "lookup_key" then lookupKey else {}
  let mut idx := 0
  for op in ← arr c "ops" do
    idx := idx + 1
    match ← str op "op" with
    | "sign" =>
      let (r, s', cs', hs') ← signOp ci pol keys hs op (idx - 1) stats cs
      stats := s'
      cs := cs'
      hs := hs'
      out := out ++ [r]
    | "jwks" =>
      stats := { stats with jwksReads := stats.jwksReads + 1,
                            jwksAfterExpiry := stats.jwksAfterExpiry +
                              (if expiredPublished ci (opNow op) (publishedAt ci ((live hs).map (·.st)) (opNow op)) then 1 else 0),
                            jwksSharedKey := stats.jwksSharedKey +
                              (if (live hs).any (fun h => sharedKeyListed h.st.pubKeys) then 1 else 0),
                            publishedKeys := stats.publishedKeys + (publishedAt ci ((live hs).map (·.st)) (opNow op)).length }
      out := out ++ [jwksJson ci (opNow op) hs]
    | "alg" =>
      -- `Entry.CheckJOSESupport` / `Entry.JOSEAlgorithm` for one key of the case
      let some key := keys[← nat op "k"]? | throw "bad key index"
      out := out ++ [Json.mkObj [("supported", Json.bool (joseAlg key.pub).isSome),
        ("alg", jstr ((joseAlg key.pub).getD "panic"))]]
    | "reload" =>
      let i ← nat op "h"
      match hs[i]? with
      | some (some h) =>
        let file ← parseFile keys (fldD op "raw" .null)
        let ok := (loadAt ci h.keyID file (opNow op)).isSome
        stats := if ok then { stats with reloadsOk := stats.reloadsOk + 1 }
                 else { stats with reloadsFailed := stats.reloadsFailed + 1,
                                   reloadsRefusedExpired := stats.reloadsRefusedExpired +
                                     (if refusedExpired ci h.keyID file (opNow op) then 1 else 0) }
        hs := hs.set! i (some { h with st := reloadOn ci h.keyID h.st (opNow op, file) })
        out := out ++ [jstr "done"]
      | _ => out := out ++ [jstr "skip"]
    | o => throw s!"unknown op {o}"
  let res := Json.mkObj [("created", jarr created), ("ops", jarr out),
    ("observed_suppliers", jnat (live hs).length)]
  pure (Json.mkObj [("res", res), ("stats", Json.mkObj [
    ("tokens", jnat stats.tokens), ("reserved_named_custom_claims", jnat stats.reservedNamed),
    ("sign_errors", jnat stats.signErrors), ("reloads_ok", jnat stats.reloadsOk),
    ("reloads_failed", jnat stats.reloadsFailed), ("jwks_reads", jnat stats.jwksReads),
    ("published_keys", jnat stats.publishedKeys), ("first_match_clashes", jnat stats.clashes),
    ("fractional_ttl_tokens", jnat stats.fractionalTtl), ("algs", jstrs stats.algs),
    ("tokens_after_certificate_expiry", jnat stats.tokensAfterExpiry),
    ("jwks_reads_after_certificate_expiry", jnat stats.jwksAfterExpiry),
    ("reloads_refused_for_expired_certificate", jnat stats.reloadsRefusedExpired),
    ("tokens_naming_later_id_of_shared_key", jnat stats.tokensLaterId),
    ("jwks_reads_with_key_under_several_ids", jnat stats.jwksSharedKey),
    ("holders_created", jnat (live hs).length), ("holders_failed", jnat (hs.size - (live hs).length)),
    ("cache_cases", jnat (if cs.on then 1 else 0)), ("cache_hits", jnat cs.hits), ("cache_misses", jnat cs.misses),
    ("cache_stores", jnat cs.stores), ("cache_cross_variant_misses", jnat cs.crossVariantMisses),
    ("cache_stores_during_reload", jnat cs.duringReload)])])

end Driver.Signer
