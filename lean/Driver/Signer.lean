import Driver.Util
import HeimdallModel.Spec.Signer
-- @family signer
/-! Line-protocol family `signer`: jwt finalizers over key store files, token creation, JWKS reads, reloads (C16) -/
open Lean Heimdall Heimdall.Signer

namespace Driver.Signer

def keyOfType (t : String) (pid : Nat) : E PrivKey :=
  let mk (f : Family) (b : Nat) : E PrivKey := pure ⟨⟨f, b, pid⟩, 1000 + pid⟩
  match t with
  | "rsa1024" => mk .rsa 1024
  | "rsa2048" => mk .rsa 2048
  | "rsa3072" => mk .rsa 3072
  | "rsa4096" => mk .rsa 4096
  | "p224" => mk .ecdsa 224
  | "p256" => mk .ecdsa 256
  | "p384" => mk .ecdsa 384
  | "p521" => mk .ecdsa 521
  | _ => throw s!"unknown key type {t}"

def parseKeys (c : Json) : E (Array PrivKey) := do
  let mut res := #[]
  for kd in ← arr c "keys" do
    res := res.push (← keyOfType (← str kd "t") res.size)
  pure res

/-- a key store file as the generator describes it to the model: `null` = unparsable, else the key blocks in file
order, each with the chain x509 finds for it and the two x509 verdicts -/
def parseFile (keys : Array PrivKey) (j : Json) : E File := do
  match j with
  | .null => pure none
  | _ =>
    let mut res : List RawEntry := []
    for e in (← j.getArr?).toList do
      let k ← nat e "k"
      let some key := keys[k]? | throw "bad key index"
      let chain ← (← arr e "chain").mapM (fun cj => do pure (⟨← nat cj "cid", ← str cj "ski"⟩ : Cert))
      res := res ++ [⟨← str e "xkid", key, chain, ← bool e "chain_valid", ← bool e "sign_usable"⟩]
    pure (some res)

structure Holder where
  keyID : String
  iss   : String
  fin   : Finalizer
  st    : State

def optInt (j : Json) (k : String) : E (Option Int) :=
  if isNull j k then pure none else do pure (some (← int j k))

def optNat (j : Json) (k : String) : E (Option Nat) :=
  if isNull j k then pure none else do pure (some (← nat j k))

def parseHolder (keys : Array PrivKey) (h : Json) : E (Option Holder) := do
  let keyID := strD h "key_id" ""
  let name := strD h "name" ""
  let header ← (if isNull h "header" then pure none else do
    let hj ← fld h "header"
    pure (some (← str hj "name", strD hj "scheme" "")))
  let file ← parseFile keys (fldD h "raw" .null)
  -- `newJWTFinalizer`: decode and validate the configuration, then load the key store
  match Finalizer.create (← optInt h "ttl_ns") (← optNat h "tpl") header, loadFile keyID file with
  | some fin, some st => pure (some ⟨keyID, issuerName name, fin, st⟩)
  | _, _ => pure none

def parseCustom (j : Json) : E (Option (Claims Json)) := do
  match j with
  | .null => pure none
  | _ =>
    let mut res : Claims Json := []
    for kv in (← j.getArr?).toList do
      let pair ← kv.getArr?
      let some n := pair[0]? | throw "bad claim"
      let some v := pair[1]? | throw "bad claim"
      res := res ++ [(← n.getStr?, CVal.other v)]
    pure (some res)

def ktyOf (j : Jwk) : String := match j.pub.family with | .rsa => "RSA" | .ecdsa => "EC"

def sortStrings (l : List String) : List String := (l.toArray.qsort (· < ·)).toList

def jwkJson (j : Jwk) : Json :=
  Json.mkObj [("kid", jstr j.kid), ("alg", jstr j.alg), ("use", jstr j.use), ("kty", jstr (ktyOf j)),
    ("members", jstrs (sortStrings (jwkMembers j))), ("pid", jnat j.pub.pid),
    ("private", Json.bool ((jwkMembers j).any (fun m => privateMembers.contains m))), ("public_type", Json.bool true),
    ("x5c", jarr (j.certs.map (fun c => jnat c.cid)))]

def live (hs : Array (Option Holder)) : List Holder := hs.toList.filterMap id

def jwksJson (hs : Array (Option Holder)) : Json :=
  Json.mkObj [("status", jnat 200), ("ctype", jstr "application/json"),
    ("keys", jarr ((published ((live hs).map (·.st))).map jwkJson))]

def cvalJson (ttl : Int) (name : String) : CVal Json → Json
  | .str s => Json.mkObj [("json", jstr s)]
  | .num _ =>
    if name = "exp" then
      -- the clock is not an input: every reading gives one of these differences (`c16_exp_exact`, `c16_exp_bounds`)
      let d0 := unixSec (0 + ttl) - unixSec 0
      let d1 := unixSec (999999999 + ttl) - unixSec 999999999
      Json.mkObj [("minus_iat_in", jarr (if d0 = d1 then [jint d0] else [jint d0, jint d1]))]
    else if name = "nbf" then Json.mkObj [("minus_iat", jint 0)]
    else jstr "issue time"
  | .fresh => jstr "uuid"
  | .other v => Json.mkObj [("json", v)]

def claimsJson (ttl : Int) (c : Claims Json) : Json :=
  let names := sortStrings (c.map (·.1)).eraseDups
  jarr (names.map (fun n => jarr [jstr n, match lookup n c with | some v => cvalJson ttl n v | none => Json.null]))

structure Stats where
  tokens : Nat := 0
  reservedNamed : Nat := 0
  signErrors : Nat := 0
  reloadsOk : Nat := 0
  reloadsFailed : Nat := 0
  jwksReads : Nat := 0
  publishedKeys : Nat := 0
  clashes : Nat := 0
  fractionalTtl : Nat := 0
  algs : List String := []

def signOp (hs : Array (Option Holder)) (op : Json) (stats : Stats) : E (Json × Stats) := do
  let some (some h) := hs[← nat op "h"]? | pure (Json.mkObj [("skip", jstr "no holder")], stats)
  let ov := fldD op "ov" .null
  let fin? ← (match ov with
    | .null => pure (some h.fin)
    | _ => do pure (h.fin.withConfig (← optInt ov "ttl_ns") (← optNat ov "tpl")))
  let some fin := fin? | pure (Json.mkObj [("err", jstr "override:configuration")], stats)
  let fail := (Json.mkObj [("err", jstr "internal")], { stats with signErrors := stats.signErrors + 1 })
  if isNull op "sub" then pure fail else
  -- the rendered claims template (rendering itself is not modelled: the generator supplies what the template yields)
  let custom? ← (match fin.claims with
    | none => pure (some [])
    | some t => do parseCustom (fldD (← fld op "renders") (toString t) .null))
  let some custom := custom? | pure fail
  let inp : SignIn := ⟨← str op "sub", h.iss, 0, fin.ttlNs⟩
  let tok := sign h.st inp custom
  let pub := published ((live hs).map (·.st))
  let named := (custom.filter (fun kv => reserved.contains kv.1)).length
  let vf := verifiesFirst pub tok
  let res := Json.mkObj [
    ("upstream_headers", jstrs [fin.headerName]), ("scheme", jstr fin.scheme),
    ("hdr", Json.mkObj [("kid", jstr tok.kid), ("alg", jstr tok.alg), ("typ", jstr tok.typ), ("extra", jarr [])]),
    ("claims", claimsJson fin.ttlNs tok.claims), ("signed_by", jnat tok.signedBy.pub.pid),
    ("verify_first", Json.bool vf), ("verify_any", Json.bool (verifiesAny pub tok))]
  pure (res, { stats with tokens := stats.tokens + 1, reservedNamed := stats.reservedNamed + named,
                          clashes := stats.clashes + (if vf then 0 else 1),
                          fractionalTtl := stats.fractionalTtl + (if fin.ttlNs % 1000000000 = 0 then 0 else 1),
                          algs := if stats.algs.contains tok.alg then stats.algs else stats.algs ++ [tok.alg] })

def run (c : Json) : E Json := do
  let keys ← parseKeys c
  let mut hs : Array (Option Holder) := #[]
  for h in ← arr c "holders" do
    hs := hs.push (← parseHolder keys h)
  let created := hs.toList.map (fun h => jstr (if h.isSome then "ok" else "fail"))
  let mut out : List Json := []
  let mut stats : Stats := {}
  for op in ← arr c "ops" do
    match ← str op "op" with
    | "sign" =>
      let (r, s') ← signOp hs op stats
      stats := s'
      out := out ++ [r]
    | "jwks" =>
      stats := { stats with jwksReads := stats.jwksReads + 1,
                            publishedKeys := stats.publishedKeys + (published ((live hs).map (·.st))).length }
      out := out ++ [jwksJson hs]
    | "alg" =>
      -- `Entry.CheckJOSESupport` / `Entry.JOSEAlgorithm` for one key of the case
      let some key := keys[← nat op "k"]? | throw "bad key index"
      out := out ++ [Json.mkObj [("supported", Json.bool (joseAlg key.pub).isSome),
        ("alg", jstr ((joseAlg key.pub).getD "panic"))]]
    | "reload" =>
      let i ← nat op "h"
      match hs[i]? with
      | some (some h) =>
        let file ← parseFile keys (fldD op "raw" .null)
        let ok := (loadFile h.keyID file).isSome
        stats := if ok then { stats with reloadsOk := stats.reloadsOk + 1 }
                 else { stats with reloadsFailed := stats.reloadsFailed + 1 }
        hs := hs.set! i (some { h with st := reload h.keyID h.st file })
        out := out ++ [jstr "done"]
      | _ => out := out ++ [jstr "skip"]
    | o => throw s!"unknown op {o}"
  let res := Json.mkObj [("created", jarr created), ("ops", jarr out),
    ("observed_suppliers", jnat (live hs).length)]
  pure (Json.mkObj [("res", res), ("stats", Json.mkObj [
    ("tokens", jnat stats.tokens), ("reserved_named_custom_claims", jnat stats.reservedNamed),
    ("sign_errors", jnat stats.signErrors), ("reloads_ok", jnat stats.reloadsOk),
    ("reloads_failed", jnat stats.reloadsFailed), ("jwks_reads", jnat stats.jwksReads),
    ("published_keys", jnat stats.publishedKeys), ("first_match_clashes", jnat stats.clashes),
    ("fractional_ttl_tokens", jnat stats.fractionalTtl), ("algs", jstrs stats.algs),
    ("holders_created", jnat (live hs).length), ("holders_failed", jnat (hs.size - (live hs).length))])])

end Driver.Signer
