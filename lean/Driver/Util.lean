import Lean.Data.Json
/-! JSON helpers shared by the driver families -/
open Lean

namespace Driver

abbrev E := Except String

def fld (j : Json) (k : String) : E Json := j.getObjVal? k
def fldD (j : Json) (k : String) (d : Json) : Json := (j.getObjVal? k).toOption.getD d
def str (j : Json) (k : String) : E String := do (← fld j k).getStr?
def strD (j : Json) (k : String) (d : String) : String := ((fld j k) >>= (·.getStr?)).toOption.getD d
def nat (j : Json) (k : String) : E Nat := do (← fld j k).getNat?
def natD (j : Json) (k : String) (d : Nat) : Nat := ((fld j k) >>= (·.getNat?)).toOption.getD d
def int (j : Json) (k : String) : E Int := do (← fld j k).getInt?
def bool (j : Json) (k : String) : E Bool := do (← fld j k).getBool?
def boolD (j : Json) (k : String) (d : Bool) : Bool := ((fld j k) >>= (·.getBool?)).toOption.getD d
def arr (j : Json) (k : String) : E (List Json) := do pure (← (← fld j k).getArr?).toList
def arrD (j : Json) (k : String) : List Json := ((fld j k) >>= (·.getArr?)).toOption.map (·.toList) |>.getD []
def isNull (j : Json) (k : String) : Bool := match j.getObjVal? k with | .ok .null => true | .error _ => true | _ => false
def strs (j : Json) (k : String) : E (List String) := do (← arr j k).mapM (·.getStr?)
def nats (j : Json) (k : String) : E (List Nat) := do (← arr j k).mapM (·.getNat?)

def jstr (s : String) : Json := Json.str s
def jnat (n : Nat) : Json := Json.num (JsonNumber.fromNat n)
def jint (n : Int) : Json := Json.num (JsonNumber.fromInt n)
def jarr (l : List Json) : Json := Json.arr l.toArray
def jstrs (l : List String) : Json := jarr (l.map jstr)

/-- insertion sort on strings, for canonical output -/
def sortPairs (l : List (String × String)) : List (String × String) :=
  (l.toArray.qsort (fun a b => a.1 < b.1 || (a.1 == b.1 && a.2 < b.2))).toList

end Driver
