import Driver.Util
import Driver.Trie
import HeimdallModel.Lemmas.RTreeRefine
-- @family rtree
/-! Line-protocol family `rtree`: the case format of family `trie`, executed on the byte-level tree `RTree`,
plus the op `{"op":"dump"}` returning a canonical structural dump of the tree. -/
open Lean Heimdall

namespace Driver.RTree

abbrev Val := Driver.Trie.Val

def insertSorted (x : Nat × Json) : List (Nat × Json) → List (Nat × Json)
  | [] => [x]
  | y :: ys => if x.1 ≤ y.1 then x :: y :: ys else y :: insertSorted x ys

mutual
/-- canonical dump; `kind` is the link the node hangs on (the Go side reports its `isWildcard`/`isCatchAll` flags) -/
def dump : Heimdall.RTree Val → String → Json
  | ⟨path, prio, statics, wild, catchAll, values, keys, bt⟩, kind =>
    Json.mkObj [
      ("path", jstr (String.ofList path)),
      ("kind", jstr kind),
      ("prio", jnat prio),
      ("order", jarr (statics.map fun c => jnat c.1.toNat)),
      ("static", jarr ((dumpStatics statics).foldr insertSorted [] |>.map fun p => jarr [jnat p.1, p.2])),
      ("wild", dumpOpt wild "wild"),
      ("catch", dumpOpt catchAll "catch"),
      ("values", jarr (values.map fun v => jnat v.id)),
      ("keys", jstrs keys),
      ("bt", Json.bool bt)]
def dumpStatics : List (Char × Heimdall.RTree Val) → List (Nat × Json)
  | [] => []
  | (i, ch) :: rest => (i.toNat, dump ch "static") :: dumpStatics rest
def dumpOpt : Option (Heimdall.RTree Val) → String → Json
  | none, _ => Json.null
  | some t, kind => dump t kind
end

def applyItem (t : Heimdall.RTree Val) (it : Json) : E (Except String (Heimdall.RTree Val)) := do
  let k ← str it "k"
  let p ← str it "p"
  if k == "add" then
    let pp ← (do
      if isNull it "pp" then pure none else
      let l ← strs it "pp"
      match l with
      | [a, b] => pure (some (a, b))
      | _ => throw "bad pp")
    let v : Val := ⟨← nat it "id", ← nat it "src", pp⟩
    match Heimdall.RTree.add Driver.Trie.canAdd t p v (← bool it "bt") with
    | .ok t' => pure (.ok t')
    | .error .invalidPath => pure (.error "invalid")
    | .error .ambiguousKeys => pure (.error "invalid")
    | .error .constraint => pure (.error "constraint")
  else
    let ids ← nats it "ids"
    match Heimdall.RTree.delete t p (fun v => ids.contains v.id) with
    | some t' => pure (.ok t')
    | none => pure (.error "delete")

def applyBatch (t : Heimdall.RTree Val) (items : List Json) : E (Heimdall.RTree Val × String) := do
  let mut cur := t.clone
  let mut i := 0
  for it in items do
    match ← applyItem cur it with
    | .ok t' => cur := t'
    | .error e => return (t, s!"err:{e}@{i}")
    i := i + 1
  return (cur, "ok")

def nodeEq (a b : Node Val) : Bool :=
  a.pat == b.pat && a.keys == b.keys && a.values.map (·.id) == b.values.map (·.id) && a.bt == b.bt

/-- extensional equality of two tables (`getNode` agrees on every expression occurring in either) -/
def tableEqv (a b : Table Val) : Bool :=
  let ok (x y : Table Val) := x.all fun n => match getNode x n.pat, getNode y n.pat with
    | some n1, some n2 => nodeEq n1 n2
    | _, _ => false
  ok a b && ok b a

def resEq (a b : Res Val) : Bool :=
  a.2 == b.2 && match a.1, b.1 with
    | none, none => true
    | some x, some y => x.value.id == y.value.id && x.keys == y.keys && x.caps == y.caps
    | _, _ => false

def run (c : Json) : E Json := do
  let ops ← arr c "ops"
  let mut t : Heimdall.RTree Val := Heimdall.RTree.empty
  let mut out : List Json := []
  let mut hits := 0
  let mut tt : Table Val := []
  let mut wfFalse := 0
  let mut refineBad := 0
  let mut absBad := 0
  for op in ops do
    let k ← str op "op"
    if k == "batch" then
      let (t', r) ← applyBatch t (← arr op "items")
      let (tt', r2) ← Driver.Trie.applyBatch tt (← arr op "items")
      t := t'
      tt := tt'
      -- validation of the invariant and of the abstraction (both are also proved)
      if !Heimdall.RTree.wfAt true 0 t then wfFalse := wfFalse + 1
      if r != r2 || !tableEqv t.abs tt then absBad := absBad + 1
      out := out ++ [jstr r]
    else if k == "dump" then
      out := out ++ [dump t "static"]
    else
      let acc ← nats op "acc"
      let path ← str op "path"
      if !resEq (Heimdall.RTree.findNode (Driver.Trie.matcher acc) t path.toList [])
          (Heimdall.find (Driver.Trie.matcher acc) t.abs (tokenize path) []) then refineBad := refineBad + 1
      match Heimdall.RTree.find (Driver.Trie.matcher acc) t path with
      | none => out := out ++ [Json.null]
      | some (v, ps) =>
        hits := hits + 1
        out := out ++ [Json.mkObj [("id", jnat v.id),
          ("params", jarr ((sortPairs (Driver.Trie.lastWins ps)).map fun kv => jstrs [kv.1, kv.2]))]]
  return Json.mkObj [("res", jarr out), ("stats", Json.mkObj [("hits", jnat hits),
    ("wf_false", jnat wfFalse), ("refine_bad", jnat refineBad), ("abs_bad", jnat absBad)])]

end Driver.RTree
