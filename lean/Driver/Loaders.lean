import Driver.Util
import HeimdallModel.Spec.Crash
-- @family loaders
/-! Line-protocol family `loaders` (property C19).  Every answer is computed with the functions the theorems of
`Props/C19.lean` are about, for `Guards.head`; `stats.orig` repeats it for `Guards.original` (so that a
disagreement can be told apart from "the fixes are not applied"), `stats.reason` names the model's reason for a
rejection.  Operation `judge` applies the executable specification (`reloadAdmissible`) to what the real code was
observed to do. -/
open Lean Heimdall Heimdall.Loaders

namespace Driver.Loaders

/-! ### decoding -/

def parseBlockType (s : String) : E BlockType :=
  match s with
  | "ENCRYPTED PRIVATE KEY" => pure .encryptedKey
  | "PRIVATE KEY" => pure .pkcs8Key
  | "EC PRIVATE KEY" => pure .ecKey
  | "RSA PRIVATE KEY" => pure .rsaKey
  | "CERTIFICATE" => pure .certificate
  | _ => pure .unknown

def parseAlg (s : String) : Alg :=
  match s with
  | "rsa" => .rsa
  | "ecdsa" => .ecdsa
  | _ => .other

def parseContent (j : Json) : E Content := do
  match strD j "is" "junk" with
  | "key" => pure (.key ⟨← nat j "id", parseAlg (← str j "alg"), ← nat j "bits", ← str j "auto_kid"⟩)
  | "cert" =>
    pure (.cert ⟨← nat j "cid", ← nat j "key", ← str j "subject", ← str j "issuer", strD j "ski" "", strD j "aki" "",
      ← str j "serial", ← bool j "valid", ← bool j "ca", ← bool j "digsig"⟩)
  | _ => pure .junk

def parseBlock (j : Json) : E Block := do
  pure ⟨← parseBlockType (← str j "type"), strD j "kid" "", ← parseContent (fldD j "content" (Json.mkObj []))⟩

def parseBlocks (c : Json) (k : String) : E (List Block) := (arrD c k).mapM parseBlock

def parseConsumer (s : String) : E Consumer :=
  match s with
  | "jwt" => pure .jwt
  | "tls" => pure .tls
  | "httpsig" => pure .httpsig
  | _ => throw s!"bad consumer {s}"

/-- JSON ↦ `Val`; the object `{"$other": …}` stands for a map with a non-string key -/
partial def toVal : Json → Val
  | .null => .null
  | .bool b => .bool b
  | .num n => .num n.mantissa
  | .str s => .str s
  | .arr a => .list (a.toList.map toVal)
  | .obj o =>
    let kvs := o.toList
    if kvs.any (fun kv => kv.1 == "$other") then .other
    else .map (kvs.map fun kv => (kv.1, toVal kv.2))

/-- `Val` ↦ canonical text (keys sorted), for looking overrides up in the case's table -/
partial def render : Val → String
  | .null => "null"
  | .bool b => if b then "true" else "false"
  | .num n => toString n
  | .str s => (Json.str s).compress
  | .list l => "[" ++ ",".intercalate (l.map render) ++ "]"
  | .map m =>
    let sorted := (m.toArray.qsort (fun a b => a.1 < b.1)).toList
    "{" ++ ",".intercalate (sorted.map fun kv => (Json.str kv.1).compress ++ ":" ++ render kv.2) ++ "}"
  | .other => "{\"$other\":true}"

/-- the catalogue of harness/main/loaders_rules.go -/
def protoOf (accepted : String → List String) (k : Kind) (id : String) : Option Proto :=
  let p (scopes : Bool) : Option Proto := some ⟨scopes, fun m => (accepted id).contains (render (.map m))⟩
  let any : Option Proto := some ⟨false, fun _ => true⟩
  match k, id with
  | .authn, "anon" => p false
  | .authn, "jwt" => p true
  | .authn, "intro" => p true
  | .authz, "allow" => any
  | .authz, "cel" => p false
  | .ctx, "ctx" => p false
  | .fin, "hdr" => p false
  | .fin, "noop" => any
  | .eh, "dflt" => p false
  | .eh, "redir" => p false
  | _, _ => none

def parseEnv (c : Json) : E Env := do
  let table := fldD c "accepts" (Json.mkObj [])
  let accepted : String → List String := fun id => (arrD table id).map fun j => render (toVal j)
  let compiles ← (do if isNull c "compiles" then pure [] else strs c "compiles")
  pure ⟨protoOf accepted, fun s => compiles.contains s⟩

def parseRuleDoc (j : Json) : E RuleDoc := do
  pure ⟨← str j "id", toVal (fldD j "execute" Json.null), toVal (fldD j "on_error" Json.null)⟩

def parseContentDoc (j : Json) : E (Option FileContent) := do
  match j with
  | .null => pure none
  | _ =>
    let d : E RuleSetDoc := do pure ⟨boolD j "version_ok" true, ← (arrD j "rules").mapM parseRuleDoc⟩
    match strD j "kind" "doc" with
    | "empty" => pure (some .empty)
    | "unparsable" => pure (some .unparsable)
    | "vanished" => pure (some (.vanished (← d)))
    | _ => pure (some (.doc (← d)))

/-! ### encoding -/

def cls {α : Type} : Out α → String
  | .ok _ => "ok"
  | .err _ => "error"
  | .panic => "panic"
  | .fatal => "fatal"

def reason {α : Type} : Out α → String
  | .err r => (reprStr r).replace "Heimdall.Loaders.Reason." ""
  | _ => ""

def stateJson (c : Consumer) : Option Loaded → Json
  | none => Json.null
  | some s =>
    match c with
    | .jwt => Json.mkObj [("kid", jstr s.kid), ("alg", jstr s.alg), ("kids", jstrs s.kids)]
    | .tls => Json.mkObj [("serial", jstr s.serial), ("chain", jnat s.chainLen)]
    | .httpsig => Json.mkObj [("kids", jstrs s.kids)]

def idsJson : Option (List String) → Json
  | none => jarr []
  | some ids => jstrs (ids.toArray.qsort (· < ·)).toList

def algName : Alg → String
  | .rsa => "RSA"
  | .ecdsa => "ECDSA"
  | .other => "other"

/-! ### operations -/

/-- start with the first content (if any), then reload with the second -/
def material (g : Guards) (c : Consumer) (keyId : String) (first : Option (List Block)) (second : List Block) :
    Json × Out Unit × Out Unit :=
  let (o0, st0) : Out Unit × Option Loaded :=
    match first with
    | none => (.ok (), none)
    | some b => reload g c keyId none b
  let (o1, st1) := reload g c keyId st0 second
  (Json.mkObj [("start", jstr (if first.isNone then "skipped" else cls o0)), ("state0", stateJson c st0),
    ("reload", jstr (cls o1)), ("state1", stateJson c st1)], o0, o1)

def runMaterial (c : Json) : E Json := do
  let consumer ← str c "consumer"
  let second ← parseBlocks c "blocks"
  match consumer with
  | "keystore" =>
    let out (g : Guards) : Json :=
      match createKeyStore g second with
      | .ok es => Json.mkObj [("load", jstr "ok"), ("entries", jarr (es.map fun e =>
          Json.mkObj [("kid", jstr e.kid), ("alg", jstr (algName e.key.alg)), ("bits", jnat e.key.bits),
            ("chain", jnat e.chain.length)]))]
      | o => Json.mkObj [("load", jstr (cls o))]
    pure (Json.mkObj [("res", out .head), ("stats", Json.mkObj [("orig", out .original),
      ("reason", jstr (reason (createKeyStore .head second))), ("blocks", jnat second.length)])])
  | "trust" =>
    let f : PemFile := ⟨second, boolD c "trailing" false⟩
    let strict := boolD c "strict" true
    let out (g : Guards) : Json :=
      match loadTrust g strict f with
      | .ok cs => Json.mkObj [("load", jstr "ok"), ("certs", jstrs (cs.map (·.serial)))]
      | o => Json.mkObj [("load", jstr (cls o))]
    pure (Json.mkObj [("res", out .head), ("stats", Json.mkObj [("orig", out .original),
      ("reason", jstr (reason (loadTrust .head strict f))), ("blocks", jnat second.length)])])
  | _ =>
    let cons ← parseConsumer consumer
    let keyId := strD c "key_id" ""
    let first ← (do if isNull c "first_blocks" then pure none else do pure (some (← parseBlocks c "first_blocks")))
    let (res, o0, o1) := material .head cons keyId first second
    let (orig, _, _) := material .original cons keyId first second
    pure (Json.mkObj [("res", res), ("stats", Json.mkObj [("orig", orig),
      ("reason", jstr (reason (load .head cons keyId second))), ("reason0", jstr (reason o0)),
      ("blocks", jnat second.length), ("reload", jstr (cls o1))])])

def ruleset (g : Guards) (env : Env) (first second : Option FileContent) : Json :=
  let (o0, st0) : Out Unit × Option (List String) :=
    match first with
    | none => (.ok (), none)
    | some content => fileChanged g env none content
  let (o1, st1) : Out Unit × Option (List String) :=
    match second with
    | none => fileChanged g env st0 .empty
    | some content => fileChanged g env st0 content
  Json.mkObj [("start", jstr (if first.isNone then "skipped" else cls o0)), ("state0", idsJson st0),
    ("reload", jstr (cls o1)), ("state1", idsJson st1)]

def runRuleSet (c : Json) : E Json := do
  let env ← parseEnv c
  let first ← parseContentDoc (fldD c "first_doc" Json.null)
  let second ← parseContentDoc (fldD c "second_doc" Json.null)
  let why : String :=
    match second with
    | some content => reason (fileChanged .head env none content).1
    | none => ""
  pure (Json.mkObj [("res", ruleset .head env first second),
    ("stats", Json.mkObj [("orig", ruleset .original env first second), ("reason", jstr why)])])

/-- scripted handlers of a background loop: what the listener / processor does when it sees the n-th content -/
def scripted (behaviour : String) (n : Nat) : List Nat → Out Unit × List Nat := fun seen =>
  match behaviour with
  | "panic" => (.panic, seen ++ [n])
  | "error" => (.err .recovered, seen ++ [n])
  | _ => (.ok (), seen ++ [n])

def runLoop (guard : Guards → Bool) (c : Json) : E Json := do
  let events ← strs c "events"
  let hs := (List.range events.length).zip events |>.map fun (n, b) => scripted b n
  let out (g : Guards) : Json :=
    let p := run (guard g) hs ⟨true, [], 0⟩
    Json.mkObj [("alive", Json.bool p.alive), ("seen", jarr (p.state.map jnat))]
  pure (Json.mkObj [("res", out .head), ("stats", Json.mkObj [("orig", out .original)])])

/-- a key store file watched by the real watcher: contents written one after the other -/
def runWatchMaterial (c : Json) : E Json := do
  let cons ← parseConsumer (← str c "consumer")
  let keyId := strD c "key_id" ""
  let contents ← (arrD c "blocks_list").mapM fun j => do (← j.getArr?).toList.mapM parseBlock
  let out (g : Guards) : Json :=
    let kid : Consumer → String := fun _ => keyId
    let env : Env := ⟨fun _ _ => none, fun _ => false⟩
    -- the first content is loaded by the constructor (not on a watcher goroutine), the others are events
    match contents with
    | [] => Json.null
    | firstC :: rest =>
      let st0 := (reload g cons keyId none firstC).2
      -- the constructor fails if the first content does not load: there is nothing to watch then
      if st0.isNone then Json.mkObj [("alive", Json.bool true), ("start", jstr "error")] else
      let s0 : System := (⟨true, none, none, none, none⟩ : System).setMaterial cons st0
      let trace := rest.foldl (fun (acc : System × List Json) b =>
        let s' := step g env kid acc.1 (.keyFile cons b)
        (s', acc.2 ++ [stateJson cons (s'.material cons)])) (s0, [stateJson cons st0])
      Json.mkObj [("alive", Json.bool trace.1.alive), ("states", jarr trace.2)]
  pure (Json.mkObj [("res", out .head), ("stats", Json.mkObj [("orig", out .original)])])

def parseHandler (s : String) : Out Nat :=
  match s with
  | "panic" => .panic
  | "error" => .err .recovered
  | _ => .ok 200

def replyJson : Reply → Json
  | .response s => jstr s!"status:{s}"
  | .errorResponse => jstr "error"
  | .connectionDropped => jstr "dropped"

def runServe (c : Json) : E Json := do
  let srv : Server := if strD c "server" "http" == "grpc" then .grpc else .http
  let reqs ← strs c "requests"
  let out (g : Guards) : Json :=
    let r := reqs.foldl (fun (acc : Bool × List Json) h =>
      if !acc.1 then acc else
      let (alive, reply) := serve g srv (parseHandler h)
      (alive, acc.2 ++ [replyJson reply])) (true, [])
    Json.mkObj [("alive", Json.bool r.1), ("replies", jarr r.2)]
  pure (Json.mkObj [("res", out .head), ("stats", Json.mkObj [("orig", out .original)])])

/-! ### the credentials file of the redis cache -/

def parseCredVal (j : Json) : E CredVal :=
  match j with
  | .null => pure .null
  | .str "collection" => pure .collection
  | .obj _ => do pure (.scalar (← str j "scalar"))
  | _ => throw "bad value descriptor of a credentials document"

def parseCredDoc (j : Json) : E CredDoc := do
  match ← str j "kind" with
  | "none" => pure .none
  | "malformed" => pure .malformed
  | "null" => pure .null
  | "scalar" => pure .scalar
  | "seq" => pure .seq
  | "map" =>
    let fields ← (← arr j "fields").mapM fun f => do
      match f with
      | .arr #[.str k, v] => pure (k, ← parseCredVal v)
      | _ => throw "bad field descriptor of a credentials document"
    pure (.map fields)
  | k => throw s!"credentials document of kind {k} has no model"

/-- what asking for the credentials yields -/
def credsJson (st : Option Creds) : Json :=
  match credsGet st with
  | .ok c => Json.mkObj [("user", jstr c.user), ("pass", jstr c.pass)]
  | _ => jstr "panic"

/-- the first content is read when the configuration is decoded (a failure there is a start-up failure: nothing to
reload), every further one by `OnChanged` — called directly, or by the watcher goroutine (`watch`) -/
def runCreds (c : Json) : E Json := do
  let docs ← (← arr c "docs").mapM parseCredDoc
  let watched := strD c "mode" "direct" == "watch"
  let out (byValue : Bool) : Json :=
    match docs with
    | [] => Json.null
    | first :: rest =>
      let alive := if watched then [("alive", Json.bool true)] else []
      match loadCreds byValue first with
      | .ok st0 =>
        let trace := rest.foldl (fun (acc : Option Creds × List Json × List Json) d =>
          let (o, st) := reloadCreds byValue acc.1 d
          (st, acc.2.1 ++ [credsJson st], acc.2.2 ++ [jstr (cls o)])) (st0, [credsJson st0], [])
        Json.mkObj ([("start", jstr "ok"), ("states", jarr trace.2.1)] ++ alive ++
          (if watched then [] else [("reloads", jarr trace.2.2)]))
      | o => Json.mkObj ([("start", jstr (cls o))] ++ alive)
  let reasons := docs.map fun d => reason (loadCreds true d)
  pure (Json.mkObj [("res", out true), ("stats", Json.mkObj [("ptr", out false), ("reasons", jstrs reasons)])])

def parseCls (s : String) : Out Unit :=
  match s with
  | "ok" => .ok ()
  | "error" => .err .recovered
  | "panic" => .panic
  | _ => .fatal

/-- the specification applied to an observation: states are compared as canonical texts -/
def runJudge (c : Json) : E Json := do
  let before := (fldD c "before" Json.null).compress
  let after := (fldD c "after" Json.null).compress
  let o := parseCls (← str c "outcome")
  pure (Json.mkObj [("res", Json.bool (reloadAdmissible (some before) o (some after)))])

/-! ### the watcher over several files -/

/-- a real file operation as the events of the model; `next`: the number of the next file to be registered -/
def fileOps (what : String) (k next : Nat) : E (List FileOp) :=
  match what with
  | "write" | "rewrite" | "truncate" => pure [.written k]
  | "chmod" => pure [.attrib k]
  | "replace" => pure [.fileReplaced k]
  | "remove" | "move_away" | "rmdir" => pure [.fileRemoved k]
  | "create" | "move_back" | "mkdir" => pure [.fileBack k]
  | "register" => pure [.fileBack next, .register next]
  | o => throw s!"watchfiles: unknown operation {o}"

/-- after every operation the content of every file that exists is overwritten in place: which listeners are told -/
def probeFiles (l : WatchLoop) (w : Watcher) (n : Nat) : Watcher × List Json :=
  (List.range n).foldl (fun (acc : Watcher × List Json) i =>
    if !acc.1.present.contains i then (acc.1, acc.2 ++ [jstr "absent"]) else
    let w' := watchStep l acc.1 (.written i)
    (w', acc.2 ++ [jstr (if w'.delivered.length > acc.1.delivered.length then "delivered" else "silent")])) (w, [])

def runWatchFiles (c : Json) : E Json := do
  let n ← nat c "files"
  let steps ← (← arr c "steps").mapM fun s => do pure (← str s "do", natD s "file" 0)
  let out (l : WatchLoop) : E Json := do
    let w0 : Watcher := ⟨true, List.range n, List.range n, List.range n, []⟩
    let r ← steps.foldlM (fun (acc : Watcher × Nat × List Json) (s : String × Nat) => do
      let ops ← fileOps s.1 s.2 acc.2.1
      let cnt := if s.1 == "register" then acc.2.1 + 1 else acc.2.1
      let w := watchRun l acc.1 ops
      let (w', obs) := probeFiles l w cnt
      pure (w', cnt, acc.2.2 ++ [jarr obs])) (w0, n, [])
    pure (Json.mkObj [("alive", Json.bool true), ("observed", jarr r.2.2)])
  pure (Json.mkObj [("res", ← out .head),
    ("stats", Json.mkObj [("returning", ← out ⟨true, true⟩), ("following", ← out ⟨true, false⟩)])])

/-! ### rule sets polled from an HTTP endpoint -/

def parsePolled (j : Json) : E Polled := do
  match ← str j "kind" with
  | "unreachable" => pure .unreachable
  | "status" => pure (.status (← nat j "code"))
  | "body" =>
    let t : Transfer := if strD j "transfer" "complete" == "complete" then .complete else .brokenOff
    let cj ← fld j "content"
    let content : EndpointContent ←
      match ← str cj "kind" with
      | "empty" => pure .empty
      | "unparsable" => pure .unparsable
      | "ruleset" => pure (.ruleSet (← strs cj "ids") (boolD cj "accepted" true))
      | k => throw s!"endpoint: unknown content {k}"
    pure (.body t content)
  | k => throw s!"endpoint: unknown response {k}"

def pollName : PollOutcome → String
  | .kept => "kept"
  | .unchanged => "unchanged"
  | .created => "created"
  | .updated => "updated"
  | .deleted => "deleted"
  | .createdRefused => "created:refused"
  | .updatedRefused => "updated:refused"

def runEndpoint (c : Json) : E Json := do
  let rs ← (← arr c "steps").mapM fun s => do parsePolled (← fld s "resp")
  let out (k : FetchErr) : Json :=
    let r := rs.foldl (fun (acc : Option (List String) × List Json × List Json) p =>
      let (o, st) := pollEndpoint k acc.1 p
      (st, acc.2.1 ++ [jstr (pollName o)], acc.2.2 ++ [jstrs (st.getD [])])) (none, [], [jstrs []])
    Json.mkObj [("alive", Json.bool true), ("polls", jarr r.2.1), ("rules", jarr r.2.2)]
  pure (Json.mkObj [("res", out .internal), ("stats", Json.mkObj [("communication", out .communication)])])

/-! ### the status of RuleSet resources -/

/-- into how many parts "/" splits `status.activeIn` (absent or empty: "0/0") -/
def activeInParts (o : Json) : Nat :=
  match (fld o "active_in") >>= (·.getStr?) with
  | .ok s => if s.isEmpty then 2 else (s.splitOn "/").length
  | .error _ => 2

def parseAnswer (s : String) : PatchAnswer :=
  match s with
  | "200" => .ok
  | "500-text" => .status 500
  | "200-garbage" | "200-empty" | "200-cut" | "close" | "reset" => .noAnswer
  | n => match n.toNat? with
    | some code => .status code
    | none => .noAnswer

def runK8s (c : Json) : E Json := do
  let unreachable := boolD c "unreachable" false
  let evs ← (← arr c "steps").mapM fun s => do
    let answers := if unreachable then [PatchAnswer.noAnswer] else (strs s "patch").toOption.getD [] |>.map parseAnswer
    let o := fldD s "obj" Json.null
    -- the `config` values the resource holds (the harness puts the case's value at the one mechanism reference)
    let configs := match fld o "config" with
      | .ok j => [toVal j]
      | .error _ => []
    pure (configs, activeInParts o, answers)
  let out (g : StatusGuards) : Json :=
    let r := evs.foldl (fun (acc : Proc Nat × List Json) e =>
      let p := run false [ruleSetEventWith g true e.1 e.2.1 e.2.2] acc.1
      (p, acc.2 ++ [Json.bool p.alive])) (⟨true, 0, 0⟩, [])
    Json.mkObj [("alive", Json.bool r.1.alive), ("handled", jarr r.2)]
  pure (Json.mkObj [("res", out .head), ("stats", Json.mkObj [("orig", out .original)])])

def run (c : Json) : E Json := do
  match ← str c "op" with
  | "watchfiles" => runWatchFiles c
  | "endpoint" => runEndpoint c
  | "k8s" => runK8s c
  | "material" => runMaterial c
  | "ruleset" => runRuleSet c
  | "watch" =>
    if strD c "mode" "script" == "script" then runLoop (·.listenerRecover) c else runWatchMaterial c
  | "provider" => runLoop (·.providerRecover) c
  | "serve" => runServe c
  | "creds" => runCreds c
  | "judge" => runJudge c
  | op => throw s!"loaders: unknown op {op}"

end Driver.Loaders
