import Driver.Util
import HeimdallModel.Model.MechTypes
import HeimdallModel.Model.MechTemplate
import HeimdallModel.Model.MechClient
import HeimdallModel.Model.Footprint
import HeimdallModel.Gen.Footprints
-- @family mech
/-! Line-protocol family `mech`: a mechanism catalogue, then creations of rule-level variants and (concurrent)
executions, run on the machine of `Model/Mech.lean` with the heimdall type table of `Model/MechTypes.lean` -/
open Lean Heimdall Heimdall.Mech

namespace Driver.Mech

def nestedKeys : List String := ["assertions", "header", "values"]

def objEntries (j : Json) : List (String × Json) :=
  match j with
  | .obj m => m.toList
  | _ => []

/-- configuration object → entries; `assertions` / `header` / `values` are addressed entry by entry -/
def flatten (j : Json) : Entries :=
  (objEntries j).flatMap fun kv =>
    match kv.2 with
    | .obj m => if nestedKeys.contains kv.1 then m.toList.map fun sv => ((kv.1, sv.1), sv.2.compress)
                else [((kv.1, ""), kv.2.compress)]
    | v => [((kv.1, ""), v.compress)]

/-- entries → configuration object -/
def unflatten (es : Entries) : Json :=
  let parse (t : String) : Json := (Json.parse t).toOption.getD (Json.str t)
  let tops := dedup (es.map fun e => e.1.1)
  Json.mkObj (tops.map fun k =>
    match es.find? (fun e => e.1 == (k, "")) with
    | some e => (k, parse e.2)
    | none => (k, Json.mkObj ((es.filter fun e => e.1.1 == k).map fun e => (e.1.2, parse e.2))))

def mkOverride (j : Json) : Override := ⟨(objEntries j).map (·.1), flatten j, true⟩

structure Handle where
  inst  : Nat                                         -- instance handle in the store
  snap  : Option (List (String × Option Entries))     -- its view when it was handed out

structure St where
  σ       : Store Entries Override
  cat     : List ((String × String) × Nat)            -- (kind, id) ↦ prototype handle
  handles : List (Option Handle)                      -- one per create operation

def idle : Thread Entries Override := ⟨0, [], [], [], .run⟩

def changed (st : St) : Json :=
  jarr (((List.range st.handles.length).zip st.handles).filterMap fun ih =>
    match ih.2 with
    | some h => if st.σ.view h.inst == h.snap then none else some (jnat ih.1)
    | none => none)

/-- the accesses of `method` of the instance to its receiver: `Row.program` of the generated footprint table (the
program `c17_current_programs_read_only` is about), fields expanded to the leaf slots of the type -/
def program (σ : Store Entries Override) (h : Nat) (method : String) : E (List Op) := do
  match σ.insts[h]? with
  | none => throw "no such instance"
  | some inst =>
    match Footprint.lookup Gen.footprints inst.typ method, typeByGo inst.typ with
    | some row, some t => pure (row.program t.leaves)
    | none, some t => pure (t.slots.map fun s => Op.rd s.name)   -- no row (extractor failed): read everything
    | _, none => throw s!"no type {inst.typ}"

def lookupCat (st : St) (kind id : String) : Option Nat :=
  (st.cat.find? fun x => x.1 == (kind, id)).map (·.2)

def mkOv (op : Json) : Option Override :=
  if isNull op "config" then none
  else some { mkOverride (fldD op "config" Json.null) with valuesOk := !(boolD op "invalid" false) }

/-- which reference fields of variant `h` still refer to the objects of prototype `p` -/
def sharing (σ : Store Entries Override) (p h : Nat) : List (String × Json) :=
  match σ.insts[p]?, σ.insts[h]? with
  | some pi, some vi =>
    match typeByGo pi.typ with
    | some t => (t.slots.filter (·.ref)).map fun s =>
        (s.name, if pi.addr s.name == vi.addr s.name then Json.str "inherited" else Json.str "fresh")
    | none => []
  | _, _ => []

/-- what the property demands the rule to observe ("own setting always wins") for a variant of prototype `p` (in
the store `σ₀` it was created from), if that differs from what the - bug-compatible - model says it stands for;
and the keys whose zero value the code ignores -/
def specOf (σ₀ : Store Entries Override) (p : Nat) (ov : Override) (eff : Entries) : Json × Json :=
  let spec := effectiveSpec σ₀ p ov
  let zi := match (σ₀.insts[p]?).bind (fun i => typeByGo i.typ) with
    | some t => zeroIgnored t ov
    | none => []
  (if spec == eff then Json.null else unflatten spec,
   jarr (zi.map fun k => Json.str (if k.2 == "" then k.1 else k.1 ++ "." ++ k.2)))

/-! ### what an execution has to render (`Model/MechTemplate.lean`)

Every string of the object's effective configuration that is a template of the named-template fragment (`Tpl.parse`,
uses `define` / `block` / `template`) is rendered with the object's OWN definitions and the inputs of the request; the
implementation side looks for the rendering in what the execution produced. -/

partial def strLeaves (path : List String) : Json → List (List String × String)
  | .str s => [(path, s)]
  | .obj m => m.toList.flatMap fun kv => strLeaves (path ++ [kv.1]) kv.2
  | .arr a => a.toList.flatMap (strLeaves path)
  | _ => []

def hasSub (s sub : String) : Bool := (s.splitOn sub).length > 1

def knownFields : List String := ["Subject.ID", "Request.Method"]

def tplInputs (req : Json) : Tpl.Inputs :=
  let sub := match req.getObjVal? "sub" with
    | .ok s => strD s "id" ""
    | .error _ => "u1"
  let method := strD req "method" "GET"
  fun p => if p == "Subject.ID" then sub else if p == "Request.Method" then method else ""

/-- `null`: no template of the fragment in the configuration; else the renderings to be found in the output of the
execution (`strs`) and whether some template cannot be rendered with its own definitions (`fails`) -/
def wants (eff req : Json) : Json × Nat :=
  let payload := strD eff "payload" ""
  let leaves := (strLeaves [] eff).filter fun ps =>
    hasSub ps.2 "{{" && (ps.1.getLast? != some "url") && (ps.1.getLast? != some "token_url") &&
    (match ps.1 with
     | ["values", k] => hasSub payload (".Values." ++ k ++ " ")
     | _ => true)
  let srcs := leaves.filterMap fun ps => match Tpl.parse ps.2 with
    | some src => if Tpl.usesNames src && (Tpl.fieldsOf src).all knownFields.contains then some src else none
    | none => none
  if srcs.isEmpty then (Json.null, 0) else
    let outs := srcs.map fun src => (Tpl.renderOwn src (tplInputs req)).map String.join
    (Json.mkObj [("strs", jstrs ((outs.filterMap id).filter (· != ""))), ("fails", outs.any (·.isNone))], srcs.length)

/-! ### what an execution sends to the endpoint of its mechanism (`Model/MechClient.lean`)

For an object whose endpoint is one of the observed ones (`…/count/…`): the settings `Endpoint.CreateClient` reads off
the object's OWN effective configuration (`retry`, `http_cache`), whether the request can be answered by the HTTP cache
layer at all (GET without payload), and `cache_ttl` of the mechanism.  `…/count/busy/…` answers 503 to everything. -/

def clientObj (goType : String) (eff : Json) : Option Client.Obj :=
  let ep := match eff.getObjVal? "endpoint" with
    | .ok e => e
    | .error _ => fldD eff "identity_info_endpoint" Json.null
  let url := strD ep "url" ""
  if !hasSub url "/count/" then none else
    let hc := fldD ep "http_cache" Json.null
    let ttl := match hc.getObjVal? "default_ttl" with
      | .ok v => v.compress
      | .error _ => ""
    let retry := match ep.getObjVal? "retry" with
      | .ok .null => none
      | .ok v => some v.compress
      | .error _ => none
    let mechTtl := match eff.getObjVal? "cache_ttl" with
      | .ok v => Client.positive v.compress
      | .error _ => goType == "genericContextualizer"     -- its constructor's default: 10s
    some { client := ⟨retry, boolD hc "enabled" false, ttl⟩, peer := "SERVER", get := strD ep "method" "POST" == "GET",
           body := strD eff "payload" "" != "", busy := hasSub url "/count/busy/", mechTtl := mechTtl }

structure Counters where
  observed : Nat := 0
  reused : Nat := 0
  retried : Nat := 0
  inherited : Nat := 0
  fresh : Nat := 0
  alias : Nat := 0
  variant : Nat := 0
  errors : Nat := 0
  reads : Nat := 0
  steps : Nat := 0
  concCreated : Nat := 0
  stuck : Nat := 0
  zeroIgnored : Nat := 0
  namedTemplates : Nat := 0
  namedFailing : Nat := 0

/-- the answer for an object handed out: `res` part, effective configuration, specification's configuration (if
different), keys whose zero value the code ignores -/
def describe (st : St) (p : Option Nat) (h : Nat) (isProto : Bool) : List (String × Json) × Json :=
  if isProto then ([("st", "ok"), ("alias", true), ("ref", true)], unflatten (effective st.σ h))
  else ([("st", "ok"), ("alias", false), ("shared", Json.mkObj (sharing st.σ (p.getD 0) h)), ("ref", true)],
        unflatten (effective st.σ h))

def countShared (r : List (String × Json)) (v : String) : Nat :=
  match r.find? (fun x => x.1 == "shared") with
  | some (_, .obj m) => (m.toList.filter fun x => x.2 == Json.str v).length
  | _ => 0

def run (c : Json) : E Json := do
  let mut st : St := ⟨⟨[], [], []⟩, [], []⟩
  let mut n : Counters := {}
  for m in ← arr c "catalogue" do
    let kind ← str m "kind"
    let typ ← str m "type"
    match typeByName kind typ with
    | none => throw s!"unknown mechanism type {kind}/{typ}"
    | some t =>
      let h := st.σ.insts.length
      st := { st with σ := load st.σ t (← str m "id") (flatten (fldD m "config" (Json.mkObj []))),
                      cat := st.cat ++ [((kind, ← str m "id"), h)] }
  let mut out : List Json := []
  let mut effs : List Json := []      -- per object handed out (creates, then concurrent creates of a batch)
  let mut specs : List Json := []
  let mut zeros : List Json := []
  let mut wantL : List Json := []     -- per operation: what an execution has to render (`wants`), `null` otherwise
  let mut callL : List Json := []     -- per operation: the requests the endpoint has to receive, `null` if not observed
  let mut cst : List ((Nat × String) × Client.St) := []   -- per (object, request): what its executions have left behind
  for op in ← arr c "ops" do
    let k ← str op "op"
    if k == "create" then
      let p := lookupCat st (← str op "kind") (← str op "id")
      let ov := mkOv op
      match create st.σ p ov with
      | .notFound =>
        n := { n with errors := n.errors + 1 }
        st := { st with handles := st.handles ++ [none] }
        effs := effs ++ [Json.null]; specs := specs ++ [Json.null]; zeros := zeros ++ [jarr []]
        out := out ++ [Json.mkObj [("st", "notfound"), ("changed", changed st)]]
      | .configError =>
        n := { n with errors := n.errors + 1 }
        st := { st with handles := st.handles ++ [none] }
        effs := effs ++ [Json.null]; specs := specs ++ [Json.null]; zeros := zeros ++ [jarr []]
        out := out ++ [Json.mkObj [("st", "config"), ("changed", changed st)]]
      | .proto h =>
        n := { n with alias := n.alias + 1 }
        st := { st with handles := st.handles ++ [some ⟨h, st.σ.view h⟩] }
        let (r, e) := describe st p h true
        effs := effs ++ [e]; specs := specs ++ [Json.null]; zeros := zeros ++ [jarr []]
        out := out ++ [Json.mkObj (r ++ [("changed", changed st)])]
      | .variant σ' h =>
        let σ₀ := st.σ
        st := { st with σ := σ', handles := st.handles ++ [some ⟨h, σ'.view h⟩] }
        let (r, e) := describe st p h false
        let (sp, zi) := match p, ov with
          | some p, some ov => specOf σ₀ p ov (effective σ' h)
          | _, _ => (Json.null, jarr [])
        n := { n with variant := n.variant + 1, inherited := n.inherited + countShared r "inherited",
                      fresh := n.fresh + countShared r "fresh",
                      zeroIgnored := n.zeroIgnored + (if zi == jarr [] then 0 else 1) }
        effs := effs ++ [e]; specs := specs ++ [sp]; zeros := zeros ++ [zi]
        out := out ++ [Json.mkObj (r ++ [("changed", changed st)])]
    else if k == "exec" then
      let hi ← nat op "h"
      match st.handles[hi]? with
      | some (some h) =>
        let prog ← program st.σ h.inst "Execute"
        let th : Thread Entries Override := ⟨h.inst, prog, prog, [], .run⟩
        let cfg : Config Entries Override := ⟨st.σ, upd (fun _ => idle) 0 th⟩
        let cfg' := runSched heimdall cfg (List.replicate prog.length 0)
        n := { n with reads := n.reads + (cfg'.threads 0).seen.length,
                      stuck := n.stuck + (if (cfg'.threads 0).ops.isEmpty then 0 else 1) }
        st := { st with σ := cfg'.store }
        -- the rendering is a function of the object's own configuration (its template texts) and of the request
        let (w, nt) := wants (unflatten (effective st.σ h.inst)) (fldD op "req" (Json.mkObj []))
        n := { n with namedTemplates := n.namedTemplates + nt,
                      namedFailing := n.namedFailing + (if boolD w "fails" false then 1 else 0) }
        wantL := wantL ++ [w]
        -- the upstream traffic is a function of the object's own configuration and of its own earlier executions
        let goType := ((st.σ.insts[h.inst]?).map (·.typ)).getD ""
        let mut calls : List (String × Json) := []
        match clientObj goType (unflatten (effective st.σ h.inst)) with
        | some o =>
          let key := (h.inst, (fldD op "req" (Json.mkObj [])).compress)
          let s₀ := ((cst.find? fun e => e.1 == key).map (·.2)).getD {}
          let r := Client.exec o s₀
          cst := (key, r.2) :: cst.filter fun e => e.1 != key
          n := { n with observed := n.observed + 1, reused := n.reused + (if r.1 == 0 then 1 else 0),
                        retried := n.retried + (if r.1 > 1 then 1 else 0) }
          calls := [("calls", jnat r.1)]
          callL := callL ++ [Json.mkObj [("n", jnat r.1), ("fails", o.busy)]]
        | none => callL := callL ++ [Json.null]
        out := out ++ [Json.mkObj ([("ran", Json.bool true), ("ref", Json.bool true)] ++ (if w.isNull then [] else [("rendered", Json.bool true)]) ++
          calls ++ [("changed", changed st)])]
      | _ =>
        wantL := wantL ++ [Json.null]
        callL := callL ++ [Json.null]
        out := out ++ [Json.mkObj [("ran", false), ("changed", changed st)]]
    else if k == "par" then
      -- `n` concurrent executions round-robin over the handles `hs`, interleaved with the creation of the variants
      -- listed under `creates` (every one a thread of its own going through `begin` / `slot` / `publish`): one
      -- micro-step of each thread in turn
      let hs ← nats op "hs"
      let cnt ← nat op "n"
      let live := hs.filterMap fun hi => match st.handles[hi]? with
        | some (some h) => some h.inst
        | _ => none
      if live.isEmpty then
        -- nothing to execute: the batch is skipped, its creations are not performed (their numbers stay unused)
        for _ in arrD op "creates" do
          st := { st with handles := st.handles ++ [none] }
          effs := effs ++ [Json.null]; specs := specs ++ [Json.null]; zeros := zeros ++ [jarr []]
        out := out ++ [Json.mkObj [("ran", false), ("changed", changed st)]]
      else
        let mut threads : Nat → Thread Entries Override := fun _ => idle
        let mut maxLen := 0
        for j in List.range cnt do
          let inst := live[j % live.length]!
          let prog ← program st.σ inst "Execute"
          maxLen := max maxLen prog.length
          threads := upd threads j ⟨inst, prog, prog, [], .run⟩
        -- the creators: what the factory decides is decided on the store before the batch
        let creates := arrD op "creates"
        let mut decisions : List (Option Nat × Option Override × Decision) := []
        let mut ti := cnt
        let mut creatorOf : List (Option Nat) := []
        for cr in creates do
          let p := lookupCat st (← str cr "kind") (← str cr "id")
          let ov := mkOv cr
          let d := decision st.σ p ov
          decisions := decisions ++ [(p, ov, d)]
          match d with
          | .build p' o =>
            let prog ← program st.σ p' "WithConfig"
            maxLen := max maxLen (prog.length + 3 + ((st.σ.insts[p']?).map (·.slots.length)).getD 0)
            threads := upd threads ti ⟨p', prog, prog, [], .create o⟩
            creatorOf := creatorOf ++ [some ti]
            ti := ti + 1
          | _ => creatorOf := creatorOf ++ [none]
        let sched := (List.replicate (maxLen + 1) (List.range ti)).flatten
        let σ₀ := st.σ
        let cfg' := runSched heimdall ⟨st.σ, threads⟩ sched
        n := { n with steps := n.steps + sched.length }
        -- every execution has seen exactly what its program reads when run alone on the store
        let ok := (List.range cnt).all fun j =>
          let t := cfg'.threads j
          t.ops.isEmpty && (match cfg'.store.insts[t.recv]? with
            | some inst => t.seen == readAll cfg'.store.cells inst t.prog
            | none => false)
        st := { st with σ := cfg'.store }
        -- the objects created meanwhile are handed out, in the order of `creates`
        let mut created : List Json := []
        for ((p, ov, d), tix) in decisions.zip creatorOf do
          match d, tix with
          | .build p' o, some tix =>
            match (cfg'.threads tix).phase with
            | .done h =>
              st := { st with handles := st.handles ++ [some ⟨h, st.σ.view h⟩] }
              let (r, e) := describe st p h false
              let (sp, zi) := specOf σ₀ p' o (effective st.σ h)
              n := { n with concCreated := n.concCreated + 1, inherited := n.inherited + countShared r "inherited",
                            fresh := n.fresh + countShared r "fresh" }
              effs := effs ++ [e]; specs := specs ++ [sp]; zeros := zeros ++ [zi]
              created := created ++ [Json.mkObj r]
            | _ => throw "a creation did not finish within the schedule"
          | .proto h, _ =>
            st := { st with handles := st.handles ++ [some ⟨h, st.σ.view h⟩] }
            let (r, e) := describe st p h true
            effs := effs ++ [e]; specs := specs ++ [Json.null]; zeros := zeros ++ [jarr []]
            created := created ++ [Json.mkObj r]
          | .configError, _ =>
            st := { st with handles := st.handles ++ [none] }
            effs := effs ++ [Json.null]; specs := specs ++ [Json.null]; zeros := zeros ++ [jarr []]
            created := created ++ [Json.mkObj [("st", "config")]]
          | _, _ =>
            st := { st with handles := st.handles ++ [none] }
            effs := effs ++ [Json.null]; specs := specs ++ [Json.null]; zeros := zeros ++ [jarr []]
            created := created ++ [Json.mkObj [("st", "notfound")]]
        out := out ++ [Json.mkObj [("ran", true), ("par_ok", ok), ("created", jarr created), ("changed", changed st)]]
    else throw s!"unknown op {k}"
    if k != "exec" then
      wantL := wantL ++ [Json.null]
      callL := callL ++ [Json.null]
  return Json.mkObj [("res", jarr out), ("eff", jarr effs), ("eff_spec", jarr specs), ("zero_ignored", jarr zeros),
    ("want", jarr wantL), ("want_calls", jarr callL),
    ("stats", Json.mkObj [("alias", jnat n.alias), ("variant", jnat n.variant), ("errors", jnat n.errors),
      ("inherited_refs", jnat n.inherited), ("fresh_refs", jnat n.fresh), ("reads", jnat n.reads),
      ("interleaved_steps", jnat n.steps), ("variants_created_interleaved", jnat n.concCreated),
      ("stuck_programs", jnat n.stuck), ("zero_ignored_overrides", jnat n.zeroIgnored),
      ("executions_with_observed_upstream", jnat n.observed), ("observed_executions_reusing", jnat n.reused),
      ("observed_executions_retrying", jnat n.retried),
      ("named_templates_rendered", jnat n.namedTemplates), ("named_templates_failing_alone", jnat n.namedFailing),
      ("cells", jnat st.σ.cells.length), ("instances", jnat st.σ.insts.length)])]

end Driver.Mech
