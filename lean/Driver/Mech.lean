import Driver.Util
import HeimdallModel.Model.MechTypes
import HeimdallModel.Model.Footprint
import HeimdallModel.Gen.Footprints
-- @family mech
/-! Line-protocol family `mech`: a mechanism catalogue, then creations of rule-level variants and (concurrent)
executions, run on the machine of `Model/Mech.lean` with the heimdall type table of `Model/MechTypes.lean` -/
open Lean Heimdall Heimdall.Mech

namespace Driver.Mech

def nestedKeys : List String := ["assertions", "header", "values"]

def objEntries (j : Json) : List (String × Json) :=
  match j with
  | .obj m => m.toList
  | _ => []

/-- configuration object → entries; `assertions` / `header` / `values` are addressed entry by entry -/
def flatten (j : Json) : Entries :=
  (objEntries j).flatMap fun kv =>
    match kv.2 with
    | .obj m => if nestedKeys.contains kv.1 then m.toList.map fun sv => ((kv.1, sv.1), sv.2.compress)
                else [((kv.1, ""), kv.2.compress)]
    | v => [((kv.1, ""), v.compress)]

/-- entries → configuration object -/
def unflatten (es : Entries) : Json :=
  let parse (t : String) : Json := (Json.parse t).toOption.getD (Json.str t)
  let tops := dedup (es.map fun e => e.1.1)
  Json.mkObj (tops.map fun k =>
    match es.find? (fun e => e.1 == (k, "")) with
    | some e => (k, parse e.2)
    | none => (k, Json.mkObj ((es.filter fun e => e.1.1 == k).map fun e => (e.1.2, parse e.2))))

def mkOverride (j : Json) : Override := ⟨(objEntries j).map (·.1), flatten j⟩

structure Handle where
  inst  : Nat                                         -- instance handle in the store
  snap  : Option (List (String × Option Entries))     -- its view when it was handed out

structure St where
  σ       : Store Entries Override
  cat     : List ((String × String) × Nat)            -- (kind, id) ↦ prototype handle
  handles : List (Option Handle)                      -- one per create operation

def idle : Thread Entries Override := ⟨0, [], [], [], .run⟩

def changed (st : St) : Json :=
  jarr (((List.range st.handles.length).zip st.handles).filterMap fun ih =>
    match ih.2 with
    | some h => if st.σ.view h.inst == h.snap then none else some (jnat ih.1)
    | none => none)

/-- the accesses of `method` of the instance to its receiver, from the generated footprint table (reads only:
the model is the one of the repaired code) -/
def program (σ : Store Entries Override) (h : Nat) (method : String) : E (List Op) := do
  match σ.insts[h]? with
  | none => throw "no such instance"
  | some inst =>
    match Footprint.lookup Gen.footprints inst.typ method, typeByGo inst.typ with
    | some row, some t => pure (row.reads.flatMap fun f => (t.leaves f).map Op.rd)
    | none, some t => pure (t.slots.map fun s => Op.rd s.name)   -- no row (extractor failed): read everything
    | _, none => throw s!"no type {inst.typ}"

def lookupCat (st : St) (kind id : String) : Option Nat :=
  (st.cat.find? fun x => x.1 == (kind, id)).map (·.2)

def run (c : Json) : E Json := do
  let mut st : St := ⟨⟨[], [], []⟩, [], []⟩
  let mut nInherited := 0
  let mut nFresh := 0
  let mut nAlias := 0
  let mut nVariant := 0
  let mut nErr := 0
  let mut nReads := 0
  let mut nSteps := 0
  for m in ← arr c "catalogue" do
    let kind ← str m "kind"
    let typ ← str m "type"
    match typeByName kind typ with
    | none => throw s!"unknown mechanism type {kind}/{typ}"
    | some t =>
      let h := st.σ.insts.length
      st := { st with σ := load st.σ t (← str m "id") (flatten (fldD m "config" (Json.mkObj []))),
                      cat := st.cat ++ [((kind, ← str m "id"), h)] }
  let mut out : List Json := []
  let mut effs : List Json := []
  for op in ← arr c "ops" do
    let k ← str op "op"
    if k == "create" then
      let kind ← str op "kind"
      let p := lookupCat st kind (← str op "id")
      let ov := if isNull op "config" then none else some (mkOverride (fldD op "config" Json.null))
      match create st.σ p ov with
      | .notFound =>
        nErr := nErr + 1
        st := { st with handles := st.handles ++ [none] }
        effs := effs ++ [Json.null]
        out := out ++ [Json.mkObj [("st", "notfound"), ("changed", changed st)]]
      | .configError =>
        nErr := nErr + 1
        st := { st with handles := st.handles ++ [none] }
        effs := effs ++ [Json.null]
        out := out ++ [Json.mkObj [("st", "config"), ("changed", changed st)]]
      | .proto h =>
        nAlias := nAlias + 1
        st := { st with handles := st.handles ++ [some ⟨h, st.σ.view h⟩] }
        effs := effs ++ [unflatten (effective st.σ h)]
        out := out ++ [Json.mkObj [("st", "ok"), ("alias", true), ("ref", true), ("changed", changed st)]]
      | .variant σ' h =>
        nVariant := nVariant + 1
        st := { st with σ := σ', handles := st.handles ++ [some ⟨h, σ'.view h⟩] }
        -- which reference fields still refer to the prototype's objects
        let ph := p.getD 0
        let shared : List (String × Json) :=
          match σ'.insts[ph]?, σ'.insts[h]? with
          | some pi, some vi =>
            match typeByGo pi.typ with
            | some t => (t.slots.filter (·.ref)).map fun s =>
                (s.name, if pi.addr s.name == vi.addr s.name then Json.str "inherited" else Json.str "fresh")
            | none => []
          | _, _ => []
        nInherited := nInherited + (shared.filter fun x => x.2 == Json.str "inherited").length
        nFresh := nFresh + (shared.filter fun x => x.2 == Json.str "fresh").length
        effs := effs ++ [unflatten (effective st.σ h)]
        out := out ++ [Json.mkObj [("st", "ok"), ("alias", false), ("shared", Json.mkObj shared), ("ref", true),
                                   ("changed", changed st)]]
    else if k == "exec" then
      let hi ← nat op "h"
      match st.handles[hi]? with
      | some (some h) =>
        let prog ← program st.σ h.inst "Execute"
        let th : Thread Entries Override := ⟨h.inst, prog, prog, [], .run⟩
        let cfg : Config Entries Override := ⟨st.σ, upd (fun _ => idle) 0 th⟩
        let cfg' := runSched heimdall cfg (List.replicate prog.length 0)
        nReads := nReads + (cfg'.threads 0).seen.length
        st := { st with σ := cfg'.store }
        out := out ++ [Json.mkObj [("ran", (cfg'.threads 0).ops.isEmpty), ("ref", true), ("changed", changed st)]]
      | _ => out := out ++ [Json.mkObj [("ran", false), ("changed", changed st)]]
    else if k == "par" then
      -- `n` concurrent executions round-robin over the handles `hs`, interleaved with the creation of one
      -- more variant (`with`, optional) - one micro-step of each thread in turn
      let hs ← nats op "hs"
      let n ← nat op "n"
      let live := hs.filterMap fun hi => match st.handles[hi]? with
        | some (some h) => some h.inst
        | _ => none
      if live.isEmpty then
        out := out ++ [Json.mkObj [("ran", false), ("changed", changed st)]]
      else
        let mut threads : Nat → Thread Entries Override := fun _ => idle
        let mut maxLen := 0
        for j in List.range n do
          let inst := live[j % live.length]!
          let prog ← program st.σ inst "Execute"
          maxLen := max maxLen prog.length
          threads := upd threads j ⟨inst, prog, prog, [], .run⟩
        let sched := (List.replicate (maxLen + 1) (List.range n)).flatten
        let cfg' := runSched heimdall ⟨st.σ, threads⟩ sched
        nSteps := nSteps + sched.length
        -- every thread has seen exactly what its program reads when run alone on the store
        let ok := (List.range n).all fun j =>
          let t := cfg'.threads j
          t.ops.isEmpty && (match cfg'.store.insts[t.recv]? with
            | some inst => t.seen == readAll cfg'.store.cells inst t.prog
            | none => false)
        st := { st with σ := cfg'.store }
        out := out ++ [Json.mkObj [("ran", true), ("par_ok", ok), ("changed", changed st)]]
    else throw s!"unknown op {k}"
  return Json.mkObj [("res", jarr out), ("eff", jarr effs),
    ("stats", Json.mkObj [("alias", jnat nAlias), ("variant", jnat nVariant), ("errors", jnat nErr),
      ("inherited_refs", jnat nInherited), ("fresh_refs", jnat nFresh), ("reads", jnat nReads),
      ("interleaved_steps", jnat nSteps), ("cells", jnat st.σ.cells.length), ("instances", jnat st.σ.insts.length)])]

end Driver.Mech
