import Driver.Util
import HeimdallModel.Spec.ProxyFwd
-- @family proxyfwd
/-! Line-protocol family `proxyfwd` (property C15): one client request through the proxy-mode model.

`{"fam":"proxyfwd", …}` answers with what the model says the upstream reads; with `"obs": <result of the
implementation>` it answers with the list of clauses of the specification the observed result violates. -/
open Lean Heimdall Heimdall.ProxyFwd

namespace Driver.ProxyFwd

def bytes (s : String) : Bytes := s.toList

def hexLower (n : Nat) : Char := if n < 10 then Char.ofNat (48 + n) else Char.ofNat (87 + n)

/-- bytes in a result line: printable ASCII except the backslash as is, every other byte as `\\xHH` (both executors
write observed bytes this way, so that a result line is plain ASCII) -/
def encOut (b : Bytes) : String :=
  String.ofList (b.flatMap fun c =>
    if 0x20 ≤ c.toNat && c.toNat < 0x7f && c ≠ '\\' then [c]
    else ['\\', 'x', hexLower (c.toNat / 16 % 16), hexLower (c.toNat % 16)])

def decOut : List Char → Bytes
  | '\\' :: 'x' :: a :: b :: rest => octet a b :: decOut rest
  | c :: rest => c :: decOut rest
  | [] => []

def jbytes (b : Bytes) : Json := Json.str (encOut b)
def obytes (s : String) : Bytes := decOut s.toList

def opairs (j : Json) (k : String) : E (List (Bytes × Bytes)) := do
  (arrD j k).mapM fun p => do
    match (← p.getArr?).toList with
    | [a, b] => pure (obytes (← a.getStr?), obytes (← b.getStr?))
    | _ => throw s!"bad pair in {k}"

def pairs (j : Json) (k : String) : E (List (Bytes × Bytes)) := do
  (arrD j k).mapM fun p => do
    match (← p.getArr?).toList with
    | [a, b] => pure (bytes (← a.getStr?), bytes (← b.getStr?))
    | _ => throw s!"bad pair in {k}"

def parseCase (c : Json) : E Case := do
  let rule ← fld c "rule"
  let slashes ← match strD rule "slashes" "" with
    | "on" => pure SlashHandling.on
    | "no_decode" => pure SlashHandling.noDecode
    | "off" | "" => pure SlashHandling.off
    | s => throw s!"bad slashes {s}"
  let rewrite ← (do
    if isNull rule "rewrite" then pure none else
    let r ← fld rule "rewrite"
    pure (some { scheme := bytes (strD r "scheme" ""), strip := bytes (strD r "strip" ""),
                 add := bytes (strD r "add" ""),
                 stripQ := ((fld r "strip_q" >>= (·.getArr?)).toOption.map (·.toList) |>.getD []).filterMap
                   (fun j => j.getStr?.toOption.map bytes) : Rewrite }))
  let pipe ← fld c "pipe"
  let req ← fld c "req"
  pure {
    trusted := ((fld c "trusted" >>= (·.getArr?)).toOption.map (·.toList) |>.getD []).filterMap
      (fun j => j.getStr?.toOption.map bytes),
    rule := { slashes := slashes, host := bytes "UP", rewrite := rewrite },
    pipe := { headers := ← pairs pipe "headers", cookies := ← pairs pipe "cookies" },
    req := { method := bytes (← str req "method"), target := bytes (← str req "target"),
             host := bytes (← str req "host"), headers := ← pairs req "headers",
             body := bytes (strD req "body" ""), peer := bytes (strD c "peer" "127.0.0.1"),
             tls := boolD c "tls" false } }

def jpairs (l : List (Bytes × Bytes)) : Json := jarr (l.map fun p => jarr [jbytes p.1, jbytes p.2])

def outcomeJson : Outcome → Json
  | .unmodelled => Json.mkObj [("unmodelled", Json.bool true)]
  | .rejected st => Json.mkObj [("status", jnat st), ("relayed", Json.bool false), ("hits", jnat 0), ("up", Json.null)]
  | .forwarded tls dial up => Json.mkObj [("status", jnat 200), ("relayed", Json.bool true), ("hits", jnat 1),
      ("up", Json.mkObj [("tls", Json.bool tls), ("dial", jbytes dial), ("method", jbytes up.method), ("target", jbytes up.target),
        ("proto", jstr "HTTP/1.1"), ("host", jarr [jbytes up.host]), ("headers", jpairs up.headers),
        ("body", jbytes up.body)])]

/-- the implementation's answer, read back as an `Outcome` -/
def parseObs (o : Json) : E Outcome := do
  if !(isNull o "unmodelled") then return .unmodelled
  if isNull o "status" then return .rejected 0
  if isNull o "up" then return .rejected (← nat o "status")
  let up ← fld o "up"
  let host := match arrD up "host" with
    | [h] => (h.getStr?.toOption.map obytes).getD []
    | _ => bytes "<not exactly one Host line>"
  if natD o "status" 0 != 200 || natD o "hits" 0 != 1 || strD up "proto" "" != "HTTP/1.1" || !(isNull up "err") then
    return .rejected 0
  let target := obytes (← str up "target")
  pure (.forwarded (boolD up "tls" false) (bytes (strD up "dial" "?"))
    { method := obytes (← str up "method"), path := before '?' target, query := after '?' target, host := host,
      headers := ← opairs up "headers", body := obytes (strD up "body" "") })

def b2n (b : Bool) : Nat := if b then 1 else 0

def stats (c : Case) (o : Outcome) : Json :=
  let rawp := Spec.origRawPath c
  let q := Spec.origQuery c
  let ch := canonHeaders c.req.headers
  let trusted := isTrusted c.trusted c.req.peer
  let pf := pipeFirst c.pipe.headers
  let collide := (pf.filter fun kv => (values ch kv.1) ≠ []).length
  let caseCollide := (c.pipe.headers.filter fun kv =>
      c.req.headers.any (fun x => canonicalKey x.1 = canonicalKey kv.1 && x.1 ≠ kv.1)).length
  let fwdNames := (ch.filter fun x => untrustedHeaders.contains x.1).length
  let rw := c.rule.rewrite
  Json.mkObj [
    ("outcome", jstr (match o with | .unmodelled => "unmodelled" | .rejected st => s!"rejected{st}" | .forwarded tls _ _ => if tls then "https" else "http")),
    ("slashes", jstr (match c.rule.slashes with | .on => "on" | .off => "off" | .noDecode => "no_decode")),
    ("trusted", jnat (b2n trusted)),
    ("escapes", jnat (rawp.filter (· = '%')).length),
    ("encSlash", jnat (b2n (containsEncodedSlashL rawp))),
    ("nonCanon", jnat (b2n (match pathUnescapeL rawp with | some d => escapePath d ≠ rawp | none => false))),
    ("invalidEnc", jnat (b2n (!validEncodedPath rawp))),
    ("qpairs", jnat (if q = [] then 0 else (splitOn '&' q).length)),
    ("qbad", jnat (b2n ((splitOn '&' q).any fun p => p ≠ [] && (p.contains ';' || queryUnescape (before '=' p) = none || queryUnescape (after '=' p) = none)))),
    ("strip", jnat (b2n (match rw with | some r => r.strip ≠ [] | none => false))),
    ("stripHits", jnat (b2n (match rw with | some r => r.strip ≠ [] && r.strip.isPrefixOf rawp | none => false))),
    ("add", jnat (b2n (match rw with | some r => r.add ≠ [] | none => false))),
    ("schemeRw", jnat (b2n (match rw with | some r => r.scheme ≠ [] | none => false))),
    ("stripQ", jnat (match rw with | some r => r.stripQ.length | none => 0)),
    ("stripQHits", jnat (match rw with | some r => ((splitOn '&' q).filter fun p => !keepPair r.stripQ p).length | none => 0)),
    ("pipeHeaders", jnat c.pipe.headers.length),
    ("pipeDupNames", jnat (c.pipe.headers.length - pf.length)),
    ("collide", jnat collide),
    ("collideOtherCase", jnat caseCollide),
    ("clientFwdHeaders", jnat fwdNames),
    ("multiXFF", jnat (b2n ((values ch hXFFor).length ≥ 2 || (values ch hForwarded).length ≥ 2))),
    ("listenerTLS", jnat (b2n c.req.tls)),
    ("forwardedUri", jnat (b2n (Spec.usesForwardedUri c))),
    ("hopByHop", jnat (ch.filter fun x => isHop ch x.1).length),
    ("connectionNamesPipe", jnat (b2n ((connectionNamed ch).any fun k => Spec.pipeValues c k ≠ []))),
    ("pipeOwnedNames", jnat (b2n (Spec.pipeValues c hUserAgent ≠ [] || Spec.pipeValues c hAcceptEncoding ≠ [] || Spec.pipeValues c hCookie ≠ []))),
    ("pipeContinued", jnat (b2n ((untrustedHeaders.any fun k => Spec.pipeContinued c k)))),
    ("decoy", jnat (b2n (c.req.host = "DECOY".toList || c.pipe.headers.any (fun x => x.2 = "DECOY".toList) || c.req.headers.any (fun x => x.2 = "DECOY".toList)))),
    ("pipeEmpty", jnat (c.pipe.headers.filter fun kv => kv.2 = []).length),
    ("pipeBlank", jnat (c.pipe.headers.filter fun kv => kv.2 ≠ [] && trimOWS kv.2 = []).length),
    ("pipePadded", jnat (c.pipe.headers.filter fun kv => trimOWS kv.2 ≠ [] && trimOWS kv.2 ≠ kv.2).length),
    ("emptyReplacesClient", jnat (c.pipe.headers.filter fun kv =>
      trimOWS kv.2 = [] && Spec.pipelineOwned c (canonicalKey kv.1) && values ch (canonicalKey kv.1) ≠ []).length),
    ("pipelineOwnedCollide", jnat (pf.filter fun kv => Spec.pipelineOwned c kv.1 && values ch kv.1 ≠ []).length),
    ("cookieEmpty", jnat (c.pipe.cookies.filter fun kv => kv.2 = []).length),
    ("cookieQuoted", jnat (c.pipe.cookies.filter fun kv => sanitizeCookieValue kv.2 ≠ kv.2).length),
    ("cookies", jnat c.pipe.cookies.length),
    ("body", jnat c.req.body.length)]

def run (c : Json) : E Json := do
  let cs ← parseCase c
  match c.getObjVal? "obs" with
  | .ok o =>
    let obs ← parseObs o
    pure (Json.mkObj [("res", jstrs (Spec.violations cs obs)),
                      ("stats", Json.mkObj [("applicable", jstrs (Spec.applicable cs obs))])])
  | .error _ =>
    let o := forward cs
    pure (Json.mkObj [("res", outcomeJson o), ("stats", stats cs o)])

end Driver.ProxyFwd
