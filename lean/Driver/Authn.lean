import Driver.Util
import HeimdallModel.Spec.Authn
import HeimdallModel.Model.AuthnWire
-- @family authn
/-! Line-protocol family `authn` (property C04): chains of authenticators on requests, executed by the model
(`Heimdall.Authn.run` / `answer`) and, if the implementation's answers are attached, judged by `Spec.judge`. -/
open Lean Heimdall.Authn

namespace Driver.Authn

def kindName : Kind → String
  | .argument => "argument" | .authentication => "authentication" | .authorization => "authorization"
  | .communication => "communication" | .timeout => "timeout" | .configuration => "configuration"
  | .internal => "internal" | .noRule => "noRule"

def kindOf (s : String) : E Kind :=
  match Kind.all.find? (fun k => kindName k == s) with
  | some k => pure k
  | none => throw s!"unknown error kind {s}"

partial def parseErr (j : Json) : E Err :=
  match j with
  | .str "foreign" => pure .foreign
  | _ =>
    match j.getObjVal? "k" with
    | .ok (.str k) => do pure (.kind (← kindOf k))
    | _ => do
      let es ← arr j "chain"
      pure (.chain (← es.mapM parseErr))

def jwtSiteNames : List (String × JwtSite) :=
  [("issuersRequired", .issuersRequired), ("noToken", .noToken), ("parse", .parse), ("nonCanonical", .nonCanonical),
   ("subject", .subject),
   ("metadataFailed", .metadataFailed), ("noJwksUri", .noJwksUri), ("claimsUnreadable", .claimsUnreadable),
   ("noKeyVerifies", .noKeyVerifies), ("keyNotFound", .keyNotFound), ("keyInvalid", .keyInvalid),
   ("jwksTimeout", .jwksTimeout), ("jwksUnreachable", .jwksUnreachable), ("template", .template),
   ("requestFailed", .requestFailed), ("jwksStatus", .jwksStatus), ("jwksUnparsable", .jwksUnparsable),
   ("algMismatch", .algMismatch), ("algNotAllowed", .algNotAllowed), ("signature", .signature),
   ("assertion", .assertion), ("payloadMarshal", .payloadMarshal)]

def introSiteNames : List (String × IntroSite) :=
  [("issuersRequired", .issuersRequired), ("noToken", .noToken), ("subject", .subject),
   ("metadataFailed", .metadataFailed), ("noEndpoint", .noEndpoint), ("assertion", .assertion),
   ("template", .template), ("requestFailed", .requestFailed), ("timeout", .timeout), ("unreachable", .unreachable),
   ("status", .status), ("unmarshal", .unmarshal)]

def genSiteNames : List (String × GenSite) :=
  [("noData", .noData), ("subject", .subject), ("lifespan", .lifespan), ("sessionAssert", .sessionAssert),
   ("timeout", .timeout), ("unreachable", .unreachable), ("payloadRender", .payloadRender), ("template", .template),
   ("requestFailed", .requestFailed), ("status", .status), ("read", .read)]

def siteOf {σ : Type} (names : List (String × σ)) (s : String) : E σ :=
  match names.find? (fun p => p.1 == s) with
  | some p => pure p.2
  | none => throw s!"unknown site {s}"

def siteName {σ : Type} [DecidableEq σ] (names : List (String × σ)) (s : σ) : String :=
  match names.find? (fun p => p.2 == s) with
  | some p => p.1
  | none => "?"

def parseTokenAnswer (j : Json) : E TokenAnswer := do
  match ← str j "kind" with
  | "token" => pure .token
  | "unreachable" => pure .unreachable
  | "timedOut" => pure .timedOut
  | "status" => pure (.status (← nat j "code"))
  | "unreadable" => pure .unreadable
  | "badRequest" =>
    match j.getObjVal? "error" with
    | .ok (.str e) => pure (.badRequest (some e))
    | _ => pure (.badRequest none)
  | "undecodable" => pure .undecodable
  | "errorDocument" => pure (.errorDocument (← str j "error"))
  | k => throw s!"unknown token endpoint answer {k}"

def parseEndpointAuth (j : Json) : E EndpointAuth := do
  match ← str j "type" with
  | "none" => pure .noAuth
  | "api_key" => pure .apiKey
  | "basic_auth" => pure .basicAuth
  | "oauth2_client_credentials" => pure (.clientCredentials (← parseTokenAnswer (← fld j "answer")))
  | t => throw s!"unknown endpoint authentication {t}"

/-- a verdict: `{"ok": sub}` or `{"fail": site, "cause": err}`; a failure of the endpoint's own authentication is
given as `{"fail": site, "endpointAuth": {...}, "via": "metadata"?}` — the cause is then the model's
(`EndpointAuth.failure`, `authenticationFailed`, `metadataRequestFailed`) -/
def parseVerdict {σ : Type} (names : List (String × σ)) (j : Json) : E (Verdict σ) :=
  match j.getObjVal? "ok" with
  | .ok (.str s) => pure (.ok s)
  | _ => do
    let site ← siteOf names (← str j "fail")
    let cause ← match j.getObjVal? "endpointAuth" with
      | .ok a => do
        match (← parseEndpointAuth a).failure with
        | some e =>
          let c := authenticationFailed e
          pure (if strD j "via" "" == "metadata" then metadataRequestFailed c else c)
        | none => throw "the endpoint authentication named by the verdict does not fail"
      | .error _ =>
        match j.getObjVal? "cause" with
        | .ok c => parseErr c
        | .error _ => pure .foreign
    pure (.fail site cause)

def parseTable {σ : Type} (names : List (String × σ)) (w : Json) (k : String) :
    E (List ((String × String) × Verdict σ)) := do
  (arrD w k).mapM fun e => do
    match e with
    | .arr #[.str id, .str tok, v] => pure ((id, tok), ← parseVerdict names v)
    | _ => throw s!"bad verdict entry in {k}"

def algNames : List (String × Alg) :=
  [("ES256", .ES256), ("ES384", .ES384), ("ES512", .ES512), ("EdDSA", .EdDSA), ("PS256", .PS256), ("PS384", .PS384),
   ("PS512", .PS512), ("RS256", .RS256), ("RS384", .RS384), ("RS512", .RS512), ("HS256", .HS256), ("HS384", .HS384),
   ("HS512", .HS512)]

def parseWorld (w : Json) : E World := do
  let basic ← (arrD w "basic").mapM fun e => do
    match e with
    | .arr #[.str b, .arr parts] => pure (b, ← parts.toList.mapM (·.getStr?))
    | _ => throw "bad basic entry"
  let algs ← (arrD w "headerAlg").mapM fun e => do
    match e with
    | .arr #[.str tok, .str alg] =>
      match algNames.find? (fun p => p.1 == alg) with
      | some p => pure (tok, p.2)
      | none => throw s!"unknown signature algorithm {alg}"
    | _ => throw "bad headerAlg entry"
  pure { basic, headerAlg := algs,
         jwt := ← parseTable jwtSiteNames w "jwt", intro := ← parseTable introSiteNames w "intro",
         gen := ← parseTable genSiteNames w "gen" }

def parseSources (m : Json) : E (Option (List Strategy)) :=
  match m.getObjVal? "src" with
  | .ok (.arr ss) => do
    let l ← ss.toList.mapM fun s => do
      let name ← str s "name"
      match ← str s "k" with
      | "header" => pure (Strategy.header name (strD s "scheme" ""))
      | "query" => pure (Strategy.query name)
      | "cookie" => pure (Strategy.cookie name)
      | "body" => pure (Strategy.body name)
      | k => throw s!"unknown source kind {k}"
    pure (some l)
  | _ => pure none

def optBool (j : Json) (k : String) : Option Bool :=
  match j.getObjVal? k with
  | .ok (.bool b) => some b
  | _ => none

def parseMech (m : Json) : E Authn := do
  let id ← str m "id"
  let fb := optBool m "fb"
  let src ← parseSources m
  let typ ← match ← str m "type" with
    | "anonymous" => pure (Typ.anonymous (strD m "subject" ""))
    | "unauthorized" => pure Typ.unauthorized
    | "basic_auth" => pure (Typ.basic (← str m "user") (← str m "pass"))
    | "jwt" => pure (Typ.jwt (src.getD defaultSources))
    | "oauth2_introspection" => pure (Typ.introspection (src.getD defaultSources))
    | "generic" => match src with
      | some ss => pure (Typ.generic ss)
      | none => throw "generic authenticator without sources"
    | t => throw s!"unknown authenticator type {t}"
  pure { id, typ, allowFallback := fb }

def parsePairs (j : Json) (k : String) : E (List (String × String)) :=
  (arrD j k).mapM fun e => do
    match e with
    | .arr #[.str a, .str b] => pure (a, b)
    | _ => throw s!"bad pair in {k}"

def parseBVal (j : Json) : E BVal := do
  match ← str j "t" with
  | "str" => pure (.str (← str j "v"))
  | "strs" => pure (.strs (← strs j "v"))
  | "anys" => do
    let l ← arr j "v"
    pure (.anys (l.map fun x => match x with | .str s => some s | _ => none))
  | _ => pure .other

def parseFields (j : Json) : E (Option (List (String × BVal))) :=
  match j with
  | .arr fields => do
    let m ← fields.toList.mapM fun f => do
      match f with
      | .arr #[.str name, v] => pure (name, ← parseBVal v)
      | _ => throw "bad body field"
    pure (some m)
  | _ => pure none

/-- the body as the three decoders read it: `reads: {json, form, yaml}` (each a list of fields or null); cases written
before the content type became a dimension carry `parsed` only — what the decoder their content type selects reads -/
def parsePayload (rq : Json) : E Payload :=
  match rq.getObjVal? "body" with
  | .ok b =>
    match b.getObjVal? "reads" with
    | .ok rd => do
      pure { json := ← parseFields (fldD rd "json" Json.null), form := ← parseFields (fldD rd "form" Json.null),
             yaml := ← parseFields (fldD rd "yaml" Json.null) }
    | .error _ => do
      let m ← parseFields (fldD b "parsed" Json.null)
      pure { json := m, form := m, yaml := m }
  | .error _ => pure {}

/-- the `Content-Type` lines of the request: `ct` of the body is one line or a list of lines (none: no such header) -/
def contentTypeLines (rq : Json) : List (String × String) :=
  match rq.getObjVal? "body" with
  | .ok b =>
    match b.getObjVal? "ct" with
    | .ok (.str ct) => [("Content-Type", ct)]
    | .ok (.arr lines) => lines.toList.filterMap fun l => match l with | .str s => some ("Content-Type", s) | _ => none
    | _ => []
  | .error _ => []

def parseReq (rq : Json) : E Req := do
  -- the raw query string / raw Cookie header lines, if given, are read as net/url and net/http read them
  let query ← match rq.getObjVal? "rawQuery" with
    | .ok (.str raw) => pure (Wire.parseQuery raw)
    | _ => parsePairs rq "query"
  let cookies ← match rq.getObjVal? "rawCookies" with
    | .ok (.arr lines) => do pure (Wire.parseCookies (← lines.toList.mapM (·.getStr?)))
    | _ => parsePairs rq "cookies"
  pure { host := strD rq "host" "heimdall.local", headers := contentTypeLines rq ++ (← parsePairs rq "headers"), query,
         cookies, payload := ← parsePayload rq }

def obsJson : Spec.Obs → Json
  | .ok s => Json.mkObj [("ok", jstr s)]
  | .err ks => Json.mkObj [("err", jstrs (ks.map kindName))]

def answerJson (a : Spec.Answer) : Json :=
  Json.mkObj [("trace", jarr (a.trace.map fun p => jarr [jstr p.1, obsJson p.2])),
              ("final", match a.final with | some o => obsJson o | none => Json.null)]

def parseObs (j : Json) : E Spec.Obs :=
  match j.getObjVal? "ok" with
  | .ok (.str s) => pure (.ok s)
  | _ => do
    let ks ← strs j "err"
    pure (.err (← ks.mapM kindOf))

def parseAnswer (j : Json) : E Spec.Answer := do
  let trace ← (← arr j "trace").mapM fun e => do
    match e with
    | .arr #[.str id, o] => pure (id, ← parseObs o)
    | _ => throw "bad trace entry"
  let final ← match j.getObjVal? "final" with
    | .ok .null => pure none
    | .ok o => do pure (some (← parseObs o))
    | .error _ => pure none
  pure { trace, final }

/-- which branch of its ladder an authenticator takes on the request (for the evidence only) -/
def label (w : World) (a : Authn) (r : Req) : String :=
  let verdict {σ : Type} [DecidableEq σ] (p : String) (names : List (String × σ)) (v : Verdict σ) : String :=
    match v with
    | .ok _ => p ++ ":ok"
    | .fail s _ => p ++ ":" ++ siteName names s
  match a.typ with
  | .anonymous _ => "anonymous:ok"
  | .unauthorized => "unauthorized:denied"
  | .basic user pass =>
    match (Strategy.header "Authorization" "Basic").get r with
    | .error _ => "basic_auth:noHeader"
    | .ok d =>
      match w.basicDecode d with
      | none => "basic_auth:decode"
      | some [u, p] => if u = user && p = pass then "basic_auth:ok" else "basic_auth:invalid"
      | some _ => "basic_auth:malformed"
  | .jwt ss =>
    match extract ss r with
    | .error _ => "jwt:noToken"
    | .ok t => if w.parsesJWT t then verdict "jwt" jwtSiteNames (w.jwtVerdict a.key t) else "jwt:parse"
  | .introspection ss =>
    match extract ss r with
    | .error _ => "oauth2_introspection:noToken"
    | .ok t => verdict "oauth2_introspection" introSiteNames (w.introVerdict a.key t)
  | .generic ss =>
    match extract ss r with
    | .error _ => "generic:noData"
    | .ok t => verdict "generic" genSiteNames (w.genVerdict a.key t)

/-- op `decoder`: which body decoder `contenttype.NewDecoder` chooses for each of the given `Content-Type` values -/
def runDecoder (c : Json) : E Json := do
  let cts ← strs c "cts"
  let name (ct : String) : Json :=
    match decoderFor ct with
    | some .json => jstr "json"
    | some .form => jstr "form"
    | some .yaml => jstr "yaml"
    | none => Json.null
  return Json.mkObj [("res", jarr (cts.map name)), ("stats", Json.mkObj [])]

def run (c : Json) : E Json := do
  if strD c "op" "chain" == "decoder" then return ← runDecoder c
  let mechs ← (← arr c "mechs").mapM parseMech
  let chain ← (← arr c "steps").mapM fun s => do
    let ref ← str s "ref"
    match mechs.find? (fun m => m.id == ref) with
    | some m => pure { m with override := optBool s "fb", key := strD s "key" ref }
    | none => throw s!"unknown authenticator {ref}"
  let w ← parseWorld (fldD c "world" (Json.mkObj []))
  let wf := w.wf && chain.all Authn.wf
  let impl := arrD c "impl"
  let reqs ← arr c "reqs"
  let mut out : List Json := []
  let mut spec : List Json := []
  let mut stats : List Json := []
  let mut idx := 0
  for rq in reqs do
    let r ← parseReq rq
    let ans := Spec.answer w r chain
    out := out ++ [answerJson ans]
    let n := runConsulted w r chain
    let labels := (chain.take n).map (fun a => label w a r)
    let usable := (chain.take n).map (fun a => Spec.usable w a r)
    let nontrivial := n ≥ 2 || (n < chain.length && (match ans.final with | some (.err _) => true | _ => false))
    stats := stats ++ [Json.mkObj [("consulted", jnat n), ("labels", jstrs labels),
      ("usable", jarr (usable.map Json.bool)), ("nontrivial", Json.bool nontrivial),
      ("agrees", Json.bool (Heimdall.Authn.run w r chain == Spec.authenticate w r chain && n == Spec.consulted w r chain))]]
    match impl[idx]? with
    | some ia =>
      match parseAnswer ia with
      | .ok a => spec := spec ++ [Json.bool (Spec.judge w r chain a.trace a.final)]
      | .error e => spec := spec ++ [jstr ("unreadable answer: " ++ e)]
    | none => pure ()
    idx := idx + 1
  return Json.mkObj [("res", jarr out), ("spec", jarr spec),
    ("stats", Json.mkObj [("wf", Json.bool wf), ("reqs", jarr stats)])]

end Driver.Authn
