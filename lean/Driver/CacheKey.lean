import Driver.Util
import HeimdallModel.Model.Sha256
import HeimdallModel.Model.CacheExec
import HeimdallModel.Model.CacheReload
import HeimdallModel.Spec.CacheReuse
import HeimdallModel.Spec.CacheDeps
import HeimdallModel.Gen.CacheKeys
-- @family cachekey
/-! Line-protocol family `cachekey`:
* `op = "key"`: the set of keys `key sha256 fs env` a key function of the current source (generated field list) can
  produce for the given values, over all iteration orders of the maps it ranges over directly;
* `op = "run"`: a history of requests and reloads (`Model/CacheReload.lean`: `runEv`) against
  `stateful (keyed sha256 fs deps …)` (the model) and `direct` under the state in force (the spec). The reloadable sources
  (`state` of the case, `reload` of a step: the state from that step on) are NOT part of the steps' own values. -/
open Lean Heimdall Heimdall.CacheKey Heimdall.CacheExec

namespace Driver.CacheKey

def unhexNibble (c : Char) : Nat :=
  if '0' ≤ c && c ≤ '9' then c.toNat - 48 else if 'a' ≤ c && c ≤ 'f' then c.toNat - 87 else 0

def unhex : List Char → Bytes
  | a :: b :: rest => UInt8.ofNat (16 * unhexNibble a + unhexNibble b) :: unhex rest
  | _ => []

def hexB (s : String) : Bytes := unhex s.toList

def objEntries (j : Json) (k : String) : List (String × Json) :=
  match j.getObjVal? k with
  | .ok (.obj kvs) => kvs.toList
  | _ => []

def lookupD {α : Type} (l : List (String × α)) (d : α) (k : String) : α :=
  match l.lookup k with
  | some v => v
  | none => d

def jHexList (j : Json) : List Bytes :=
  match j.getArr? with
  | .ok a => a.toList.map fun x => hexB (x.getStr?.toOption.getD "")
  | .error _ => []

def jPairs (j : Json) : List (Bytes × Bytes) :=
  match j.getArr? with
  | .ok a => a.toList.map fun x =>
      match jHexList x with
      | [k, v] => (k, v)
      | _ => ([], [])
  | .error _ => []

structure RawEnv where
  str : List (String × Bytes)
  num : List (String × Nat)
  lst : List (String × List Bytes)
  map : List (String × List (Bytes × Bytes))
  has : List (String × Bool)

def RawEnv.toEnv (r : RawEnv) : Env where
  str := lookupD r.str []
  num := lookupD r.num 0
  lst := lookupD r.lst []
  map := lookupD r.map []
  has := lookupD r.has false

def fieldsOf (fn : String) : E (List Field) :=
  match Gen.CacheKeys.table.lookup fn with
  | some fs => pure fs
  | none => throw s!"unknown key function {fn}"

/-- permutations of a (short) list -/
def perms {α : Type} : List α → List (List α)
  | [] => [[]]
  | x :: xs => (perms xs).flatMap fun p => (List.range (p.length + 1)).map fun i => p.take i ++ x :: p.drop i

def mapRawSources : List Field → List String
  | [] => []
  | .mapRaw s :: fs => s :: mapRawSources fs
  | .opt _ (.mapRaw s) :: fs => s :: mapRawSources fs
  | _ :: fs => mapRawSources fs

/-- all variants of a raw environment: the maps ranged over directly in every iteration order -/
def orderVariants (fs : List Field) (r : RawEnv) : List RawEnv :=
  (mapRawSources fs).eraseDups.foldl (fun acc s =>
    acc.flatMap fun e =>
      let m := lookupD e.map [] s
      if m.length > 6 then [e] else (perms m).map fun p => { e with map := (s, p) :: e.map.filter (·.1 != s) }) [r]

/-- every combination of one choice per alternative list -/
def product {α : Type} : List (String × List α) → List (List (String × α))
  | [] => [[]]
  | (k, vs) :: rest => (product rest).flatMap fun tail => vs.map fun v => (k, v) :: tail

/-- the set of keys the function `fn` can produce for the JSON environment (nested digests resolved recursively) -/
partial def keysOf (fn : String) (env : Json) : E (List Bytes) := do
  let fs ← fieldsOf fn
  let subs ← (objEntries env "sub").mapM fun (lbl, spec) => do
    let ks ← keysOf (← str spec "fn") (fldD spec "env" (Json.mkObj []))
    pure (lbl, ks)
  let base : RawEnv := {
    str := (objEntries env "str").map fun (k, v) => (k, hexB (v.getStr?.toOption.getD "")),
    num := (objEntries env "num").map fun (k, v) => (k, v.getNat?.toOption.getD 0),
    lst := (objEntries env "lst").map fun (k, v) => (k, jHexList v),
    map := (objEntries env "map").map fun (k, v) => (k, jPairs v),
    has := (objEntries env "has").map fun (k, v) => (k, v.getBool?.toOption.getD false) }
  let withSubs := (product subs).map fun choice => { base with str := choice ++ base.str }
  let all := withSubs.flatMap (orderVariants fs)
  pure ((all.map fun r => key Sha256.hash fs r.toEnv).eraseDups)

def sortStrs (l : List String) : List String := (l.toArray.qsort (· < ·)).toList

def runKey (c : Json) : E Json := do
  let fn ← str c "fn"
  let fs ← fieldsOf fn
  let ks ← keysOf fn (fldD c "env" (Json.mkObj []))
  let res := Json.mkObj [
    ("keys", jstrs (sortStrs (ks.map Sha256.hex))),
    ("delimited", Json.bool (delimited fs)),
    ("ordered", Json.bool (ordered fs)),
    ("covers", Json.bool (covers (deps fn) fs))]
  pure (Json.mkObj [("res", res), ("stats", Json.mkObj [("variants", jnat ks.length), ("fields", jnat fs.length)])])

/-! ### histories -/

def recheckOf (fn : String) : Bool := Heimdall.CacheKey.recheckOf Gen.CacheKeys.hitPath fn

def outName {α : Type} : Outcome α → String
  | .ok _ => "ok"
  | .rejected => "rejected"
  | .failed => "failed"

structure Step where
  t : Nat
  req : KReq

def indexOf? {α : Type} [BEq α] (l : List α) (x : α) : Option Nat :=
  let rec go : List α → Nat → Option Nat
    | [], _ => none
    | y :: ys, i => if y == x then some i else go ys (i + 1)
  go l 0

/-- reloadable sources: nested digests (`sub`) and plain values (`str`) by source name -/
def overlayOf (j : Json) : E Overlay := do
  let subs ← (objEntries j "sub").mapM fun (lbl, spec) => do
    let ks ← keysOf (← str spec "fn") (fldD spec "env" (Json.mkObj []))
    pure (lbl, ks.headD [])
  pure (subs ++ (objEntries j "str").map fun (k, v) => (k, hexB (v.getStr?.toOption.getD "")))

def runHistory (c : Json) : E Json := do
  let fn ← str c "fn"
  let fs ← fieldsOf fn
  let ds := deps fn
  let stepsJ ← arr c "steps"
  let s₀ ← overlayOf (fldD c "state" (Json.mkObj []))
  let mut evs : List (Event Overlay KReq) := []
  let mut reloads := 0
  for sj in stepsJ do
    -- nested digests must be deterministic here: the first possible value is taken
    let envJ := fldD sj "env" (Json.mkObj [])
    let subs ← (objEntries envJ "sub").mapM fun (lbl, spec) => do
      let ks ← keysOf (← str spec "fn") (fldD spec "env" (Json.mkObj []))
      pure (lbl, ks.headD [])
    let raw : RawEnv := {
      str := subs ++ (objEntries envJ "str").map fun (k, v) => (k, hexB (v.getStr?.toOption.getD "")),
      num := (objEntries envJ "num").map fun (k, v) => (k, v.getNat?.toOption.getD 0),
      lst := (objEntries envJ "lst").map fun (k, v) => (k, jHexList v),
      map := (objEntries envJ "map").map fun (k, v) => (k, jPairs v),
      has := (objEntries envJ "has").map fun (k, v) => (k, v.getBool?.toOption.getD false) }
    if !isNull sj "reload" then
      evs := evs ++ [.reload (← overlayOf (fldD sj "reload" (Json.mkObj [])))]
      reloads := reloads + 1
    evs := evs ++ [.req (natD sj "t" 0) ⟨raw.toEnv, natD sj "policy" 0, boolD sj "enabled" true, natD sj "ttl" 1000000⟩]
  -- every request with the state in force when it is made
  let steps : List Step := (inForce s₀ evs).map fun x => ⟨x.1, x.2.2.withState x.2.1⟩
  let views := steps.map fun s => ds.map (·.view s.req.env)
  let fails ← (do if isNull c "fails" then pure [] else nats c "fails")
  -- verdicts: [policy, origin step, accepted]
  let verdicts := (arrD c "verdicts").map fun v =>
    (natD v "policy" 0, natD v "origin" 0, boolD v "ok" true)
  let remote : List View → Option (List View) := fun v =>
    match indexOf? views v with
    | some j => if fails.contains j then none else some v
    | none => some v
  let accepts : Nat → List View → Bool := fun p v =>
    match indexOf? views v with
    | some j => match verdicts.find? (fun x => x.1 == p && x.2.1 == j) with
      | some x => x.2.2
      | none => true
    | none => true
  let m := keyed Sha256.hash fs ds remote accepts (recheckOf fn)
  let results := runEv (stateful m) s₀ Store.empty evs
  let origin (o : Outcome (List View)) : Json := match o with
    | .ok v => match indexOf? views v with
      | some j => jnat j
      | none => Json.null
    | _ => Json.null
  let model := (results.zip steps).map fun (r, s) => Json.mkObj [
    ("key", jstr (Sha256.hex (m.key s.req))), ("hit", Json.bool r.hit), ("calls", jnat r.calls),
    ("out", jstr (outName r.out)), ("origin", origin r.out)]
  let spec := steps.map fun s => let o := direct m s.req
    Json.mkObj [("out", jstr (outName o)), ("origin", origin o)]
  let hits := (results.filter (·.hit)).length
  pure (Json.mkObj [
    ("res", Json.mkObj [("model", jarr model), ("spec", jarr spec), ("classes", jarr (views.map fun v =>
      match indexOf? views v with | some j => jnat j | none => Json.null))]),
    ("stats", Json.mkObj [("steps", jnat steps.length), ("hits", jnat hits), ("reloads", jnat reloads),
      ("recheck", Json.bool (recheckOf fn))])])

def runFacts : E Json :=
  pure (Json.mkObj [("res", Json.mkObj [
    ("key_users_domain_separated", Json.bool (usersSeparated Gen.CacheKeys.table)),
    ("cache_sites", jnat Gen.CacheKeys.cacheSites.length)])])

def run (c : Json) : E Json := do
  match ← str c "op" with
  | "facts" => runFacts
  | "key" => runKey c
  | "run" => runHistory c
  | o => throw s!"unknown op {o}"

end Driver.CacheKey
