"""The tie by translated source, shared by the checks that use the Go -> Lean translator extract/go2lean (C10: the TTL
functions; C01 / C04: the control-flow kernels of the rule pipelines).

A `Tie` names a translator command (`go run ./cmd/<cmd> <repo>` inside extract/go2lean, standard library only,
offline), the generated Lean module and the property module(s) with the theorems about it.

* `regenerate(tie)`: runs the translator on the tree under test and writes the generated module when it changed. When
  the source has left the translatable subset (the translator fails closed) a stub WITHOUT definitions is written:
  the property modules stop building, nothing else does (the shared driver never imports a generated source module).
* `step(R, tie, prop)`: regenerates, builds the property module and audits the axioms of its theorems inside ONE
  critical section of the shared Lean project (two runs against different trees cannot build against each other's
  translation), and adds obligations / axioms / trusted base to the evidence of the run.
* `run_lean(R, tie, name, text, stdin)`: runs a generated Lean program (`lake env lean --run`, never the shared driver)
  after making sure the generated module is this tree's and is built.
"""
import json
import os
import re
import subprocess

import vlib

GO2LEAN = os.path.join(vlib.VERIF, "extract", "go2lean")


class TranslateError(Exception):
    pass


class Tie:
    def __init__(self, cmd, gen_module, stub_namespace, what, trusted):
        self.cmd = cmd                          # directory below extract/go2lean/cmd
        self.gen_module = gen_module            # e.g. "HeimdallModel.Gen.CacheTTLSrc"
        self.gen_file = os.path.join(vlib.LEAN, *gen_module.split(".")) + ".lean"
        self.stub_namespace = stub_namespace    # namespace of `translationOk`
        self.what = what                        # "the TTL functions", for messages
        self.trusted = trusted                  # entry for trusted_base


class Prop:
    """a property module with theorems about a generated module"""

    def __init__(self, module, namespace, always=()):
        self.module = module                    # e.g. "HeimdallModel.Props.C10Src"
        self.file = os.path.join(vlib.LEAN, *module.split(".")) + ".lean"
        self.namespace = namespace              # namespace the theorems live in (opened by the audit)
        self.always = tuple(always)             # modules that must build even when the proofs fail (used by the search)
        self.short = module.split(".")[-1]


def go_env():
    env = dict(os.environ)
    env.update({"GOFLAGS": "-mod=mod", "GOPROXY": "off", "GOSUMDB": "off", "GOTOOLCHAIN": "local"})
    return env


def translate(tie, repo):
    p = subprocess.run(["go", "run", "./cmd/" + tie.cmd, repo], cwd=GO2LEAN, env=go_env(), capture_output=True,
                       text=True, timeout=600)
    if p.returncode != 0:
        msg = "\n".join(l for l in (p.stderr or p.stdout).strip().splitlines() if not l.startswith("exit status"))
        raise TranslateError(msg[-900:])
    if "def translationOk : Bool := true" not in p.stdout:
        raise TranslateError("translator output is incomplete")
    return p.stdout


def render_stub(tie, error):
    msg = error.replace("-/", "- /").replace("\n", " ")[:700]
    return (f"-- STUB written by extract/go2lean (cmd/{tie.cmd}): the translation FAILED (fail closed). Do not edit.\n"
            f"/-! translation failed: {msg}\n\n"
            "There are no definitions here on purpose: the theorems about the translated source do not build until the "
            "source can be\ntranslated again. Nothing else imports this module. -/\n"
            f"namespace {tie.stub_namespace}\n\n"
            "def translationOk : Bool := false\n\n"
            f"end {tie.stub_namespace}\n")


def write_if_changed(out, text):
    try:
        with open(out) as fh:
            if fh.read() == text:
                return
    except OSError:
        pass
    tmp = out + ".tmp%d" % os.getpid()
    with open(tmp, "w") as fh:
        fh.write(text)
    os.replace(tmp, out)


def regenerate(tie, repo=None):
    """writes the generated module (call under vlib.LeanLock); on failure writes the stub and raises TranslateError"""
    try:
        text = translate(tie, repo or vlib.REPO)
    except TranslateError as e:
        write_if_changed(tie.gen_file, render_stub(tie, str(e)))
        raise
    write_if_changed(tie.gen_file, text)
    return text


def restore(tie):
    """after a run against a scratch tree (VERIF_REPO): put the translation of /repo back, so that the shared Lean
    project is left as a run against /repo would leave it"""
    if os.path.realpath(vlib.REPO) == "/repo" or not os.path.isdir("/repo"):
        return
    with vlib.LeanLock():
        try:
            regenerate(tie, "/repo")
        except TranslateError:
            pass


def translated_functions(tie, text):
    """the index of the generated header: [{lean, go, at}]"""
    out = []
    for line in text.splitlines():
        if line.startswith("* `") and "` = " in line:
            name, rest = line[3:].split("` = ", 1)
            fn, _, pos = rest.rpartition(", ")
            out.append({"lean": tie.stub_namespace + "." + name, "go": fn, "at": pos})
    return out


def _theorems(prop):
    with open(prop.file) as fh:
        src = vlib.strip_comments(fh.read())
    return vlib.THM_RE.findall(src), len(vlib.EX_RE.findall(src))


def step(R, tie, prop):
    """regenerate + build + axiom audit of one property module. Returns dict(ok, translate_error, failed,
    failed_theorems, log, axioms); the numbers are added to what vlib.step_lean recorded."""
    res = {"ok": False, "translate_error": None, "failed": [], "failed_theorems": [], "log": "", "axioms": {}}
    thms, nex = _theorems(prop)
    res["obligations"] = len(thms) + nex
    with vlib.LeanLock():
        try:
            text = regenerate(tie)
            R.coverage["translated_functions"] = translated_functions(tie, text)
        except TranslateError as e:
            res["translate_error"] = str(e)
        rc, log = vlib.lake(["build", prop.module])
        res["log"] = log[-6000:]
        if rc != 0:
            res["failed"] = sorted(set(re.findall(r"error: ([^\n]+)", log)))[:20]
            lines = open(prop.file).read().splitlines()
            bad = []
            for ln in sorted({int(x) for x in re.findall(re.escape(prop.short) + r"\.lean:(\d+):", log)}):
                for k in range(min(ln, len(lines)) - 1, -1, -1):
                    m = vlib.THM_RE.match(lines[k])
                    if m:
                        if m.group(1) not in bad:
                            bad.append(m.group(1))
                        break
            res["failed_theorems"] = bad
        else:
            audit = os.path.join(vlib.LEAN, ".lake", f"audit_{prop.short}.lean")
            with open(audit, "w") as fh:
                fh.write(f"import {prop.module}\nopen {prop.namespace}\n")
                for t in thms:
                    fh.write(f"#print axioms {t}\n")
            p = subprocess.run(["lake", "env", "lean", audit], cwd=vlib.LEAN, capture_output=True, text=True, timeout=900)
            alog = p.stdout + p.stderr
            if p.returncode != 0:
                res["failed"] = ["axiom audit failed: " + alog[-1500:]]
            else:
                bad = []
                for m in re.finditer(r"'([^']+)' (depends on axioms: \[([^\]]*)\]|does not depend on any axioms)", alog):
                    axs = [a.strip() for a in (m.group(3) or "").replace("\n", " ").split(",") if a.strip()]
                    res["axioms"][m.group(1).split(".")[-1]] = axs
                    if not set(axs) <= vlib.ALLOWED_AXIOMS:
                        bad.append(f"{m.group(1)}: {axs}")
                missing = [t for t in thms if t not in res["axioms"]]
                hits = vlib.forbidden_scan()
                if bad or missing:
                    res["failed"] = [f"disallowed axioms: {bad}", f"not audited: {missing}"]
                elif hits:
                    res["failed"] = ["forbidden tokens: " + "; ".join(hits[:10])]
                else:
                    res["ok"] = True
            if res["ok"] and R.tier == "thorough":
                p = subprocess.run(["lake", "env", "leanchecker", prop.module], cwd=vlib.LEAN, capture_output=True,
                                   text=True, timeout=3000)
                R.coverage["leanchecker_src"] = "ok" if p.returncode == 0 else (p.stdout + p.stderr)[-1500:]
                if p.returncode != 0:
                    res["ok"] = False
                    res["failed"] = ["leanchecker: " + R.coverage["leanchecker_src"]]
    cov = R.coverage
    cov["obligations"] = cov.get("obligations", 0) + res["obligations"]
    cov["discharged"] = cov.get("discharged", 0) + (res["obligations"] if res["ok"] else 0)
    cov.setdefault("axioms", {}).update(res["axioms"])
    cov["theorems"] = sorted(set(cov.get("theorems", [])) | set(res["axioms"]))
    cov["src_theorems"] = thms
    cov["checker_cmd"] = (cov.get("checker_cmd", "") + f" && lake build {prop.module} && lake env lean "
                          f".lake/audit_{prop.short}.lean"
                          + (f" && lake env leanchecker {prop.module}" if R.tier == "thorough" else ""))
    cov.setdefault("trusted_base", []).append(tie.trusted)
    return res


def named(res):
    """the theorems (or the errors) of a failed step, for messages"""
    failed = res.get("failed_theorems") or []
    return ", ".join(failed) if failed else "; ".join(res["failed"])[:300]


def run_lean(R, tie, prop, name, text, stdin=None, timeout=900):
    """(rc, rows, log): runs a generated Lean program on this tree's translation. rc = None: the generated module (or
    one of prop.always) does not build - log says why."""
    path = os.path.join(R.tmp, name)
    with open(path, "w") as fh:
        fh.write(text)
    with vlib.LeanLock():
        try:
            regenerate(tie)
        except TranslateError as e:
            return None, [], "translation failed: " + str(e)
        rc, log = vlib.lake(["build", tie.gen_module] + list(prop.always))
        if rc != 0:
            return None, [], log[-4000:]
        p = subprocess.run(["lake", "env", "lean", "--run", path], cwd=vlib.LEAN, input=stdin, capture_output=True,
                           text=True, timeout=timeout)
    rows = []
    for line in p.stdout.splitlines():
        line = line.strip()
        if line.startswith("{") or line.startswith("["):
            try:
                rows.append(json.loads(line))
            except ValueError:
                pass
    return p.returncode, rows, (p.stdout[-1500:] + p.stderr[-2500:])
