#!/usr/bin/env python3
"""Assemble /verif/MANIFEST.json from manifest/<id>.json (one check entry per claimed property) and
manifest/not_applicable.json (reasons for unclaimed ones)."""
import json
import os

V = os.path.dirname(os.path.dirname(os.path.abspath(__file__)))
props = [json.loads(l) for l in open(os.path.join(V, "properties.jsonl"))]
checks, na = [], []
reasons = {}
nap = os.path.join(V, "manifest", "not_applicable.json")
if os.path.exists(nap):
    reasons = json.load(open(nap))
for p in props:
    f = os.path.join(V, "manifest", p["id"] + ".json")
    if os.path.exists(f):
        checks.append(json.load(open(f)))
    else:
        na.append({"property_id": p["id"], "reason": reasons.get(p["id"], "not claimed yet: model, theorems and "
                   "correspondence check for this property are still being built (DESIGN.md section 10)")})
claimed = [c["property_id"] for c in checks]
man = {
    "version": 1,
    "setup_cmd": "sh tools/setup.sh",
    "hooks": {"guard": "verif",
              "enable": "no hooks in /repo: harness sources under /verif/harness are injected with `go build -overlay` "
                        "(tools/vlib.py make_overlay); the guard name is reserved only",
              "baseline_off_cmd": "cd /repo && GOFLAGS=-mod=mod go test -json -vet=off -count=1 -timeout 25m ./...",
              "source_commits": [], "add_only": True},
    "engines": [
        {"name": "lean-model", "path": "lean/", "serves_properties": claimed,
         "kind_free_text": "Lean 4 model + theorems (lake project HeimdallModel), core-only driver executable"},
        {"name": "go-harness", "path": "harness/", "serves_properties": claimed,
         "kind_free_text": "implementation-side executor injected into /repo by go build overlay"},
        {"name": "check.py", "path": "tools/", "serves_properties": claimed,
         "kind_free_text": "orchestration: lake build + axiom audit, generators, correspondence diff, shrinking, evidence"}],
    "checks": checks,
    "notes": "Every check: (1) lake build of Props/<id>.lean + #print axioms audit, (2) overlay harness built from "
             "/repo's working tree, (3) correspondence implementation vs Lean model (and vs executable spec). "
             "See DESIGN.md.",
    "not_applicable": na,
}
json.dump(man, open(os.path.join(V, "MANIFEST.json"), "w"), indent=1)
print("claimed:", claimed)
