"""C08 side of the tie by translated source: the byte-level helpers of the path normalisation that precedes the rule
lookup (`isUnreserved`, `unhex` of internal/rules/repository_impl.go) are translated from the current source on every
run (extract/go2lean, cmd/pathnorm, Gen/PathNormSrc.lean) and proved, for all 256 bytes, to be the model's predicates
(Props/C08Src.lean). Shared machinery: tools/go2lean_tie.py; called from tools/props/c08.py."""
import json

import go2lean_tie as tie
import vlib

TIE = tie.Tie(
    cmd="pathnorm", gen_module="HeimdallModel.Gen.PathNormSrc", stub_namespace="Heimdall.PathNorm.Src",
    what="isUnreserved / unhex",
    trusted="Go -> Lean translator extract/go2lean (go/ast, fails closed outside its subset; regenerates "
            "Gen/PathNormSrc.lean from the whole bodies of isUnreserved and unhex on every run): trusted to keep the "
            "meaning of the statements it translates; a Go byte is an Int in 0..255, a character constant its number")
PROP = tie.Prop("HeimdallModel.Props.C08Src", "Heimdall.Props.C08", always=("HeimdallModel.Lemmas.UrlEscape",))

ASSUMPTION = (
    "translated source (Gen/PathNormSrc.lean): normalizeUnreserved (index loop over the string as recursion on the "
    "remaining suffix), isUnreserved and unhex are translated and proved equal to the model for all byte strings / all "
    "256 bytes; a string is a list of bytes, a byte an Int in 0..255, byte arithmetic is integer arithmetic (the "
    "subtractions and `hi<<4 | lo` stand under guards that keep the operands in range, `byte(x)` is `x % 256`); reads "
    "beyond the end of the string are not modelled (they yield 0 where Go would panic); what is written to the "
    "strings.Builder / []byte is the result")

PROGRAM = r"""import HeimdallModel.Gen.PathNormSrc
import HeimdallModel.Base.UrlEscape
open Heimdall

def main : IO Unit := do
  for n in List.range 256 do
    let c := Char.ofNat n
    let u := PathNorm.Src.isUnreserved (n : Int)
    if u != Heimdall.isUnreserved c then
      IO.println s!"\{\"fn\": \"isUnreserved\", \"byte\": {n}, \"src\": {u}, \"model\": {Heimdall.isUnreserved c}}"
    let h := PathNorm.Src.unhex (n : Int)
    let m : Int := if isHex c then (Heimdall.unhex c : Int) else -1
    if h != m then
      IO.println s!"\{\"fn\": \"unhex\", \"byte\": {n}, \"src\": {h}, \"model\": {m}}"
  -- the loop: every string of up to 5 bytes over `% 4 1 a`, alone and behind / in front of an ordinary byte
  let alphabet : List Nat := [37, 52, 49, 97]
  let mut words : List (List Nat) := [[]]
  let mut all : List (List Nat) := []
  for _ in List.range 5 do
    words := words.flatMap fun w => alphabet.map fun b => w ++ [b]
    all := all ++ words
  for w in all do
    for v in [w, 120 :: w, w ++ [121]] do
      let src := PathNorm.Src.normalizeUnreserved (v.map Int.ofNat)
      let model := (normalizeL (v.map Char.ofNat)).map fun c => (c.toNat : Int)
      if src != model then
        IO.println s!"\{\"fn\": \"normalizeUnreserved\", \"w\": {v}, \"src\": {src}, \"model\": {model}}"
"""

UNRESERVED = "abcdefghijklmnopqrstuvwxyzABCDEFGHIJKLMNOPQRSTUVWXYZ0123456789-._~"


def step(R):
    res = tie.step(R, TIE, PROP)
    R.lean_src = res
    R.assumptions.append(ASSUMPTION)
    return res


def spellings(row):
    """(literal character for the rule's path, [request targets that have to be served alike])"""
    b = row["byte"]
    if row["fn"] == "isUnreserved":
        ch = chr(b)
        return ch, [f"/c08/x{ch}y", f"/c08/x%{b:02X}y", f"/c08/x%{b:02x}y"]
    digit = chr(b)
    for ch in UNRESERVED:
        for esc in (f"%{ord(ch):02X}", f"%{ord(ch):02x}"):
            if digit in esc[1:]:
                return ch, [f"/c08/x{ch}y", f"/c08/x{esc}y"]
    return None, []


def report(R, exe):
    try:
        _report(R, exe)
    finally:
        tie.restore(TIE)


def _report(R, exe):
    res = R.lean_src
    if res["translate_error"]:
        R.violation("isUnreserved / unhex can no longer be translated to Lean (extract/go2lean fails closed; the theorems "
                    "c08_src_* of Props/C08Src.lean say nothing about this code): " + res["translate_error"],
                    {"translator": "extract/go2lean cmd/pathnorm", "error": res["translate_error"],
                     "kind": "src-untranslatable"}, no_input=True)
        return
    if res["ok"]:
        return
    named = tie.named(res)
    payload0 = {"lean_log": res["log"], "failed": res["failed"], "theorems": res["failed_theorems"],
                "kind": "src-vs-model"}
    rc, rows, log = tie.run_lean(R, TIE, PROP, "c08src_search.lean", PROGRAM)
    if rc is None or rc != 0:
        R.violation(f"theorems of Props/C08Src.lean no longer check ({named}) and the translated functions could not be "
                    "evaluated: " + log[-500:], dict(payload0, lean_log=log), no_input=True)
        return
    if not rows:
        R.violation(f"theorems of Props/C08Src.lean no longer check: {named}; on all 256 bytes and on 4000 short strings "
                    "the translated functions agree with the model", payload0, no_input=True)
        return
    R.coverage["src_search"] = {"inputs_on_which_translation_differs_from_model": len(rows)}
    loop_rows = sorted((r for r in rows if r["fn"] == "normalizeUnreserved"), key=lambda r: len(r["w"]))
    rows = [r for r in rows if r["fn"] != "normalizeUnreserved"]
    import re
    for row in loop_rows[:40]:
        w = "".join(chr(b) for b in row["w"])
        lit = "".join(chr(b) for b in row["model"])
        # a request path net/url accepts: every % starts an escape; the model's result is the literal spelling
        if re.search(r"%(?![0-9a-fA-F]{2})", w) or "%" in lit or not lit:
            continue
        targets = [f"/c08/{lit}", f"/c08/{w}"]
        rule = lambda rid, path: {"id": rid, "bt": None, "esh": "", "scheme": "", "methods": [], "hosts": [],  # noqa: E731
                                  "routes": [{"path": path, "pp": []}]}
        case = {"fam": "repo", "dr": False, "dr_bt": False,
                "ops": [{"op": "add", "src": "s1", "rules": [rule("A", targets[0]), rule("B", "/**")]}]
                       + [{"op": "find", "method": "GET", "host": "a.example.com", "target": t} for t in targets]}
        impl = vlib.run_cases([exe], [case])[0]
        model = vlib.res_of(vlib.run_cases(vlib.driver_cmd(), [case])[0])
        if isinstance(impl, list) and len(impl) == 3 and vlib.canon(impl[1]) != vlib.canon(impl[2]):
            R.violation(f"re-encoding unreserved characters changed the outcome: {targets[0]} -> "
                        f"{json.dumps(impl[1])[:160]} but {targets[1]} -> {json.dumps(impl[2])[:160]} - translated "
                        f"normalizeUnreserved({w!r}) = {''.join(chr(b) for b in row['src'])!r}, model {lit!r} "
                        f"(theorems that no longer check: {named})",
                        dict(payload0, case=case, impl=impl, model=model, kind="impl-spelling-vs-impl-respelling"))
            return
    for row in rows[:8]:
        ch, targets = spellings(row)
        if not targets or ch in "/%?#":
            continue
        what = (f"translated {row['fn']}({row['byte']} = {chr(row['byte'])!r}) = {json.dumps(row['src'])}, model "
                f"{json.dumps(row['model'])} (theorems that no longer check: {named})")
        rule = lambda rid, path: {"id": rid, "bt": None, "esh": "", "scheme": "", "methods": [], "hosts": [],  # noqa: E731
                                  "routes": [{"path": path, "pp": []}]}
        case = {"fam": "repo", "dr": False, "dr_bt": False,
                "ops": [{"op": "add", "src": "s1", "rules": [rule("A", f"/c08/x{ch}y"), rule("B", "/**")]}]
                       + [{"op": "find", "method": "GET", "host": "a.example.com", "target": t} for t in targets]}
        impl = vlib.run_cases([exe], [case])[0]
        model = vlib.res_of(vlib.run_cases(vlib.driver_cmd(), [case])[0])
        if not isinstance(impl, list) or len(impl) != len(case["ops"]):
            continue
        finds = impl[1:]
        if any(vlib.canon(x) != vlib.canon(finds[0]) for x in finds) and ch in UNRESERVED:
            bad = next(k for k, x in enumerate(finds) if vlib.canon(x) != vlib.canon(finds[0]))
            R.violation(f"re-encoding unreserved characters changed the outcome: {targets[0]} -> "
                        f"{json.dumps(finds[0])[:160]} but {targets[bad]} -> {json.dumps(finds[bad])[:160]} - " + what,
                        dict(payload0, case=case, impl=impl, model=model, kind="impl-spelling-vs-impl-respelling"))
            return
        if vlib.canon(impl) != vlib.canon(model):
            R.violation(what + "; the real lookup differs from the model on " + json.dumps(targets)
                        + ": impl " + json.dumps(finds)[:300], dict(payload0, case=case, impl=impl, model=model,
                                                                      kind="impl-vs-model"), no_input=ch in UNRESERVED)
            return
    R.violation("translated " + ", ".join(sorted({r["fn"] for r in rows + loop_rows})) + f" differ(s) from the model on "
                f"{len(rows) + len(loop_rows)} input(s) (theorems that no longer check: {named}); not confirmed through the lookup",
                dict(payload0, rows=rows[:20]), no_input=True)
