"""C05 side of the tie by translated source: the assertions about verified claims (Expectation.AssertValidity /
AssertIssuanceTime / AssertIssuer / AssertAudience / AssertAlgorithm and Claims.Validate of
internal/rules/mechanisms/oauth2) are translated from the current source on every run (extract/go2lean, cmd/claims,
Gen/ClaimsSrc.lean) and proved to refuse what the model's notYetValid / expired / issuedInFuture / audienceOk / validate
refuse, for every clock reading, claim value and whole-second leeway (Props/C05Src.lean). Shared machinery:
tools/go2lean_tie.py; called from tools/props/c05.py."""
import go2lean_tie as tie

TIE = tie.Tie(
    cmd="claims", gen_module="HeimdallModel.Gen.ClaimsSrc", stub_namespace="Heimdall.Jwt.Src",
    what="the assertions about verified claims",
    trusted="Go -> Lean translator extract/go2lean (go/ast, fails closed outside its subset; regenerates Gen/ClaimsSrc.lean "
            "from the whole bodies of the Assert… methods of oauth2.Expectation and of Claims.Validate on every run): "
            "trusted to keep the meaning of the statements it translates; its tables (cmd/claims/main.go) say that an "
            "instant is its Unix time in whole seconds, a duration a whole number of seconds, all time.Now() of one body "
            "one instant, t.IsZero() / t.Equal(time.Time{}) the absence of the claim, and that the membership tests on "
            "string slices (slices.Contains, slicex.Intersects) are booleans")
PROP = tie.Prop("HeimdallModel.Props.C05Src", "Heimdall.Props.C05", always=("HeimdallModel.Model.JwtSrc",))

ASSUMPTION = (
    "translated source (Gen/ClaimsSrc.lean): instants and durations are whole seconds (a leeway that is not a whole "
    "number of seconds is covered by the correspondence run only); the membership tests (trusted issuer, expected "
    "audience, allowed algorithm) are atoms which Model/JwtSrc.lean fills in with the model's list functions; in "
    "Claims.Validate the five assertions are parameters - which arguments they are called with (c.NotBefore / c.Expiry / "
    "c.IssuedAt, scp before scope) is checked by the correspondence run")

SEARCH = r"""
import HeimdallModel.Model.JwtSrc
open Heimdall Heimdall.Jwt Heimdall.Jwt.SrcTie

def leeways : List Int := [0, 1, 5, 10, 60, -5]
def claimTimes : List (Option Int) := [none, some 0, some 1000, some 1001, some 990, some 1010, some 1011, some 989, some (-5)]
def clocks : List Int := [1000000, 1000999, 999000, 1010000, 989000, 990000, 1005000, 995000, 1011000]

def sh (o : Option Int) : String := match o with | none => "absent" | some t => toString t

def main : IO Unit := do
  let mut n := 0
  for ls in leeways do
    let e : Expectation := { issuers := ["i"], leeway := 1000 * ls }
    for now in clocks do
      for a in claimTimes do
        for b in claimTimes do
          let src := resOf (validitySrc ls now a b)
          let want := if notYetValid e a now || expired e b now then some Why.notYetValid else none
          if src != want && n < 20 then
            n := n + 1
            IO.println s!"\{\"fn\": \"AssertValidity\", \"leeway_s\": {ls}, \"now_ms\": {now}, \"nbf\": \"{sh a}\", \"exp\": \"{sh b}\", \"src_refuses\": {src.isSome}, \"model_refuses\": {want.isSome}}"
        let src := resOf (issuedSrc ls now a)
        let want := if issuedInFuture e a now then some Why.issuedInFuture else none
        if src != want && n < 20 then
          n := n + 1
          IO.println s!"\{\"fn\": \"AssertIssuanceTime\", \"leeway_s\": {ls}, \"now_ms\": {now}, \"iat\": \"{sh a}\", \"src_refuses\": {src.isSome}, \"model_refuses\": {want.isSome}}"
  for iss in ["", "i", "j"] do
    for issuers in [[], ["i"], [""], ["", "i"]] do
      for aud in [[], ["a"], ["b"], ["a", "b"]] do
        for auds in [[], ["a"], ["c"], ["c", "b"]] do
          for (scp, sc) in [(([] : List String), ([] : List String)), (["x"], []), ([], ["x"])] do
            let e : Expectation := { issuers := issuers, audiences := auds, leeway := 0 }
            let c : Claims := { iss := iss, aud := aud, scp := scp, scope := sc, exp := some 2000, nbf := none, iat := some 3000 }
            for now in [1000000, 2010000] do
              let src := resOf (validateSrc e 0 c now)
              let want := refusalOf (validate e c now)
              if src != want && n < 20 then
                n := n + 1
                IO.println s!"\{\"fn\": \"Claims.Validate\", \"iss\": \"{iss}\", \"trusted\": \"{issuers}\", \"aud\": \"{aud}\", \"expected\": \"{auds}\", \"now_ms\": {now}, \"src\": \"{repr src}\", \"model\": \"{repr want}\"}"
  IO.println s!"\{\"differing\": {n}}"
"""


def step(R):
    res = tie.step(R, TIE, PROP)
    R.lean_src = res
    R.assumptions.append(ASSUMPTION)
    return res


def report(R):
    try:
        _report(R)
    finally:
        tie.restore(TIE)


def _report(R):
    res = getattr(R, "lean_src", None)
    if res is None:
        return
    if res["translate_error"]:
        R.violation("the assertions about verified claims can no longer be translated to Lean (extract/go2lean fails "
                    "closed; the theorems c05_src_* of Props/C05Src.lean say nothing about this code): "
                    + res["translate_error"],
                    {"translator": "extract/go2lean cmd/claims", "error": res["translate_error"],
                     "kind": "src-untranslatable"}, no_input=True)
        return
    if res["ok"]:
        return
    named = tie.named(res)
    payload = {"lean_log": res["log"], "failed": res["failed"], "theorems": res["failed_theorems"], "kind": "src-vs-model"}
    rc, rows, log = tie.run_lean(R, TIE, PROP, "c05src_search.lean", SEARCH)
    if rc is None or rc != 0:
        R.violation("the Lean translation of the claim assertions (Gen/ClaimsSrc.lean) or its instantiation with the "
                    "model's expectations (Model/JwtSrc.lean) does not compile: " + log[-600:], dict(payload, lean_log=log),
                    no_input=True)
        return
    diff = [r for r in rows if "fn" in r]
    R.coverage["src_search"] = {"grid": "6 leeways x 9 clock readings x 9 x 9 claim times (validity), x 9 (issuance time); "
                                        "3 issuers x 4 trusted lists x 4 x 4 audiences x 3 scope claims x 2 clocks (Validate)",
                                "points_where_translation_differs_from_model": len(diff)}
    if diff:
        d = diff[0]
        R.violation(f"the translated {d['fn']} decides differently from the model (the documented behaviour) at {d} "
                    f"(theorems that no longer check: {named})", dict(payload, point=d, points=diff), no_input=True)
    else:
        R.violation(f"theorems of Props/C05Src.lean no longer check: {named}; on the search grid the translated assertions "
                    "decide like the model (the proof script does not cover this shape of the code)", payload,
                    no_input=True)
