"""Shared check logic of the properties tied through the `repo` line-protocol family (C03, C06, C08)."""
import copy
import json

import vlib


def run_both(exe, cases):
    impl = vlib.run_cases([exe], cases)
    model = vlib.run_cases(vlib.driver_cmd(), cases)
    return impl, model


def first_diff(case, i, m):
    m = vlib.res_of(m)
    if isinstance(i, list) and isinstance(m, list):
        for k, (a, b) in enumerate(zip(i, m)):
            if a != b:
                return k, a, b
        if len(i) != len(m):
            return min(len(i), len(m)), None, None
        return None, None, None
    return -1, i, m


def shrink_ops(exe, case, fails_case):
    def fails(ops):
        return fails_case(dict(case, ops=ops))
    ops = vlib.ddmin(case["ops"], fails)
    # shrink rules inside rule-set ops, then routes inside rules
    for idx in range(len(ops)):
        if "rules" in ops[idx] and len(ops[idx]["rules"]) > 1:
            def fr(rules, idx=idx):
                o2 = copy.deepcopy(ops)
                o2[idx]["rules"] = rules
                return fails(o2)
            ops[idx] = dict(ops[idx], rules=vlib.ddmin(ops[idx]["rules"], fr))
    return dict(case, ops=ops)


def differs(exe):
    def f(case):
        i = vlib.run_cases([exe], [case])[0]
        m = vlib.run_cases(vlib.driver_cmd(), [case])[0]
        return vlib.canon(i) != vlib.canon(vlib.res_of(m))
    return f


def context_for(exe, cases, n):
    """The case `cases[n]` disagrees only in the run of the whole list: find the fewest earlier cases (same process,
    same order) after which it still does. Returns the list of cases (context + the case) or None."""
    c = cases[n]

    def fails(ctx):
        seq = list(ctx) + [c]
        i = vlib.run_cases([exe], seq)[-1]
        m = vlib.run_cases(vlib.driver_cmd(), [c])[0]
        return vlib.canon(i) != vlib.canon(vlib.res_of(m))
    prefix = cases[:n]
    if not fails(prefix):
        return None
    return vlib.ddmin(prefix, fails) + [c]


def check_correspondence(R, exe, cases, prop_text, max_report=4):
    """impl vs model on all cases; returns (impl, model, n_bad). Violations are shrunk and recorded."""
    impl, model = run_both(exe, cases)
    bad = [(n, c, i, m) for n, (c, i, m) in enumerate(zip(cases, impl, model))
           if vlib.canon(i) != vlib.canon(vlib.res_of(m))]
    f = differs(exe)
    for n, c, i, m in bad[:max_report]:
        if not f(c):
            # every case builds its own factory and repository: a disagreement that needs earlier cases of the same
            # process means state survives outside them (package-level caches shared between rule sets / instances)
            seq = context_for(exe, cases, n)
            if seq is not None:
                si = vlib.run_cases([exe], seq)[-1]
                sm = vlib.res_of(vlib.run_cases(vlib.driver_cmd(), [c])[0])
                k, a, b = first_diff(c, si, sm)
                op = c["ops"][k] if isinstance(k, int) and 0 <= k < len(c["ops"]) else None
                R.violation(f"{prop_text}: implementation {json.dumps(a)[:200]} vs proved model {json.dumps(b)[:200]} at "
                            f"{json.dumps(op)[:300]} — only after {len(seq) - 1} earlier rule set histories were loaded "
                            f"in the same process (state shared between independent repositories / factories)",
                            {"cases": seq, "impl_last": si, "model_last": sm, "kind": "impl-vs-model-in-process-context"},
                            no_input=False)
                continue
            k, a, b = first_diff(c, i, vlib.res_of(m))
            op = c["ops"][k] if isinstance(k, int) and 0 <= k < len(c["ops"]) else None
            R.violation(f"{prop_text}: implementation {json.dumps(a)[:200]} vs proved model {json.dumps(b)[:200]} at "
                        f"{json.dumps(op)[:300]} (seen in the run of all cases, not reproduced alone)",
                        {"case": c, "impl": i, "model": vlib.res_of(m), "kind": "impl-vs-model-not-reproduced-alone"},
                        no_input=False)
            continue
        sc = shrink_ops(exe, c, f)
        si = vlib.run_cases([exe], [sc])[0]
        sm = vlib.res_of(vlib.run_cases(vlib.driver_cmd(), [sc])[0])
        k, a, b = first_diff(sc, si, sm)
        op = sc["ops"][k] if isinstance(k, int) and 0 <= k < len(sc["ops"]) else None
        R.violation(f"{prop_text}: implementation {json.dumps(a)[:200]} vs proved model {json.dumps(b)[:200]} at {json.dumps(op)[:300]}",
                    {"case": sc, "impl": si, "model": sm, "kind": "impl-vs-model"}, no_input=False)
    return impl, model, len(bad)


def stats_sum(model):
    tot = {}
    for m in model:
        if isinstance(m, dict):
            for k, v in m.get("stats", {}).items():
                tot[k] = tot.get(k, 0) + v
    return tot


def replay(R, path):
    with open(path) as fh:
        p = json.load(fh)
    exe = vlib.step_harness(R)
    seq = p["cases"] if "cases" in p else [p["case"]]
    c = seq[-1]
    i = vlib.run_cases([exe], seq)[-1]
    m = vlib.res_of(vlib.run_cases(vlib.driver_cmd(), [c])[0])
    print("impl :", json.dumps(i))
    print("model:", json.dumps(m))
    R.coverage.update({"obligations": 1, "discharged": 1, "checker_cmd": "replay", "trusted_base": []})
    if vlib.canon(i) != vlib.canon(m):
        R.violation("replay still differs", {"cases": seq, "impl": i, "model": m})
