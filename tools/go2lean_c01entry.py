"""C01, second tie by translated source: the entry-point kernels ((*ruleExecutor).Execute, (*handler).ServeHTTP of the
decision / proxy services, (*Handler).Check of the Envoy ext_authz service) are translated from the current source on every
run (extract/go2lean, cmd/entry, Gen/EntrySrc.lean) and proved to finalise a request only after a rule was found and
executed without error, to hand every error to the error handler exactly once and to let a panic through
(Props/C01Entry.lean). Shared machinery: tools/go2lean_tie.py; called from tools/props/c01.py."""
import go2lean_tie as tie

TIE = tie.Tie(
    cmd="entry", gen_module="HeimdallModel.Gen.EntrySrc", stub_namespace="Heimdall.Entry.Src",
    what="the entry-point kernels (rule executor, HTTP handler, Envoy handler)",
    trusted="Go -> Lean translator extract/go2lean (go/ast, fails closed outside its subset; regenerates Gen/EntrySrc.lean "
            "from the whole bodies of (*ruleExecutor).Execute, (*handler).ServeHTTP and (*Handler).Check on every run): "
            "trusted to keep the meaning of the statements it translates; its table (cmd/entry/main.go): FindRule, the "
            "rule's Execute, the context factory, the executor, Finalize and HandleError are uninterpreted computations "
            "(effects on the context, may panic); log statements are dropped")
PROP = tie.Prop("HeimdallModel.Props.C01Entry", "Heimdall.Props.C01", always=("HeimdallModel.Gen.EntrySrc",))

ASSUMPTION = (
    "translated source (Gen/EntrySrc.lean): the three entry-point kernels are translated with their parts (repository, "
    "rule, request context, error handler) as parameters; Props/C01Entry.lean lets the parts log their being called and "
    "proves the order of the calls for every outcome. What Finalize of the three request contexts does with a recorded "
    "pipeline error is the hand-written model Model/EntryPoints.lean, tied by the correspondence run")


def step(R):
    res = tie.step(R, TIE, PROP)
    R.lean_src_entry = res
    R.assumptions.append(ASSUMPTION)
    return res


def report(R, concrete_found=False):
    """after the correspondence run; concrete_found: the run already has a violation with a concrete replay"""
    try:
        res = getattr(R, "lean_src_entry", None)
        if res is None or res["ok"]:
            return
        if res["translate_error"]:
            R.violation("the entry-point kernels can no longer be translated to Lean (extract/go2lean fails closed; the "
                        "theorems c01_entry_* of Props/C01Entry.lean say nothing about this code): " + res["translate_error"],
                        {"translator": "extract/go2lean cmd/entry", "error": res["translate_error"],
                         "kind": "src-untranslatable"}, no_input=True)
            return
        R.violation("theorems of Props/C01Entry.lean no longer check: " + tie.named(res) + " (the translated entry-point "
                    "kernels no longer finalise only after a successful execution / hand every error to the error handler "
                    "exactly once / let a panic through)",
                    {"lean_log": res["log"], "failed": res["failed"], "theorems": res["failed_theorems"],
                     "kind": "src-vs-model"}, no_input=True)
    finally:
        tie.restore(TIE)
