"""C01 side of the tie by translated source: the control-flow kernels of the rule pipelines
(compositeSubjectCreator / compositeSubjectHandler / compositeErrorHandler / conditionalSubjectHandler /
conditionalErrorHandler / ruleImpl .Execute) are translated from the current source on every run (extract/go2lean, cmd/composite,
Gen/CompositeSrc.lean) and proved equal to the model's createSubject / runHandlers / runErrorHandlers / Handler.execute
for all lists (Props/C01Src.lean). Shared machinery: tools/go2lean_tie.py; called from tools/props/c01.py."""
import importlib.util
import json
import os

import gen_pipeline
import go2lean_tie as tie
import vlib

TIE = tie.Tie(
    cmd="composite", gen_module="HeimdallModel.Gen.CompositeSrc", stub_namespace="Heimdall.Rules.Src",
    what="the pipeline kernels (composite / conditional handlers)",
    trusted="Go -> Lean translator extract/go2lean (go/ast, fails closed outside its subset; regenerates "
            "Gen/CompositeSrc.lean from the whole bodies of the composite / conditional Execute methods of internal/rules "
            "on every run): trusted to keep the meaning of the statements it translates; its tables (cmd/composite/main.go) "
            "say which calls are uninterpreted functions of opaque elements (Execute, CanExecuteOn…: effects on the "
            "context, may panic; IsFallbackOnErrorAllowed, ContinueOnError, errors.Is: pure) and which statements are "
            "dropped (log statements, accesscontext.SetSubject)")
PROP = tie.Prop("HeimdallModel.Props.C01Src", "Heimdall.Props.C01",
                always=("HeimdallModel.Model.PipelineSrc", "Driver.Pipeline"))

ASSUMPTION = (
    "translated source (Gen/CompositeSrc.lean): the elements of the slices the composites range over, the condition and "
    "the wrapped handler of a conditional handler are opaque - a call of one of their methods is an uninterpreted "
    "function (with effects on the request context and possibly panicking for Execute / CanExecuteOnSubject / "
    "CanExecuteOnError, pure for the flags and errors.Is); log statements and accesscontext.SetSubject are dropped; the "
    "theorems c01_src_* instantiate these functions with the mechanisms of the model (scripted outcomes). In "
    "ruleImpl.Execute the preparation of the request (encoded slashes, captures) only changes the request and is "
    "dropped, except for the early refusal of an encoded slash; building the backend value is opaque")


def programs():
    path = os.path.join(vlib.VERIF, "extract", "go2lean", "composite.py")
    spec = importlib.util.spec_from_file_location("go2lean_composite", path)
    mod = importlib.util.module_from_spec(spec)
    spec.loader.exec_module(mod)
    return mod


def long_pipelines():
    """rules the small-scope enumeration of the correspondence run does not contain: three authenticators; two and
    three authorizers (differences that need a value carried from one iteration of a loop to the next)"""
    import copy
    import itertools
    cases = []

    def add(al, hl):
        doc = {"auth": [dict(a, id=f"a{i}") for i, a in enumerate(al)],
               "hand": [dict(h, id=f"h{i}", typ="authorizer") for i, h in enumerate(hl)],
               "fin": [], "eh": copy.deepcopy(gen_pipeline.EH_CLASSES[0]), "backend": True}
        cases.append(gen_pipeline.derive({"fam": "pipeline", "cfg": {"log": "info"}, "rule": doc, "default": None,
                                          "hit": True, "upstream": 200, "style": 0, "accept": None,
                                          "req": {"hdr": None, "q": None}}))

    for al in itertools.product(gen_pipeline.AUTH_CLASSES, repeat=3):
        add(list(al), [])
    ok = [gen_pipeline.AUTH_CLASSES[0]]
    for n in (2, 3):
        for hl in itertools.product(gen_pipeline.STEP_CLASSES[:6], repeat=n):
            add(ok, list(hl))
    return cases


def step(R):
    """regenerates Gen/CompositeSrc.lean, builds and audits Props/C01Src.lean; evidence is merged into R.coverage"""
    res = tie.step(R, TIE, PROP)
    R.lean_src = res
    R.assumptions.append(ASSUMPTION)
    return res


def report(R, exe, corpus, one, spec_violations, differs, describe, shrink):
    """called after the correspondence run: says what a broken tie means. `one`, `spec_violations`, `differs`,
    `describe`, `shrink` are the helpers of tools/props/c01.py."""
    try:
        _report(R, exe, corpus, one, spec_violations, differs, describe, shrink)
    finally:
        tie.restore(TIE)


def _report(R, exe, corpus, one, spec_violations, differs, describe, shrink):
    res = R.lean_src
    if res["translate_error"]:
        R.violation("the pipeline kernels of internal/rules can no longer be translated to Lean (extract/go2lean fails "
                    "closed; the theorems c01_src_* of Props/C01Src.lean say nothing about this code): "
                    + res["translate_error"],
                    {"translator": "extract/go2lean cmd/composite", "error": res["translate_error"],
                     "kind": "src-untranslatable"}, no_input=True)
        return
    if res["ok"]:
        return
    named = tie.named(res)
    payload0 = {"lean_log": res["log"], "failed": res["failed"], "theorems": res["failed_theorems"],
                "kind": "src-vs-model"}
    # rules on which the translated kernels and the model differ: corpus + small-scope enumeration, decoded and
    # evaluated in Lean
    small = gen_pipeline.small_scope_cases()
    rows, cands, log = [], [], ""
    for cands in (corpus + long_pipelines() + small[::4], small):
        rc, rows, log = tie.run_lean(R, TIE, PROP, "c01src_search.lean", programs().C01_PROGRAM,
                                     stdin="\n".join(json.dumps(c) for c in cands) + "\n")
        if rc is None:
            R.violation("the Lean translation of the pipeline kernels (Gen/CompositeSrc.lean) or its instantiation with "
                        "the model's mechanisms (Model/PipelineSrc.lean) does not compile: " + log[-600:],
                        dict(payload0, lean_log=log), no_input=True)
            return
        rows = [r for r in rows if "error" not in r]
        if rc != 0 or rows:
            break
    R.coverage["src_search"] = {"rules_evaluated": len(cands), "translation_differs_from_model_on": len(rows)}
    if not rows:
        R.violation(f"theorems of Props/C01Src.lean no longer check: {named}; on the corpus and on all "
                    f"{len(small)} small-scope rules the translated kernels agree with the model (the proof script does "
                    "not cover this shape of the code, or the difference needs a longer pipeline)", payload0,
                    no_input=True)
        return

    def size(c):
        d = c.get("rule") or c.get("default") or {}
        return sum(len(d.get(k, [])) for k in ("auth", "hand", "fin", "eh"))

    picked = sorted(rows, key=lambda r: (size(cands[r["i"]]), r["i"]))[:24]
    parts = sorted({p for r in rows for p in r["parts"]})
    confirmed = None
    drift = None
    for r in picked:
        c = cands[r["i"]]
        i, m = one(exe, c)
        eps = spec_violations(i, m)
        if eps:
            confirmed = (c, eps[0])
            break
        if drift is None and differs(i, m):
            drift = (c, i, m)
    what = f"translated {', '.join(parts)} differ(s) from the model (theorems that no longer check: {named})"
    if confirmed:
        c, ep = confirmed
        sc = shrink(exe, c, lambda x, ep=ep: ep in spec_violations(*one(exe, x)))
        sc.pop("note", None)
        si, sm = one(exe, sc)
        R.violation(describe(sc, ep, si, sm) + " - " + what,
                    dict(payload0, case=sc, impl=si, model=vlib.res_of(sm), kind="impl-vs-spec", entry_point=ep,
                         spec=sm.get("spec") if isinstance(sm, dict) else None))
    elif drift:
        c, i, m = drift
        R.violation(what + "; the real code differs from the model on such a rule too, but no wrongly positive answer "
                    "was found: impl " + json.dumps(i)[:300] + " model " + json.dumps(vlib.res_of(m))[:300],
                    dict(payload0, case=c, impl=i, model=vlib.res_of(m), kind="impl-vs-model"), no_input=True)
    else:
        c = cands[picked[0]["i"]]
        R.violation(what + f"; on the {len(picked)} smallest such rules the real code answers like the model: the "
                    "translation (its abstraction) and the code disagree", dict(payload0, case=c), no_input=True)
