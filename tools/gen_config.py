"""Generators for property C20 (configuration loader): tree-level cases for the probe struct and schema-shaped
configurations for the real Configuration. Every random choice comes from the rng passed in."""
import json

TOP_KEYS = ["a", "b", "c", "a_b", "l", "m", "x1"]          # koanf tags of the probe struct in harness/main/config.go
KEYS = ["k", "key", "some_key", "a_b_c", "x_", "n0", "id", "type", "config", "to", "v9_x", "k__d", "p"]
STR_ATOMS = ["v", "foo", "bar baz", "anonymous", "http://h:1/p?q=1", "a,b", "x-y", "1.2.3.4/24", "5s", "4KB", "Abc", "ü"]
QUOTED_ATOMS = ["42", "true", "null", "0x1f", " lead", "a: b", "#c", "", "~", "1e3", "[x]", "{y}", "*r", "&a", "- d", "yes", "007", "-"]


# texts of an environment variable that YAML (env.go toRealType) reads as nil: the empty text, blanks, the null words,
# and texts YAML cannot read at all (the error is ignored). A variable with such a value still DEFINES its leaf
NIL_TEXTS = ["", "", "null", "~", "Null", "NULL", " ", "  ", "-", "a: b", "- d"]


def gen_atom(rng):
    r = rng.random()
    if r < 0.45:
        return rng.choice(STR_ATOMS)
    if r < 0.6:
        return rng.choice(QUOTED_ATOMS)
    if r < 0.85:
        return rng.choice([0, 1, 7, 42, 4456, -3, 100000])
    return rng.choice([True, False])


def raw_env_value(atom):
    """the text an operator writes into the variable so that YAML typing gives back `atom`"""
    if isinstance(atom, bool):
        return "true" if atom else "false"
    if isinstance(atom, int):
        return str(atom)
    if atom in STR_ATOMS:
        return atom
    return json.dumps(atom, ensure_ascii=False)


def gen_shape(rng, depth, top=False):
    """a tree without holes: dict / list / scalar"""
    r = rng.random()
    if depth <= 0 or (not top and r < 0.35):
        return gen_atom(rng)
    if top or r < 0.72:
        keys = rng.sample(TOP_KEYS if top else KEYS, rng.randint(1, 4 if top else 3))
        return {k: gen_shape(rng, depth - 1) for k in keys}
    n = rng.randint(1, 4)
    kind = rng.random()
    if kind < 0.05:
        return [gen_atom(rng) for _ in range(rng.randint(11, 13))]          # indices with more than one digit
    if kind < 0.4:
        return [gen_atom(rng) for _ in range(n)]
    if kind < 0.9:
        # list of structures which share property names (like the mechanism lists)
        keys = rng.sample(KEYS, rng.randint(1, 3))
        return [{k: gen_shape(rng, depth - 2) for k in keys if rng.random() < 0.8 or k == keys[0]} for _ in range(n)]
    return [gen_shape(rng, depth - 1) for _ in range(n)]


def leaves(t, path=()):
    if isinstance(t, dict):
        for k, v in t.items():
            yield from leaves(v, path + (k,))
    elif isinstance(t, list):
        for i, v in enumerate(t):
            yield from leaves(v, path + (i,))
    else:
        yield path, t


def build(leaf_list):
    """tree with exactly these leaves; list positions nobody fills are null"""
    root = {}

    def put(node, path, val):
        seg = path[0]
        last = len(path) == 1
        if isinstance(seg, int):
            while len(node) <= seg:
                node.append(None)
            if last:
                node[seg] = val
            else:
                if node[seg] is None:
                    node[seg] = [] if isinstance(path[1], int) else {}
                put(node[seg], path[1:], val)
        else:
            if last:
                node[seg] = val
            else:
                if seg not in node:
                    node[seg] = [] if isinstance(path[1], int) else {}
                put(node[seg], path[1:], val)

    for p, v in leaf_list:
        put(root, list(p), v)
    return root


def env_name(path, rng=None):
    """documented rule: segments joined by `_`, `_` in a name doubled, upper case (optionally in random case, the
    loader lower-cases)"""
    parts = []
    for seg in path:
        parts.append(str(seg) if isinstance(seg, int) else seg.replace("_", "__").upper())
    name = "_".join(parts)
    if rng is not None and rng.random() < 0.1:
        name = "".join(ch.lower() if rng.random() < 0.5 else ch for ch in name)
    return name


def perturb(rng, atom):
    """a different value of the same kind, for conflicting assignments"""
    for _ in range(20):
        if isinstance(atom, bool):
            return not atom
        if isinstance(atom, int):
            return atom + rng.randint(1, 9)
        b = rng.choice(STR_ATOMS)
        if b != atom:
            return b
    return atom


def gen_load_case(rng, rep=3):
    """one configuration, its leaves distributed over defaults / file / environment with overlaps, the environment
    in several enumeration orders"""
    shape = gen_shape(rng, rng.randint(2, 5), top=True)
    ls = list(leaves(shape))
    style = rng.random()
    d_l, f_l, e_l = [], [], []
    for p, v in ls:
        if style < 0.15:
            src = {"e"}                                     # everything from the environment
        elif style < 0.25:
            src = {"f"}
        else:
            src = {s for s in "dfe" if rng.random() < 0.45} or {rng.choice("dfe")}
        # conflicting assignments: every source has its own value, the strongest is the one of `shape`
        if "e" in src:
            e_l.append((p, v))
            if "f" in src:
                f_l.append((p, perturb(rng, v) if rng.random() < 0.8 else v))
            if "d" in src:
                d_l.append((p, perturb(rng, v)))
        elif "f" in src:
            f_l.append((p, v))
            if "d" in src:
                d_l.append((p, perturb(rng, v)))
        else:
            d_l.append((p, v))
    rng.shuffle(e_l)
    env = [[env_name(p, rng), raw_env_value(v), v] for p, v in e_l]
    # nil values: a variable that defines its leaf to be nil (below the top level: the top level of the probe is a struct,
    # whose fields the decoder resets to the default); most of them for leaves file or defaults define as well.
    # A nil addressed to a list position is the known finding C20-nil-list-element
    defined = {p for p, _ in f_l} | {p for p, _ in d_l}
    for k, (p, v) in enumerate(e_l):
        if len(p) >= 2 and rng.random() < (0.12 if p in defined else 0.04):
            env[k] = [env[k][0], rng.choice(NIL_TEXTS), None]
    # ... and the file saying `null` at a property (never at the top level, see above)
    f_l = [(p, None) if len(p) >= 2 and isinstance(p[-1], str) and rng.random() < 0.03 else (p, v) for p, v in f_l]
    n = len(env)
    orders = [list(range(n))]
    if n > 1:
        orders.append(list(reversed(range(n))))
        for _ in range(2):
            o = list(range(n))
            rng.shuffle(o)
            orders.append(o)
    case = {"fam": "config", "op": "load", "defaults": build(d_l), "env": env, "orders": orders, "rep": rep}
    if f_l or rng.random() < 0.5:
        if f_l:
            case["file"] = json.dumps(build(f_l), ensure_ascii=False)
    # a prefix of its own (lower / mixed case, padded, empty) and foreign variables in between
    return maybe_prefix(case, rng, 0.3, allow_empty=True)


# ---------------------------------------------------------------------------------------------------------------
# the prefix of the variable names (--env-config-prefix): whatever the operator configures - lower or mixed case,
# without the trailing underscore, with a dot or underscores inside, padded with blanks - is the prefix, as written.
# A case under a prefix of its own lists the variables of the PROCESS under their full names; among them are foreign
# ones, named like real ones but for the case of letters of the prefix (or a truncated / shifted prefix), which would
# define conflicting values if the loader took them

PREFIXES = ["VERIFC20P_", "verifc20p_", "VerifC20p_", "verifC20Q", "Verifc20.r_", "VERIFC20_s__T_", " VerifC20u_ ",
            "\tverifc20v_  ", "vErIfC20W_"]


def effective_prefix(configured):
    """strings.TrimSpace (the generator pads with blanks and tabs only)"""
    return configured.strip(" \t")


def foreign_names(pre, name):
    """variable names that look like `pre + name` but do not start with `pre`"""
    if not pre:
        return []
    cands = [pre.swapcase() + name, pre.upper() + name, pre.lower() + name, pre[:-1] + name, "X" + pre + name,
             pre[0].swapcase() + pre[1:] + name, pre[:-2] + pre[-2].swapcase() + pre[-1] + name]
    return [c for c in dict.fromkeys(cands) if not c.startswith(pre)]


FOREIGN_VALUES = [("foreign", "foreign"), ("7777", 7777), ("true", True), ("", None)]


def with_prefix(case, configured, rng=None, p_foreign=0.5):
    """`case` under the configured prefix: full variable names, foreign variables in between (rng None: one foreign twin
    per variable, deterministic), the enumeration orders carried over"""
    pre = effective_prefix(configured)
    res = dict(case, prefix=configured)
    env, origin = [], []
    for k, e in enumerate(case.get("env", [])):
        twins = foreign_names(pre, e[0])
        if twins and (rng is None or rng.random() < p_foreign):
            t = twins[0] if rng is None else rng.choice(twins)
            raw, typed = FOREIGN_VALUES[0] if rng is None else rng.choice(FOREIGN_VALUES[:3])
            if rng is None or rng.random() < 0.5:
                env.append([t, raw, typed])
                origin.append(None)
        env.append([pre + e[0]] + list(e[1:]))
        origin.append(k)
    if not pre:
        res["clean_env"] = True          # the loader takes every variable of the process: the harness empties it first
    res["env"] = env
    if case.get("orders"):
        pos = {k: i for i, k in enumerate(origin) if k is not None}
        extra = [i for i, k in enumerate(origin) if k is None]
        orders = []
        for o in case["orders"]:
            no = [pos[k] for k in o]
            for i in extra:
                no.insert(rng.randint(0, len(no)) if rng is not None else 0, i)
            orders.append(no)
        res["orders"] = orders
    return res


def maybe_prefix(case, rng, p=0.3, allow_empty=False):
    if rng.random() >= p:
        return case
    if allow_empty and rng.random() < 0.12:
        return with_prefix(case, rng.choice(["", "  "]), rng)
    return with_prefix(case, rng.choice(PREFIXES), rng)


# ---------------------------------------------------------------------------------------------------------------
# schema-shaped configurations for the real Configuration struct (op "cfg")

DUR = ["1s", "5s", "2m", "3h", "250ms"]
# values of string-typed properties that do not look like strings: a file has to quote them, an operator writes them
# plainly into a variable. FAITHFUL ones are read back by YAML to something that prints as written
NUMLIKE_FAITHFUL = ["123456", "0", "-1", "42", "yes", "no", "on", "9000"]
NUMLIKE_RETYPED = ["007", "010", "1e3", "1.0", "1.10", "true", "false", "True", "0x1f", "1_000", "+5", "08", "00"]


def strange_string(rng, p=0.3):
    """sometimes a number-looking value for a string property (None: keep the ordinary value)"""
    if rng.random() < p:
        return rng.choice(NUMLIKE_FAITHFUL + NUMLIKE_RETYPED)
    return None


def typed_string_leaf(path):
    """is the leaf at `path` a string field of the Configuration struct (not a member of a free-form map)?"""
    if "config" in path or not path or isinstance(path[-1], int):
        return False
    return path[-1] in ("host", "id", "key_id") or tuple(path[-2:]) == ("key_store", "password")
SIZE = ["4KB", "1MB", "512B", "10KB"]


def gen_service(rng, svc="proxy"):
    s = {}
    if rng.random() < 0.6:
        s["host"] = strange_string(rng, 0.2) or rng.choice(["127.0.0.1", "0.0.0.0", "localhost"])
    if rng.random() < 0.25:
        s["tls"] = {"key_store": {"path": "/etc/heimdall/keys.pem", "password": strange_string(rng, 0.7) or "VerySecret!"}}
        if rng.random() < 0.6:
            s["tls"]["key_id"] = strange_string(rng, 0.7) or "key1"
        if rng.random() < 0.4:
            s["tls"]["min_version"] = rng.choice(["TLS1.2", "TLS1.3"])
    if rng.random() < 0.7:
        s["port"] = rng.choice([4455, 4456, 4457, 8080, 9000])
    if rng.random() < 0.5:
        s["timeout"] = {k: rng.choice(DUR) for k in rng.sample(["read", "write", "idle"], rng.randint(1, 3))}
    if rng.random() < 0.4:
        s["buffer_limit"] = {k: rng.choice(SIZE) for k in rng.sample(["read", "write"], rng.randint(1, 2))}
    if rng.random() < 0.6:
        s["trusted_proxies"] = rng.sample(["192.168.1.0/24", "10.0.0.0/8", "172.16.0.1", "192.168.2.0/24"],
                                          rng.randint(1, 3))
        if rng.random() < 0.1:
            s["trusted_proxies"] = [f"10.1.{i}.0/24" for i in range(rng.randint(11, 12))]
    if rng.random() < 0.5 and svc != "management":
        w = {k: {"code": rng.choice([400, 401, 403, 404, 418, 500, 502, 202])}
             for k in rng.sample(["accepted", "precondition_error", "authentication_error", "authorization_error",
                                  "communication_error", "internal_error", "no_rule_error"], rng.randint(1, 3))}
        s["respond"] = {"verbose": rng.random() < 0.5, "with": w}
    if rng.random() < 0.4 and svc != "decision":
        s["cors"] = {"allowed_origins": rng.sample(["example.org", "foo.bar", "*.x.y"], rng.randint(1, 3)),
                     "allow_credentials": rng.random() < 0.5, "max_age": rng.choice(DUR)}
        if rng.random() < 0.5:
            s["cors"]["allowed_methods"] = rng.sample(["GET", "POST", "PUT", "DELETE"], rng.randint(1, 3))
    return s


def gen_mechanisms(rng):
    authn = []
    for i in range(rng.randint(1, 3)):
        t = rng.choice(["anonymous", "unauthorized", "basic_auth", "anonymous_cfg"])
        m = {"id": f"authn{i}", "type": t}
        if i == 0 and rng.random() < 0.3:      # one per list: entries must stay different (uniqueItems)
            m["id"] = str(rng.choice([1000, 123456, 42]) + i) if rng.random() < 0.6 else rng.choice(NUMLIKE_RETYPED)
        if t == "basic_auth":
            m["config"] = {"user_id": rng.choice(["u", "joe"]), "password": rng.choice(["pw", "secret"])}
        if t == "anonymous_cfg":
            m["type"] = "anonymous"
            m["config"] = {"subject": rng.choice(["anon", "nobody"])}
        authn.append(m)
    fin = []
    for i in range(rng.randint(1, 3)):
        t = rng.choice(["noop", "header", "cookie"])
        m = {"id": f"fin{i}", "type": t}
        if t == "header":
            m["config"] = {"headers": {k: rng.choice(["v1", "v2", "x y"]) for k in rng.sample(["x_user", "x_id", "h9"], rng.randint(1, 2))}}
        if t == "cookie":
            m["config"] = {"cookies": {k: rng.choice(["c1", "c2"]) for k in rng.sample(["sess", "u_id"], rng.randint(1, 2))}}
        fin.append(m)
    mech = {"authenticators": authn, "finalizers": fin}
    if rng.random() < 0.6:
        az = []
        for i in range(rng.randint(1, 3)):
            t = rng.choice(["allow", "deny", "cel", "remote"])
            m = {"id": f"authz{i}", "type": t}
            if t == "cel":
                m["config"] = {"expressions": [{"expression": e}
                                               for e in rng.sample(["true", "1 == 1", "false"], rng.randint(1, 3))]}
                if rng.random() < 0.5:
                    m["config"]["expressions"][0]["message"] = rng.choice(["no", "denied by cel"])
            if t == "remote":
                m["config"] = {"endpoint": {"url": rng.choice(["http://opa:8181/v1/data", "https://az/x"]),
                                            "method": rng.choice(["POST", "GET"])},
                               "payload": rng.choice(["p", "q=1"])}
            az.append(m)
        mech["authorizers"] = az
    if rng.random() < 0.6:
        eh = []
        for i in range(rng.randint(1, 3)):
            t = rng.choice(["default", "redirect", "www_authenticate"])
            m = {"id": f"eh{i}", "type": t}
            if t == "redirect":
                m["config"] = {"to": rng.choice(["http://login/x", "https://idp/login?r=1"])}
                if rng.random() < 0.5:
                    m["config"]["code"] = rng.choice([301, 302])
            if t == "www_authenticate":
                m["config"] = {"realm": rng.choice(["r", "my app"])}
            eh.append(m)
        mech["error_handlers"] = eh
    return mech


def gen_cache(rng, p_redis=0.5):
    if rng.random() >= p_redis:
        return {"type": rng.choice(["noop", "in-memory"])}
    conf = {"address": rng.choice(["foo:12345", "bar:6379", "redis.local:6379"])}
    if rng.random() < 0.5:
        conf["db"] = rng.choice([0, 1, 3])
    if rng.random() < 0.5:
        conf["credentials"] = {"path": rng.choice(["/path/to/credentials.yaml", "/run/secrets/redis"])}
    if rng.random() < 0.5:
        conf["client_cache"] = {"disabled": rng.random() < 0.5}
        if rng.random() < 0.5:
            conf["client_cache"]["ttl"] = rng.choice(["5m", "30s"])
    return {"type": "redis", "config": conf}


def gen_config(rng):
    c = {}
    if rng.random() < 0.8:
        c["serve"] = {k: gen_service(rng, k) for k in rng.sample(["decision", "proxy", "management"], rng.randint(1, 3))}
        c["serve"] = {k: v for k, v in c["serve"].items() if v}
        if not c["serve"]:
            del c["serve"]
    if rng.random() < 0.6:
        c["log"] = {"level": rng.choice(["debug", "info", "warning", "error"])}
        if rng.random() < 0.5:
            c["log"]["format"] = rng.choice(["text", "gelf"])
    if rng.random() < 0.4:
        c["tracing"] = {"enabled": rng.random() < 0.5, "span_processor": rng.choice(["simple", "batch"])}
    if rng.random() < 0.3:
        c["metrics"] = {"enabled": rng.random() < 0.5}
    if rng.random() < 0.3:
        c["profiling"] = {"enabled": rng.random() < 0.5, "host": "0.0.0.0", "port": rng.choice([9999, 10251])}
    if rng.random() < 0.3:
        c["cache"] = gen_cache(rng)
    if rng.random() < 0.85:
        c["mechanisms"] = gen_mechanisms(rng)
        if rng.random() < 0.6:
            ex = [{"authenticator": c["mechanisms"]["authenticators"][0]["id"]}]
            if rng.random() < 0.7:
                ex.append({"finalizer": c["mechanisms"]["finalizers"][0]["id"]})
            c["default_rule"] = {"execute": ex, "backtracking_enabled": rng.random() < 0.5}
            if "error_handlers" in c["mechanisms"] and rng.random() < 0.7:
                c["default_rule"]["on_error"] = [{"error_handler": c["mechanisms"]["error_handlers"][0]["id"],
                                                  "if": "type(Error) == authentication_error"}]
    if rng.random() < 0.3:
        c["providers"] = {"file_system": {"src": rng.choice(["rules.yaml", "/etc/rules"]), "watch": rng.random() < 0.5}}
    if rng.random() < 0.2:
        c["secrets_reload_enabled"] = rng.random() < 0.5
    if not c:
        c["log"] = {"level": "info"}
    return c


def prune(t):
    """drop the positions nobody fills at the end of lists and empty containers (what a file without those leaves
    looks like)"""
    if isinstance(t, dict):
        return {k: prune(v) for k, v in t.items()}
    if isinstance(t, list):
        return [prune(v) for v in t]
    return t


# ---------------------------------------------------------------------------------------------------------------
# splits of a schema-shaped configuration between file and environment

import re as _re

_PLAIN = _re.compile(r"^[A-Za-z/][A-Za-z0-9_./:?=-]*$")
_YAML_WORDS = {"true", "false", "null", "yes", "no", "on", "off", "y", "n", "~"}


_CANON_INT = _re.compile(r"^-?(0|[1-9][0-9]*)$")


def raw_value(atom, rng=None, path=None):
    """text of an environment variable that YAML types back to `atom` (plain where that is safe, else quoted).
    For a string field of the Configuration struct the plain spelling is used whenever YAML's reading of it prints as
    written (123456, 0, -1, yes): the loader converts it back"""
    if path is not None and isinstance(atom, str) and typed_string_leaf(path) and \
            (_CANON_INT.match(atom) or atom in ("yes", "no", "on", "off")):
        return atom
    if isinstance(atom, bool):
        return "true" if atom else "false"
    if isinstance(atom, int):
        return str(atom)
    if _PLAIN.match(atom) and atom.lower() not in _YAML_WORDS and (rng is None or rng.random() < 0.8):
        return atom
    return json.dumps(atom, ensure_ascii=False)


def placeholder(v):
    """what stands in the file at a list position whose content comes from the environment"""
    if isinstance(v, dict):
        return {}
    if isinstance(v, list):
        return []
    if isinstance(v, bool):
        return False
    if isinstance(v, int):
        return 0
    return ""


def restrict(t, keep, path=()):
    """the part of `t` whose leaves are in `keep`; list positions keep their index (placeholders fill the gaps),
    maps without kept leaves disappear. Returns (tree or None)"""
    if isinstance(t, dict):
        res = {}
        for k, v in t.items():
            sub = restrict(v, keep, path + (k,))
            if sub is not None:
                res[k] = sub
        return res if res else None
    if isinstance(t, list):
        subs = [restrict(v, keep, path + (i,)) for i, v in enumerate(t)]
        last = max((i for i, s in enumerate(subs) if s is not None), default=-1)
        if last < 0:
            return None
        return [s if s is not None else placeholder(t[i]) for i, s in enumerate(subs[:last + 1])]
    return t if path in keep else None


def valid_other(path, v, rng):
    """another value for the leaf at `path` that keeps a file schema-valid (None: leave the leaf alone)"""
    key = path[-1]
    if isinstance(v, bool):
        return not v
    if isinstance(v, int):
        if key == "port":
            return v + 1
        if key == "code" and "with" in path:
            return 418 if v != 418 else 404
        return None
    if isinstance(key, int):
        return None                                  # members of scalar lists must stay unique / well-formed
    if key in ("host", "key_id") or (key == "password" and "key_store" in path):
        return "127.0.0.2" if v != "127.0.0.2" else "127.0.0.3"
    if key in ("level",):
        return "fatal" if v != "fatal" else "panic"
    if key in ("id", "user_id", "password", "realm", "subject", "to", "src", "payload", "message", "authenticator",
               "finalizer", "error_handler", "x_user", "x_id", "h9", "sess", "u_id"):
        return v + "x"
    return None


def gen_plan(rng, cfg, mode, required=frozenset()):
    """where every leaf of `cfg` goes. mode:
       'env'   everything in the environment, no file
       'over'  the complete file, with other (valid) values at the leaves the environment gives again
       'opt'   leaves outside lists whose name no schema object requires move to the environment
       'half'  a random half moves to the environment (the file alone is often no valid configuration)
       'lists' only leaves inside lists move"""
    plan = []
    for p, v in leaves(cfg):
        e = {"path": list(p), "value": v, "env": False, "file": True, "file_value": v}
        in_list = any(isinstance(x, int) for x in p)
        if mode == "env":
            e["env"], e["file"] = True, False
        elif mode == "over":
            if rng.random() < 0.5:
                e["env"] = True
                o = valid_other(p, v, rng)
                if o is not None and rng.random() < 0.8:
                    e["file_value"] = o
        elif mode == "opt":
            if not in_list and p[-1] not in required and rng.random() < 0.6:
                e["env"], e["file"] = True, False
        elif mode == "lists":
            if in_list and rng.random() < 0.7:
                e["env"], e["file"] = True, False
        else:
            if rng.random() < 0.5:
                e["env"], e["file"] = True, False
        plan.append(e)
    return plan


def gen_nil_plan(rng, cfg, required=frozenset()):
    """the complete file, and the environment defines one to three of its leaves to be nil (empty variable, null, ~):
    the result must be the configuration without those leaves (the defaults fill them). Leaves whose name some schema
    object requires, list elements themselves and only children are left alone (the configuration without them must
    stay valid)."""
    def parent(path):
        node = cfg
        for seg in path[:-1]:
            node = node[seg]
        return node
    cands = [p for p, v in leaves(cfg)
             if isinstance(p[-1], str) and p[-1] not in required and isinstance(parent(p), dict) and len(parent(p)) >= 2]
    chosen = set()
    left = {}
    for p in rng.sample(cands, min(len(cands), rng.randint(1, 3))):
        n = left.get(p[:-1], len(parent(p)))
        if n >= 2:                       # at least one other member of the same parent stays
            left[p[:-1]] = n - 1
            chosen.add(p)
    plan = []
    for p, v in leaves(cfg):
        e = {"path": list(p), "value": v, "env": False, "file": True, "file_value": v}
        if p in chosen:
            e["env"] = True
            e["nil"] = rng.choice(NIL_TEXTS[:7])
        plan.append(e)
    return plan


def plan_config(plan):
    """the complete configuration a plan distributes (a leaf the environment defines to be nil is not part of it)"""
    return build([(tuple(e["path"]), e["value"]) for e in plan if "nil" not in e])


def plan_case(plan, rng=None, rep=2):
    """the load of a plan: file part (list positions nobody gives to the file hold a placeholder of the right kind)
    and environment part"""
    cfg = build([(tuple(e["path"]), e["value"]) for e in plan])
    keep = {tuple(e["path"]) for e in plan if e["file"]}
    ftree = restrict(cfg, keep)
    fvals = {tuple(e["path"]): e["file_value"] for e in plan if e["file"]}

    def subst(t, path=()):
        if isinstance(t, dict):
            return {k: subst(v, path + (k,)) for k, v in t.items()}
        if isinstance(t, list):
            return [subst(v, path + (i,)) for i, v in enumerate(t)]
        return fvals.get(path, t)
    envl = [e for e in plan if e["env"]]
    if rng is not None:
        rng.shuffle(envl)
    env = [[env_name(tuple(e["path"])), e["nil"], None] if "nil" in e else
           [env_name(tuple(e["path"])), e["raw"] if "raw" in e else raw_value(e["value"], rng, tuple(e["path"])), e["value"]]
           for e in envl]
    n = len(env)
    orders = [list(range(n))]
    if n > 1 and rng is not None:
        o = list(range(n))
        rng.shuffle(o)
        orders.append(o)
    case = {"fam": "config", "op": "cfg", "env": env, "orders": orders, "rep": rep}
    if ftree is not None:
        case["file"] = json.dumps(subst(ftree), ensure_ascii=False)
        plain = {tuple(e["path"]): e["raw"] for e in plan if e["file"] and e.get("plain")}
        if plain:
            # the file as an operator writes it: block YAML, the marked string leaves unquoted; `file_quoted` is the twin
            # with every scalar quoted (used to tell "the file part alone is no valid configuration" from "the validation
            # reads the unquoted text differently")
            case["file_quoted"] = case["file"]
            case["file"] = to_yaml(subst(ftree), plain)
    return case


def base_case(cfg):
    return {"fam": "config", "op": "cfg", "env": [], "rep": 1, "file": json.dumps(cfg, ensure_ascii=False)}


# minimal configurations per (category, type), for the question "does the file validation accept what the loader knows"
_EP = {"url": "http://foo.bar/x"}
TYPE_MINIMAL = {
    ("authenticators", "anonymous"): {},
    ("authenticators", "unauthorized"): {},
    ("authenticators", "basic_auth"): {"config": {"user_id": "u", "password": "p"}},
    ("authenticators", "generic"): {"config": {"identity_info_endpoint": _EP, "authentication_data_source": [{"header": "x"}],
                                               "subject": {"id": "sub"}}},
    ("authenticators", "oauth2_introspection"): {"config": {"introspection_endpoint": _EP, "assertions": {"issuers": ["iss"]}}},
    ("authenticators", "jwt"): {"config": {"jwks_endpoint": _EP, "assertions": {"issuers": ["iss"]}}},
    ("authorizers", "allow"): {},
    ("authorizers", "deny"): {},
    ("authorizers", "cel"): {"config": {"expressions": [{"expression": "true"}]}},
    ("authorizers", "remote"): {"config": {"endpoint": _EP, "payload": "p"}},
    ("contextualizers", "generic"): {"config": {"endpoint": _EP}},
    ("finalizers", "noop"): {},
    ("finalizers", "header"): {"config": {"headers": {"x": "y"}}},
    ("finalizers", "cookie"): {"config": {"cookies": {"x": "y"}}},
    ("finalizers", "jwt"): {"config": {"signer": {"key_store": {"path": "/x.pem"}}}},
    ("finalizers", "oauth2_client_credentials"): {"config": {"token_url": "http://t/x", "client_id": "c", "client_secret": "s"}},
    ("error_handlers", "default"): {},
    ("error_handlers", "redirect"): {"config": {"to": "http://login/x"}},
    ("error_handlers", "www_authenticate"): {"config": {"realm": "r"}},
    ("cache", "noop"): {},
    ("cache", "in-memory"): {},
    ("cache", "redis"): {"config": {"address": "r:6379"}},
    ("cache", "redis-cluster"): {"config": {"nodes": ["r:6379"]}},
    ("cache", "redis-sentinel"): {"config": {"nodes": ["r:6379"], "master": "m"}},
}


def type_config(cat, typ):
    """a small configuration using one mechanism (or cache) of the given type, None if no template is known"""
    extra = TYPE_MINIMAL.get((cat, typ))
    if extra is None:
        extra = {}          # a type this generator has no template for: the bare declaration
    if cat == "cache":
        return {"cache": dict({"type": typ}, **extra)}
    mech = {"authenticators": [{"id": "a", "type": "anonymous"}], "finalizers": [{"id": "f", "type": "noop"}]}
    mech[cat] = [dict({"id": "m", "type": typ}, **extra)]
    return {"mechanisms": mech}


# ---------------------------------------------------------------------------------------------------------------
# options inside a mechanism's `config`: probes for the question "which names does the file validation refuse, which
# names does the type factory refuse" (harness op `mech`), per type and place below `config`

def place_str(place):
    """`()` -> "", ("endpoint", "retry") -> "endpoint.retry", ("expressions", 0) -> "expressions[0]" (as the harness)"""
    s = ""
    for seg in place:
        if isinstance(seg, int):
            s += "[%d]" % seg
        else:
            s += ("." if s else "") + seg
    return s


def set_place(conf, place, members):
    """make the place below `conf` a map that holds `members` (what the minimal configuration has there stays)"""
    node = conf
    for i, seg in enumerate(place):
        nxt_is_list = i + 1 < len(place) and isinstance(place[i + 1], int)
        if isinstance(seg, int):
            while len(node) <= seg:
                node.append({})
            if not isinstance(node[seg], list if nxt_is_list else dict):
                node[seg] = [] if nxt_is_list else {}
            node = node[seg]
        else:
            if not isinstance(node.get(seg), list if nxt_is_list else dict):
                node[seg] = [] if nxt_is_list else {}
            node = node[seg]
    for k, v in members.items():
        node.setdefault(k, v)
    return conf


def mech_config(cat, typ, place=(), members=None):
    """the minimal configuration of one mechanism of the type, with `members` added at the place below its `config`"""
    cfg = json.loads(json.dumps(type_config(cat, typ)))          # a copy: the templates are shared
    if members:
        m = cfg["mechanisms"][cat][-1]
        set_place(m.setdefault("config", {}), place, members)
    return cfg


def mech_cases(cfg):
    """(the complete file through NewConfiguration + catalogue creation, the file validation alone, the same
    configuration from variables through NewConfiguration + catalogue creation)"""
    pl = [{"path": list(p), "value": v, "env": True, "file": False, "file_value": v} for p, v in leaves(cfg)]
    fc = dict(base_case(cfg), op="mech")
    return fc, dict(fc, validate=True), dict(plan_case(pl, None, rep=1), op="mech")


# ---------------------------------------------------------------------------------------------------------------
# histories: several loads one after the other in one process

def gen_history(rng):
    """3-4 loads; what one load defines below cache.config (a free-form map with an empty default) and elsewhere must
    not show up in the others"""
    loads = []
    for _ in range(rng.randint(3, 4)):
        c = {}
        r = rng.random()
        if r < 0.55:
            c["cache"] = gen_cache(rng, 0.8)
        if rng.random() < 0.5:
            c["log"] = {"level": rng.choice(["debug", "info", "warning"])}
        if rng.random() < 0.4:
            c["serve"] = {"decision": gen_service(rng, "decision")}
            if not c["serve"]["decision"]:
                del c["serve"]
        if rng.random() < 0.3:
            c["mechanisms"] = gen_mechanisms(rng)
        if rng.random() < 0.3:
            c["providers"] = {"file_system": {"src": rng.choice(["rules.yaml", "/etc/rules"]), "watch": rng.random() < 0.5}}
        if not c:
            c["metrics"] = {"enabled": rng.random() < 0.5}
        mode = rng.choice(["file", "env", "over"])
        if mode == "file":
            case = base_case(c)
        else:
            case = plan_case(gen_plan(rng, c, mode), rng, rep=1)
        case.setdefault("env", [])
        case = maybe_prefix(case, rng, 0.25)
        loads.append({k: case[k] for k in ("file", "env", "prefix") if k in case})
    return {"fam": "config", "op": "history", "loads": loads}


# ---------------------------------------------------------------------------------------------------------------
# values: every value shape for every leaf type, from the file (as the schema demands it) and from the environment
# (plain spelling)

# strings whose plain spelling YAML reads as nil, as a collection, unquoted, or cut at a comment
NILLIKE = ["", "null", "~", "Null", " ", "-", "[]", "{}", "a: b", "#c", "a #b", "\"q\"", "'q'"]
LEAF_VALUES = {
    "string": NUMLIKE_FAITHFUL + NUMLIKE_RETYPED + ["abc", "x y", "-0", "5s", "1:30", "12abc", "off", "TRUE", "0o17", ".5"] + NILLIKE,
    "int": [0, 1, -3, 7, 4456, 100000, -1],
    "bool": [True, False],
    "text": ["5s", "250ms", "3h0m0s", "1m30s"],
}
LEAF_FIELDS = {"string": ["s", "n.s", "p"], "int": ["i", "n.i"], "bool": ["b"], "text": ["d"]}


def spelling(value):
    if isinstance(value, bool):
        return "true" if value else "false"
    return str(value)


def leaf_cases():
    """(type, field, value, file case, env case)"""
    res = []
    for typ, values in LEAF_VALUES.items():
        for field in LEAF_FIELDS[typ]:
            segs = tuple(field.split("."))
            for v in values:
                fcase = {"fam": "config", "op": "leaf", "rep": 2, "env": [], "file": json.dumps(build([(segs, v)]))}
                ecase = {"fam": "config", "op": "leaf", "rep": 2, "env": [[env_name(segs), spelling(v), None]]}
                res.append((typ, field, v, fcase, ecase))
    return res


# ---------------------------------------------------------------------------------------------------------------
# values, second part: one text for one leaf, where the FILE defines the leaf (with another value), where only the
# DEFAULTS define it, and where nothing defines it; leaves of every kind, at the top level and below list entries

# texts of a variable (FILE_SAFE: the same text can stand in a YAML file at the same place)
ENV_TEXTS = ["", "null", "~", "Null", " ", "true", "yes", "0x10", "1e3", "[]", "{}", "\"q\"", "'7'", "a #b", "x", "7",
             "-", "a: b", "|"]
FILE_SAFE = set(ENV_TEXTS) - {"-", "a: b", "|"}

# (path of the leaf, leaf type, value the file holds there, sibling leaf the file holds as well,
#  default of the probe: (key of the harness, value, value of the leaf))
LEAF_SITES = [
    (("s",), "string", "w", (("i",), 3), ("s", "ds", "ds")),
    (("n", "s"), "string", "w", (("n", "i"), 3), ("n.s", "nd", "nd")),
    (("p",), "string", "w", (("s",), "sib"), None),
    (("i",), "int", 5, (("s",), "sib"), ("i", 7, 7)),
    (("n", "i"), "int", 5, (("n", "s"), "sib"), ("n.i", 8, 8)),
    (("b",), "bool", True, (("s",), "sib"), ("b", True, True)),
    (("d",), "text", "7s", (("s",), "sib"), ("d", "9s", "9s")),
    (("l", 1), "string", "w", (("l", 0), "sib"), None),                       # element of a list of scalars
    (("e", 0, "s"), "string", "w", (("e", 0, "i"), 3), None),                 # typed member of a structure in a list
    (("e", 1, "i"), "int", 5, (("e", 1, "s"), "sib"), None),
    (("m", "k"), "any", "w", (("m", "z"), 3), ("m", {"k": "dk", "z": 1}, "dk")),    # member of a free-form map
    (("m", "x", 0, "k"), "any", "w", (("m", "x", 0, "r"), 3), None),          # ... inside a list inside the map
    (("e", 0, "c", "k"), "any", "w", (("e", 0, "c", "q"), 3), None),          # free-form map of a structure in a list
]


def raw_yaml(path, text, filler="w0"):
    """a YAML file that says `text` (verbatim) at `path`; earlier list positions hold a filler"""
    lines = []
    ind = 0
    dash = False
    for k, seg in enumerate(path):
        last = k == len(path) - 1
        if isinstance(seg, int):
            scalar_list = last
            for _ in range(seg):
                lines.append(" " * ind + ("- " + filler if scalar_list else "- {}"))
            if last:
                lines.append(" " * ind + "- " + text)
            else:
                dash = True
        else:
            prefix = " " * ind
            if dash:
                prefix = " " * (ind) + "- "
                dash = False
                ind += 2
            lines.append(prefix + seg + ":" + (" " + text if last else ""))
            ind += 2
    return "\n".join(lines) + "\n"


def site_cases():
    """(site, text, {scenario: harness case}, {scenario: driver case})"""
    res = []
    for path, typ, other, (spath, sval), dflt in LEAF_SITES:
        name = env_name(path)
        ftree = build([(spath, sval), (path, other)])
        for text in ENV_TEXTS:
            env = [[name, text, None]]
            ic = {"N": {"fam": "config", "op": "leaf", "rep": 2, "env": env},
                  "F": {"fam": "config", "op": "leaf", "rep": 2, "env": env, "file": json.dumps(ftree)}}
            if text in FILE_SAFE:
                ic["R"] = {"fam": "config", "op": "leaf", "rep": 1, "env": [], "file": raw_yaml(path, text)}
            if dflt is not None:
                dd = {dflt[0]: dflt[1]}
                ic["D"] = dict(ic["N"], defaults=dd)
                if "R" in ic:
                    ic["RD"] = dict(ic["R"], defaults=dd)
            res.append({"path": list(path), "type": typ, "text": text, "other": other, "sibling": [list(spath), sval],
                        "default": None if dflt is None else dflt[2], "file_tree": ftree, "impl": ic})
    return res


# ---------------------------------------------------------------------------------------------------------------
# dialect: texts whose reading differs between YAML dialects / decoders, written UNQUOTED into the file as values of
# string options (and given by variables), with the real schema validation of the file in the loop

DIALECT_WORDS = ["yes", "no", "on", "off", "y", "n", "Yes", "NO", "On", "OFF", "Y", "N"]       # YAML 1.1 booleans
DIALECT_OTHER = ["~", "null", "0o17", "017", "0x1F", "1_000", "1e3", ".inf", ".NaN", "2001-12-14", "<<", "=", "1:30"]


def quoted_forms(texts):
    return [('"%s"' if k % 2 == 0 else "'%s'") % t for k, t in enumerate(texts)]


DIALECT_POOL = DIALECT_WORDS + DIALECT_OTHER + quoted_forms(DIALECT_WORDS + DIALECT_OTHER)
# texts every decoder of the unchanged tree reads as the string written (asserted against the Lean model on every run:
# theorem c20_dialect_words_are_strings); planted unquoted into the files of the typed stream
DIALECT_STRINGS = ["yes", "no", "on", "off", "y", "n", "Yes", "NO", "On", "OFF", "Y", "N", "<<", "=", "1:30", "12:30"]
# readings only (cheap): the wider neighbourhood of the pool, the fidelity of the Lean reading model
DIALECT_FIDELITY = [
    "YES", "No", "ON", "Off", "Null", "NULL", "true", "True", "TRUE", "false", "False", "FALSE", "tRue", "t", "T", "f", "F",
    "o", "O", "0x1f", "0X1f", "1E3", "-.inf", "+.inf", ".Inf", ".INF", ".iNf", ".nan", ".NAN", "2001-12-14T21:59:43Z",
    "2001-12-14 21:59:43", "2001-12-14t21:59:43.10-05:00", "2001-12-14T1:2:3+01:00", "2001-1-1", "2001-13-14",
    "2001-02-30", "2000-02-29", "1900-02-29", "2001-12-14T21:59:43", "2001-12-14 21:59:43Z", "2001-12-14x", "20011-12-14",
    "190:20:30", "12:30:45", "1:30.5", "-1:30", "0:0", "0b11", "0B11", "0b12", "0b2", "0b-1", "0o-7", "-0b11", "-0o17",
    "0O17", "-0x1f", "+5", "08", "09", "-017", "0o8", "1.0", "1.10", ".5", "5.", "-0", "+0", "00", "0", "-1", "123456",
    "9223372036854775807", "9223372036854775808", "18446744073709551615", "18446744073709551616",
    "-9223372036854775808", "-9223372036854775809", "1__0", "_1", "1_", "0x", "0x_1f", "0_17", "0o_17", "0x1_F", "4_2",
    "1e400", "1e-3", "1e-400", "12e03", "1.5e3", "0.1", "-.5", "+.5", "1e+3", "0e0", "0.0", "-0.0", "1e3_0", "1_0e3",
    "1_0.5", "1,000", "infinity", "NaN", "nan", "1e", "e3", "0e", "1.e3", "1.2.3", "abc", "x y", "--", "+", ".", ":a",
    "'tRue'", "\"0x1f\"", "' '", "\"\"",
]


# references to environment variables in the FILE (documented: `${var}`, `${var=default}`, `${var:=default}`): the loader
# resolves them before YAML reads the file; text -> what the file says after the substitution (the harness sets
# VERIFC20SUB_PORT=9000, VERIFC20SUB_FLAG=true, VERIFC20SUB_HOST=yes)
DIALECT_SUBST = {"${VERIFC20SUB_PORT}": "9000", "${VERIFC20SUB_FLAG}": "true", "${VERIFC20SUB_HOST}": "yes",
                 "${VERIFC20SUB_UNSET:=4460}": "4460", "${VERIFC20SUB_UNSET}": "", "p${VERIFC20SUB_PORT}": "p9000"}


# sixth round (seed s6 C20-a): references to variables of any name, in every position an operator writes them - plain
# (`port: ${PORT}`), between double / single quotes (`password: "${PW}"`, the usual way to keep a secret a string), inside
# a longer text, with a default - and contents YAML would not read as a string when they stood there unquoted. The
# reference is resolved in the TEXT of the file (Lean: Config.substitute), so the file is the one that says the contents
# literally at that place (the TWIN): same reading, same leaf as the literal file and as the property's own variable.
REF_CONTENTS = ["0815", "007", "1e3", "0x1f", "1.10", "true", "false", "null", "~", "2001-12-14", "yes", "abc", "9000", "",
                "a b", "-1", "0o17", "1_000", ".inf", "No", "010", "1.0"]
REF_FORMS = ["%s", '"%s"', "'%s'", "p%s", '"%s s"']
REFS = {"VERIFC20SUB_PORT": "9000", "VERIFC20SUB_FLAG": "true", "VERIFC20SUB_HOST": "yes"}
REFS.update({"VERIFC20SUB_R%d" % k: v for k, v in enumerate(REF_CONTENTS) if v != ""})      # R13 is not set at all


def ref_of(content):
    return "${VERIFC20SUB_R%d}" % REF_CONTENTS.index(content)


def _ref_twins():
    tw = {}
    for v in REF_CONTENTS:
        for form in REF_FORMS:
            tw[form % ref_of(v)] = form % v
    # defaults stand in for an unset / empty variable only; two references in one text
    tw['"${VERIFC20SUB_UNSET:=0815}"'] = '"0815"'
    tw["'${VERIFC20SUB_UNSET=007}'"] = "'007'"
    tw['"${VERIFC20SUB_R13:-true}"'] = '"true"'
    tw['${VERIFC20SUB_UNSET-1e3}'] = '1e3'
    tw['"${VERIFC20SUB_R0:=x}"'] = '"0815"'
    tw['"%s%s"' % (ref_of("0815"), ref_of("007"))] = '"0815007"'
    tw['%s%s' % (ref_of("9000"), ref_of("0815"))] = '90000815'
    tw['"%s:%s"' % (ref_of("true"), ref_of("null"))] = '"true:null"'
    return tw


REF_TWINS = _ref_twins()
DIALECT_SUBST.update(REF_TWINS)
# references planted at the string options of the real Configuration (dialect_cases): quoted references whose contents
# are no strings for YAML, a plain one, one with a default
REF_SITE_TEXTS = ['"%s"' % ref_of("0815"), '"%s"' % ref_of("true"), "'%s'" % ref_of("null"), '"%s"' % ref_of("0x1f"),
                  '"%s"' % ref_of("1.10"), "'%s'" % ref_of("2001-12-14"), ref_of("abc"), '"${VERIFC20SUB_UNSET:=0815}"',
                  '"%s s"' % ref_of("007")]


_PLAIN_KEY = _re.compile(r"^[A-Za-z_][A-Za-z0-9_.-]*$")


def _yaml_key(k):
    if _PLAIN_KEY.match(k) and k.lower() not in _YAML_WORDS:
        return k
    return json.dumps(k, ensure_ascii=False)


def to_yaml(tree, plain=None, path=(), indent=0):
    """block-style YAML of a JSON tree; scalars as JSON writes them (strings double quoted) except the leaves listed in
    `plain` ({path: text}), whose text is written verbatim"""
    plain = plain or {}
    pad = " " * indent
    if isinstance(tree, dict) and tree:
        out = []
        for k, v in tree.items():
            sub = to_yaml(v, plain, path + (k,), indent + 2)
            if isinstance(v, (dict, list)) and v:
                out.append(pad + _yaml_key(k) + ":\n" + sub)
            else:
                out.append(pad + _yaml_key(k) + ": " + sub.strip(" ") )
        return "".join(o if o.endswith("\n") else o + "\n" for o in out)
    if isinstance(tree, list) and tree:
        out = []
        for i, v in enumerate(tree):
            sub = to_yaml(v, plain, path + (i,), indent + 2)
            if isinstance(v, (dict, list)) and v:
                out.append(pad + "-\n" + sub)
            else:
                out.append(pad + "- " + sub.strip(" "))
        return "".join(o if o.endswith("\n") else o + "\n" for o in out)
    if path in plain:
        return pad + plain[path] + "\n"
    if isinstance(tree, dict):
        return pad + "{}\n"
    if isinstance(tree, list):
        return pad + "[]\n"
    return pad + json.dumps(tree, ensure_ascii=False) + "\n"


def dialect_leaf(path, v):
    """a string leaf into which a dialect-sensitive text can be planted: string fields of the Configuration struct and
    string members of the free-form mechanism configs (header / cookie templates, subject, realm, credentials)"""
    if not isinstance(v, str) or not path or isinstance(path[-1], int):
        return False
    if typed_string_leaf(path):
        return True
    if "config" in path:
        return path[-1] in ("subject", "realm", "user_id", "password") or \
            (len(path) >= 2 and path[-2] in ("headers", "cookies"))
    return False


def plant_dialect(rng, cfg, strings=None):
    """replaces the values of 1-3 string leaves of `cfg` by different dialect-sensitive strings; returns their paths"""
    strings = strings or DIALECT_STRINGS
    cands = [p for p, v in leaves(cfg) if dialect_leaf(p, v)]
    if not cands:
        return []
    chosen = rng.sample(cands, min(len(cands), rng.randint(1, 3)))
    texts = rng.sample(strings, len(chosen))
    for p, t in zip(chosen, texts):
        node = cfg
        for seg in p[:-1]:
            node = node[seg]
        node[p[-1]] = t
    return chosen


def gen_plain_plan(rng, cfg, planted, mode, required=frozenset()):
    """'plain': the complete file with the planted leaves unquoted, no variables; 'plainopt': leaves outside lists whose
    name no schema object requires move to the environment (the planted ones with probability 1/2, as plain text), the
    rest stays in the file with the planted leaves unquoted"""
    planted = {tuple(p) for p in planted}
    plan = []
    for p, v in leaves(cfg):
        e = {"path": list(p), "value": v, "env": False, "file": True, "file_value": v}
        in_list = any(isinstance(x, int) for x in p)
        if p in planted:
            e["raw"] = v
            e["plain"] = True
        if mode == "plainopt" and not in_list and p[-1] not in required and rng.random() < (0.5 if p in planted else 0.4):
            e["env"], e["file"] = True, False
        plan.append(e)
    return plan


# (name, leaf type for the loader, path in the configuration, the other leaves of a minimal valid configuration,
#  path of the leaf in the dump of the loaded Configuration)
_STUB_A = [(("mechanisms", "authenticators", 0, "id"), "a0"), (("mechanisms", "authenticators", 0, "type"), "anonymous")]
_STUB_F = [(("mechanisms", "finalizers", 0, "id"), "f0"), (("mechanisms", "finalizers", 0, "type"), "noop")]
DIALECT_SITES = [
    ("serve.proxy.host", "string", ("serve", "proxy", "host"), [], ("serve", "proxy", "host")),
    ("key store password", "string", ("serve", "decision", "tls", "key_store", "password"),
     [(("serve", "decision", "tls", "key_store", "path"), "/etc/heimdall/keys.pem")],
     ("serve", "decision", "tls", "keystore", "password")),
    ("tls key_id", "string", ("serve", "management", "tls", "key_id"),
     [(("serve", "management", "tls", "key_store", "path"), "/etc/heimdall/keys.pem")],
     ("serve", "management", "tls", "keyid")),
    ("mechanism id", "string", ("mechanisms", "authenticators", 0, "id"),
     [(("mechanisms", "authenticators", 0, "type"), "anonymous")] + _STUB_F, ("prototypes", "authenticators", 0, "id")),
    ("profiling.host", "string", ("profiling", "host"), [], ("profiling", "host")),
    ("header template", "any", ("mechanisms", "finalizers", 0, "config", "headers", "x_authenticated"),
     [(("mechanisms", "finalizers", 0, "id"), "mark"), (("mechanisms", "finalizers", 0, "type"), "header")] + _STUB_A,
     ("prototypes", "finalizers", 0, "config", "headers", "x_authenticated")),
    ("cookie template", "any", ("mechanisms", "finalizers", 0, "config", "cookies", "sess"),
     [(("mechanisms", "finalizers", 0, "id"), "ck"), (("mechanisms", "finalizers", 0, "type"), "cookie")] + _STUB_A,
     ("prototypes", "finalizers", 0, "config", "cookies", "sess")),
    ("anonymous subject", "any", ("mechanisms", "authenticators", 0, "config", "subject"), _STUB_A + _STUB_F,
     ("prototypes", "authenticators", 0, "config", "subject")),
    ("kubernetes auth_class", "any", ("providers", "kubernetes", "auth_class"), [], ("providers", "kubernetes", "auth_class")),
    ("www_authenticate realm", "any", ("mechanisms", "error_handlers", 0, "config", "realm"),
     [(("mechanisms", "error_handlers", 0, "id"), "w"), (("mechanisms", "error_handlers", 0, "type"), "www_authenticate")]
     + _STUB_A + _STUB_F, ("prototypes", "errorhandlers", 0, "config", "realm")),
    ("basic_auth password", "any", ("mechanisms", "authenticators", 0, "config", "password"),
     [(("mechanisms", "authenticators", 0, "id"), "b"), (("mechanisms", "authenticators", 0, "type"), "basic_auth"),
      (("mechanisms", "authenticators", 0, "config", "user_id"), "u")] + _STUB_F,
     ("prototypes", "authenticators", 0, "config", "password")),
]


def dialect_cases(texts=None, sites=None):
    """one case per (site, text): the minimal configuration with the text UNQUOTED at the leaf in the FILE (F: real
    NewConfiguration incl. the real schema validation), the same configuration given by VARIABLES only with the text as
    the value of the leaf's variable (E), and the configuration without the leaf from variables (N: the default)"""
    res = []
    for name, typ, path, rest, dump in (sites or DIALECT_SITES):
        others = [[env_name(p), raw_value(v), v] for p, v in rest]
        ncase = {"fam": "config", "op": "cfg", "rep": 1, "env": others, "at": list(dump)}
        for text in (texts or DIALECT_POOL + REF_SITE_TEXTS):
            tree = build(list(rest) + [(path, "?")])
            fcase = {"fam": "config", "op": "cfg", "rep": 1, "env": [], "at": list(dump),
                     "file": to_yaml(tree, {tuple(path): text})}
            # a text that refers to variables: the FILE says the reference (the variables are in the process), the
            # property's own variable carries what the file says once the reference is resolved (the twin)
            etext = text
            if text in REF_TWINS:
                fcase["refs"] = REFS
                etext = REF_TWINS[text]
            ecase = {"fam": "config", "op": "cfg", "rep": 2, "env": others + [[env_name(path), etext, None]], "at": list(dump)}
            res.append({"site": name, "type": typ, "path": list(path), "text": text, "file_case": fcase, "env_case": ecase,
                        "default_case": ncase})
            if etext != text:
                res[-1]["twin"] = etext
    return res
