"""C12: (1) fact extractor for the two error translators of /repo -> lean/HeimdallModel/Gen/ErrMapGen.lean,
(2) case generators for the `errmap` line-protocol family.

The extractor matches API-level shapes only (`case errors.Is(err, heimdall.ErrX) || …:`, `h.onXxxError(…)`,
`func WithXxxErrorCode(code int)` with its guard and the field it sets, `defaults.<field> = errorWriter(…, http.StatusX)`,
`<field>: responseWith(codes.X, http.StatusY)`, the supported media type lists, the options passed by the three
services) and fails closed: any shape it does not recognise raises ExtractError (reported as a broken tie)."""
import json
import os
import re
import subprocess

import vlib


class ExtractError(Exception):
    pass


HTTP_DIR = "internal/handler/middleware/http/errorhandler"
GRPC_DIR = "internal/handler/middleware/grpc/errorhandler"
SERVICES = [("decision", "internal/handler/decision/service.go"),
            ("proxy", "internal/handler/proxy/service.go"),
            ("envoy", "internal/handler/envoyextauth/grpcv3/service.go")]

# the classes are named by the option with which an operator configures their status
OPTION_CLASS = {
    "WithAuthenticationErrorCode": "authn", "WithAuthorizationErrorCode": "authz",
    "WithCommunicationErrorCode": "comm", "WithPreconditionErrorCode": "precond",
    "WithNoRuleErrorCode": "noRule", "WithInternalServerErrorCode": "internal",
}
CLASSES = ["authn", "authz", "comm", "precond", "noRule", "internal"]
SENTINEL_KIND = {
    "ErrArgument": "argument", "ErrAuthentication": "authentication", "ErrAuthorization": "authorization",
    "ErrCommunication": "communication", "ErrCommunicationTimeout": "timeout",
    "ErrConfiguration": "configuration", "ErrInternal": "internal", "ErrNoRuleFound": "noRule",
}
KINDS = ["argument", "authentication", "authorization", "communication", "timeout", "configuration", "internal",
         "noRule"]
CFG_FIELD = {
    "ArgumentError": "argumentError", "AuthenticationError": "authenticationError",
    "AuthorizationError": "authorizationError", "CommunicationError": "communicationError",
    "InternalError": "internalError", "NoRuleError": "noRuleError", "Accepted": "accepted",
}
MEDIA = {"text/html": "html", "application/json": "json", "text/plain": "plain", "application/xml": "xml"}


def _read(repo, rel):
    path = os.path.join(repo, rel)
    try:
        with open(path) as fh:
            return fh.read()
    except OSError as e:
        raise ExtractError(f"cannot read {rel}: {e}")


def _strip_go_comments(src):
    src = re.sub(r"/\*.*?\*/", "", src, flags=re.S)
    return "\n".join(re.sub(r"//.*$", "", l) if '"' not in l else l for l in src.splitlines())


_const_cache = {}


def _go_consts():
    """net/http status names and gRPC code names, read from the toolchain / module the build uses"""
    if _const_cache:
        return _const_cache
    env = vlib.go_env()
    goroot = subprocess.run(["go", "env", "GOROOT"], env=env, capture_output=True, text=True, cwd=vlib.REPO).stdout.strip()
    try:
        with open(os.path.join(goroot, "src/net/http/status.go")) as fh:
            st = dict((m.group(1), int(m.group(2))) for m in re.finditer(r"^\s*(Status\w+)\s*=\s*(\d+)", fh.read(), re.M))
    except OSError as e:
        raise ExtractError(f"net/http status table: {e}")
    p = subprocess.run(["go", "list", "-m", "-f", "{{.Dir}}", "google.golang.org/grpc"], env=env, capture_output=True,
                       text=True, cwd=vlib.REPO)
    d = p.stdout.strip()
    try:
        with open(os.path.join(d, "codes/codes.go")) as fh:
            gc = dict((m.group(1), int(m.group(2))) for m in re.finditer(r"^\s*(\w+) Code = (\d+)", fh.read(), re.M))
    except OSError as e:
        raise ExtractError(f"grpc codes table: {e} ({p.stderr.strip()[:200]})")
    if len(st) < 40 or len(gc) < 17:
        raise ExtractError("status / code tables incomplete")
    _const_cache.update({"http": st, "grpc": gc})
    return _const_cache


def _status(expr):
    expr = expr.strip()
    if re.fullmatch(r"\d+", expr):
        return int(expr)
    m = re.fullmatch(r"http\.(Status\w+)", expr)
    if not m or m.group(1) not in _go_consts()["http"]:
        raise ExtractError(f"unknown status expression {expr!r}")
    return _go_consts()["http"][m.group(1)]


def _grpc_code(expr):
    m = re.fullmatch(r"codes\.(\w+)", expr.strip())
    if not m or m.group(1) not in _go_consts()["grpc"]:
        raise ExtractError(f"unknown gRPC code expression {expr!r}")
    return _go_consts()["grpc"][m.group(1)]


def _func_body(src, header_re):
    """body of the first function whose header matches; brace counting"""
    m = re.search(header_re, src)
    if not m:
        raise ExtractError(f"function {header_re!r} not found")
    i = src.index("{", m.end() - 1) if src[m.end() - 1] != "{" else m.end() - 1
    depth = 0
    for j in range(i, len(src)):
        if src[j] == "{":
            depth += 1
        elif src[j] == "}":
            depth -= 1
            if depth == 0:
                return src[i + 1:j]
    raise ExtractError("unbalanced braces")


def _switch(body, call_re):
    """ordered cases of the `switch {` in body: [(tests, field or 'redirect')], default field"""
    m = re.search(r"\bswitch\s*\{", body)
    if not m:
        raise ExtractError("no switch")
    sw = _func_body(body[m.start():], r"switch\s*\{")
    parts = re.split(r"^\s*(case\b.*?:|default:)\s*$", sw, flags=re.M | re.S)
    # split on lines ending a case header; a header may span one line only in the shapes we accept
    heads = [(i, p) for i, p in enumerate(parts) if re.match(r"\s*(case\b|default:)", p)]
    if not heads:
        raise ExtractError("switch without cases")
    if parts[0].strip():
        raise ExtractError("unexpected text before the first case")
    cases, dflt = [], None
    for idx, head in heads:
        block = parts[idx + 1] if idx + 1 < len(parts) else ""
        if head.strip() == "default:":
            calls = re.findall(call_re, block)
            if len(calls) != 1 or dflt is not None:
                raise ExtractError("default branch not understood")
            dflt = calls[0]
            continue
        cond = head.strip()[len("case"):].rstrip(":").strip()
        tests = []
        for t in cond.split("||"):
            t = t.strip()
            m1 = re.fullmatch(r"errors\.Is\(err,\s*heimdall\.(Err\w+)\)", t)
            m2 = re.fullmatch(r"errors\.Is\(err,\s*&heimdall\.RedirectError\{\}\)", t)
            if m1 and m1.group(1) in SENTINEL_KIND:
                tests.append(("kind", SENTINEL_KIND[m1.group(1)]))
            elif m2:
                tests.append(("redirect",))
            else:
                raise ExtractError(f"case condition not understood: {t!r}")
        calls = re.findall(call_re, block)
        if any(t == ("redirect",) for t in tests):
            if calls or "redirectError.Code" not in block or "redirectError.RedirectTo" not in block \
                    or not re.search(r"errors\.As\(err,\s*&redirectError\)", block):
                raise ExtractError("redirect branch not understood")
            cases.append((tests, "redirect"))
        else:
            if len(calls) != 1:
                raise ExtractError(f"case {cond!r} calls {calls}")
            cases.append((tests, calls[0]))
    if dflt is None:
        raise ExtractError("switch without default")
    return cases, dflt


def _options(src, field_re):
    """{option: (guard, field, rhs)} for the WithXxxErrorCode options"""
    res = {}
    for m in re.finditer(r"func (With\w+ErrorCode)\(code int\) Option \{", src):
        body = _func_body(src[m.start():], r"func With\w+ErrorCode\(code int\) Option \{")
        g = re.search(r"if code (!=|>) 0 \{\s*o\.(" + field_re + r") = (.+?)\s*\}", body, re.S)
        if not g or len(re.findall(r"\bo\.\w+\s*=", body)) != 1:
            raise ExtractError(f"option {m.group(1)} not understood")
        res[m.group(1)] = ("neZero" if g.group(1) == "!=" else "gtZero", g.group(2), g.group(3).strip())
    if set(res) != set(OPTION_CLASS):
        raise ExtractError(f"options found: {sorted(res)}")
    fields = [v[1] for v in res.values()]
    if len(set(fields)) != len(fields):
        raise ExtractError("two options set the same field")
    return res


def _media_list(src, anchor_re, item_re):
    m = re.search(anchor_re, src, re.S)
    if not m:
        raise ExtractError("media type list not found")
    items = re.findall(item_re, m.group(1))
    out = []
    for it in items:
        mt = it if isinstance(it, str) else "/".join(it)
        if mt not in MEDIA:
            raise ExtractError(f"unknown media type {mt}")
        out.append(MEDIA[mt])
    if sorted(out) != sorted(MEDIA.values()):
        raise ExtractError(f"supported media types: {out}")
    return out


def extract_http(repo):
    eh = _strip_go_comments(_read(repo, HTTP_DIR + "/error_handler.go"))
    body = _func_body(eh, r"func \(h \*errorHandler\) HandleError\(")
    cases, dflt = _switch(body, r"\bh\.(on\w+Error)\(rw, req, err\)")
    opts = _options(_strip_go_comments(_read(repo, HTTP_DIR + "/options.go")), r"on\w+Error")
    for o, (_, _, rhs) in opts.items():
        if rhs != "errorWriter(o, code)":
            raise ExtractError(f"{o}: unexpected writer {rhs!r}")
    dsrc = _strip_go_comments(_read(repo, HTTP_DIR + "/defaults.go"))
    defaults = dict((m.group(1), _status(m.group(2)))
                    for m in re.finditer(r"defaults\.(on\w+Error) = errorWriter\(defaults, ([\w.]+)\)", dsrc))
    fmt = _strip_go_comments(_read(repo, HTTP_DIR + "/formatter.go"))
    media = _media_list(fmt, r"supportedMediaTypes = \[\]contenttype\.MediaType\{(.*?)\n\}",
                        r'contenttype\.NewMediaType\("([^"]+)"\)')
    wbody = _func_body(fmt, r"func errorWriter\(")
    shapes = [
        re.search(r"contenttype\.GetAcceptableMediaType\(req, supportedMediaTypes\)", fmt),
        re.search(r"if options\.verboseErrors \{\s*mt, body, err = format\(req, err\)", wbody),
        re.search(r"if err != nil \{\s*return contenttype\.MediaType\{\}, nil, err\s*\}", fmt),
        re.search(r'rw\.Header\(\)\.Set\("X-Content-Type-Options", "nosniff"\)', wbody),
        re.search(r'rw\.Header\(\)\.Set\("Content-Type", mt\.String\(\)\)', wbody),
        re.search(r"rw\.WriteHeader\(code\)", wbody),
        re.search(r'rw\.Header\(\)\.Set\("Location", redirectError\.RedirectTo\)\s*rw\.WriteHeader\(redirectError\.Code\)',
                  body),
    ]
    challenge = bool(re.search(
        r"for name, values := range heimdall\.ResponseHeadersFrom\(err\) \{\s*rw\.Header\(\)\[name\] = values\s*\}"
        r"\s*if options\.verboseErrors", wbody))
    if not all(shapes):
        raise ExtractError(f"HTTP writer shapes not recognised: {[bool(s) for s in shapes]}")
    return _assemble("http", cases, dflt, opts, defaults, media, absent_first=True, fallback=None, nosniff=True,
                     grpc=None, challenge=challenge)


def extract_grpc(repo):
    ic = _strip_go_comments(_read(repo, GRPC_DIR + "/interceptor.go"))
    body = _func_body(ic, r"func \(h \*interceptor\) intercept\(")
    cases, dflt = _switch(body, r"\bh\.(\w+Error)\(err, h\.verboseErrors, acceptType\(req\)\)")
    osrc = _strip_go_comments(_read(repo, GRPC_DIR + "/options.go"))
    opts = _options(osrc, r"\w+Error")
    dsrc = _strip_go_comments(_read(repo, GRPC_DIR + "/defaults.go"))
    defaults, gcodes = {}, {}
    for m in re.finditer(r"(\w+Error):\s*responseWith\(([\w.]+), ([\w.]+)\)", dsrc):
        defaults[m.group(1)] = _status(m.group(3))
        gcodes[m.group(1)] = _grpc_code(m.group(2))
    for o, (_, field, rhs) in opts.items():
        m = re.fullmatch(r"responseWith\(([\w.]+), code\)", rhs)
        if not m or field not in gcodes or _grpc_code(m.group(1)) != gcodes[field]:
            raise ExtractError(f"{o}: gRPC code differs from the default of {field} or shape unknown ({rhs})")
    er = _strip_go_comments(_read(repo, GRPC_DIR + "/error_response.go"))
    ebody = _func_body(er, r"func errorResponse\(")
    media = _media_list(ebody, r"GetAcceptableMediaTypeFromHeader\(\s*mimeType, \[\]contenttype\.MediaType\{(.*?)\}\)",
                        r'\{Type: "(\w+)", Subtype: "(\w+)"\}')
    fb = re.search(r'if verbose \{\s*contentType := "([\w/]+)"', ebody)
    rm = re.search(r"Status:\s*&status\.Status\{Code: int32\(([\w.]+)\)\}", body)
    shapes = [
        fb and fb.group(1) in MEDIA,
        re.search(r"if err == nil \{\s*contentType = mt\.MIME\(\)\s*\}", ebody),
        re.search(r"Status: &envoy_type\.HttpStatus\{Code: envoy_type\.StatusCode\(httpCodeOverride\)\}", ebody),
        re.search(r"Status:\s*&status\.Status\{Code: int32\(grpcCode\)\}", ebody),
        re.search(r"CheckResponse_DeniedResponse\{DeniedResponse: deniedResponse\}", ebody),
        re.search(r'Key: "Content-Type", Value: contentType', ebody),
        rm,
        re.search(r"Status:\s*&envoy_type\.HttpStatus\{Code: envoy_type\.StatusCode\(redirectError\.Code\)\}", body),
        re.search(r'Key:\s*"Location",\s*Value:\s*redirectError\.RedirectTo', body),
        re.search(r"res, err := handler\(ctx, req\)\s*if err == nil \{\s*return res, nil\s*\}", body),
        re.search(r'GetHeaders\(\)\["accept"\]', ic),
        len(re.findall(r"CheckResponse_OkResponse|OkHttpResponse", ic + er)) == 0 or None,
    ]
    challenge = bool(re.search(
        r"for name, values := range heimdall\.ResponseHeadersFrom\(decErr\) \{\s*deniedResponse\.Headers = "
        r"append\(deniedResponse\.Headers, &envoy_core\.HeaderValueOption\{\s*Header: &envoy_core\.HeaderValue\{"
        r"Key: name, Value: strings\.Join\(values, \",\"\)\},\s*\}\)\s*\}\s*if verbose", ebody))
    if not all(shapes):
        raise ExtractError(f"gRPC writer shapes not recognised: {[bool(s) for s in shapes]}")
    return _assemble("grpc", cases, dflt, opts, defaults, media, absent_first=False, fallback=MEDIA[fb.group(1)],
                     nosniff=False, grpc=(gcodes, _grpc_code(rm.group(1))), challenge=challenge)


def _assemble(name, cases, dflt, opts, defaults, media, absent_first, fallback, nosniff, grpc, challenge):
    field_class = dict((f, OPTION_CLASS[o]) for o, (_, f, _) in opts.items())
    if set(defaults) != set(field_class):
        raise ExtractError(f"{name}: defaults for {sorted(defaults)} but options set {sorted(field_class)}")

    def act(f):
        if f == "redirect":
            return "redirect"
        if f not in field_class:
            raise ExtractError(f"{name}: handler {f} has no option")
        return field_class[f]
    t = {
        "cases": [{"tests": [list(x) for x in tests], "act": act(f)} for tests, f in cases],
        "dflt": act(dflt),
        "defaults": dict((field_class[f], c) for f, c in defaults.items()),
        "guards": dict((OPTION_CLASS[o], g) for o, (g, _, _) in opts.items()),
        "media": media, "absentIsFirst": absent_first, "fallback": fallback, "checksCode": name == "http",
        "nosniff": nosniff,
        "grpcCodes": None if grpc is None else [dict((field_class[f], c) for f, c in grpc[0].items()), grpc[1]],
        "sendsChallenge": challenge,
    }
    return t


def extract_wiring(repo):
    res = {}
    for svc, rel in SERVICES:
        src = _strip_go_comments(_read(repo, rel))
        m = re.search(r"errorhandler\.New\((.*?)\n\t*\)", src, re.S)
        if not m:
            raise ExtractError(f"{rel}: errorhandler.New(...) not found")
        args = m.group(1)
        var = re.search(r"errorhandler\.WithVerboseErrors\((\w+)\.Respond\.Verbose\)", args)
        if not var:
            raise ExtractError(f"{rel}: verbose option not wired to Respond.Verbose")
        v = var.group(1)
        src_cfg = re.search(r"\b" + v + r"\s*:=\s*conf\.Serve\.(\w+)\b", src)
        want = "Proxy" if svc == "proxy" else "Decision"
        if not src_cfg or src_cfg.group(1) != want:
            raise ExtractError(f"{rel}: service configuration is not conf.Serve.{want}")
        w = {}
        for o, f in re.findall(r"errorhandler\.(With\w+ErrorCode)\(" + v + r"\.Respond\.With\.(\w+)\.Code\)", args):
            if o not in OPTION_CLASS or f not in CFG_FIELD or OPTION_CLASS[o] in w:
                raise ExtractError(f"{rel}: option {o}({f}) not understood")
            w[OPTION_CLASS[o]] = CFG_FIELD[f]
        if set(w) != set(CLASSES) or len(re.findall(r"errorhandler\.With\w+\(", args)) != 7:
            raise ExtractError(f"{rel}: options passed: {sorted(w)}")
        res[svc] = w
    return res


CONTEXTS = [("decision", "internal/handler/decision/request_context.go",
             r"if err := r\.PipelineError\(\); err != nil \{\s*return (.+?)\s*\}"),
            ("proxy", "internal/handler/proxy/request_context.go",
             r"if err := r\.PipelineError\(\); err != nil \{\s*return (.+?)\s*\}"),
            ("envoy", "internal/handler/envoyextauth/grpcv3/request_context.go",
             r"if r\.err != nil \{\s*return nil, (.+?)\s*\}")]


def extract_contexts(repo):
    """does `Finalize` hand the pipeline error on together with the WWW-Authenticate challenge"""
    res = {}
    for svc, rel, pat in CONTEXTS:
        src = _strip_go_comments(_read(repo, rel))
        body = _func_body(src, r"func \(r \*\w+\) Finalize\(")
        m = re.search(pat, body)
        if not m or not body.lstrip().startswith(("logger := zerolog", "if ")) or body.find(m.group(0)) > 120:
            raise ExtractError(f"{rel}: Finalize does not start with the pipeline error check")
        ret = m.group(1)
        if ret in ("err", "r.err"):
            res[svc] = False
        elif re.fullmatch(r"heimdall\.WithAuthenticationChallenge\((err|r\.err), (r\.UpstreamHeaders\(\)|r\.upstreamHeaders)\)",
                          ret):
            res[svc] = True
        else:
            raise ExtractError(f"{rel}: error path of Finalize returns {ret!r}")
    if any(res.values()):
        src = _strip_go_comments(_read(repo, "internal/heimdall/errors.go"))
        body = _func_body(src, r"func WithAuthenticationChallenge\(err error, headers http\.Header\) error \{")
        ok = [re.search(r'wwwAuthenticateHeader = "WWW-Authenticate"', src),
              re.search(r"values := headers\.Values\(wwwAuthenticateHeader\)", body),
              re.search(r"headers: http\.Header\{wwwAuthenticateHeader: values\}", body),
              re.search(r"func \(e \*responseHeadersError\) Unwrap\(\) error \{ return e\.error \}", src)]
        if not all(ok):
            raise ExtractError("WithAuthenticationChallenge not understood")
    return res


def extract(repo):
    return {"http": extract_http(repo), "grpc": extract_grpc(repo), "wiring": extract_wiring(repo),
            "contexts": extract_contexts(repo)}


# ---------------------------------------------------------------------------------------------------------------
# rendering

def _lean_classmap(d, f):
    return "{ " + ", ".join(f"{c} := {f(d[c])}" for c in CLASSES) + " }"


def _lean_action(a):
    return ".redirect" if a == "redirect" else f".respond .{a}"


def _lean_translator(t):
    cases = ",\n      ".join(
        "⟨[" + ", ".join(".isRedirect" if x[0] == "redirect" else f".isKind .{x[1]}" for x in c["tests"]) + "], "
        + _lean_action(c["act"]) + "⟩" for c in t["cases"])
    g = "none" if t["grpcCodes"] is None else \
        "some (" + _lean_classmap(t["grpcCodes"][0], str) + f", {t['grpcCodes'][1]})"
    return ("{ cases := [\n      " + cases + " ],\n"
            f"    dflt := {_lean_action(t['dflt'])},\n"
            f"    defaults := {_lean_classmap(t['defaults'], str)},\n"
            f"    guards := {_lean_classmap(t['guards'], lambda x: '.' + x)},\n"
            f"    media := [{', '.join('.' + m for m in t['media'])}],\n"
            f"    absentIsFirst := {str(t['absentIsFirst']).lower()},\n"
            f"    fallback := {'none' if t['fallback'] is None else 'some .' + t['fallback']},\n"
            f"    checksCode := {str(t['checksCode']).lower()},\n"
            f"    nosniff := {str(t['nosniff']).lower()},\n"
            f"    grpcCodes := {g},\n"
            f"    sendsChallenge := {str(t['sendsChallenge']).lower()} }}")


def render_lean(facts):
    w = facts["wiring"]
    return ("import HeimdallModel.Model.ErrMap\n"
            "/-! GENERATED by tools/gen_errmap.py from the working tree of the repository on every check run —\n"
            "do not edit. The two error translators and the services' option wiring as the source states them. -/\n"
            "namespace Heimdall.ErrMap.Gen\nopen Heimdall.ErrMap\n\n"
            "/-- `internal/handler/middleware/http/errorhandler` -/\n"
            f"def http : Translator :=\n  {_lean_translator(facts['http'])}\n\n"
            "/-- `internal/handler/middleware/grpc/errorhandler` -/\n"
            f"def grpc : Translator :=\n  {_lean_translator(facts['grpc'])}\n\n"
            "/-- `errorhandler.New(...)` in the decision, proxy and Envoy gRPC `service.go`: the configuration field\n"
            "behind each class's option -/\n"
            "def wiring : List (ClassMap CfgField) :=\n  [ "
            + ",\n    ".join(_lean_classmap(w[s], lambda x: "." + x) for s, _ in SERVICES) + " ]\n\n"
            "/-- `Finalize` of the decision, proxy and Envoy request contexts: is the pipeline error handed on\n"
            "together with the `WWW-Authenticate` values collected by the error handlers -/\n"
            "def contextsAttachChallenge : List Bool :=\n  ["
            + ", ".join(str(facts["contexts"][s]).lower() for s, _ in SERVICES) + "]\n\n"
            "end Heimdall.ErrMap.Gen\n")


GEN_PATH = os.path.join(vlib.LEAN, "HeimdallModel", "Gen", "ErrMapGen.lean")


def write_gen(repo=None):
    """delete the old generated file, extract, write. Returns the facts; raises ExtractError."""
    repo = repo or vlib.REPO
    os.makedirs(os.path.dirname(GEN_PATH), exist_ok=True)
    facts = extract(repo)
    text = render_lean(facts)
    old = None
    if os.path.exists(GEN_PATH):
        with open(GEN_PATH) as fh:
            old = fh.read()
    if old != text:
        with open(GEN_PATH, "w") as fh:
            fh.write(text)
    return facts


# ---------------------------------------------------------------------------------------------------------------
# generators

REDIRECT_CODES = [301, 302, 303, 307, 308, 200, 204, 0, 99, 100, 999, 1000, -1, 404]
OVERRIDE_CODES = [0, 0, 0, 0, 400, 401, 403, 404, 418, 429, 500, 502, 503, 100, 199, 200, 201, 299, 300, 302, 599, 999,
                  1000, 99, 1, -1, -401, 70000]
TARGETS = ["http://login.local/sign-in", "https://idp.example.com/auth?x=1&y=2", "/relative", ""]


def gen_err(rng, depth, weights=None):
    """error terms: every kind, redirects, foreign errors, fmt wraps, joins, chains, nested"""
    r = rng.random()
    if depth <= 0 or r < 0.38:
        q = rng.random()
        if q < 0.70:
            return {"t": "kind", "k": rng.choice(KINDS)}
        if q < 0.85:
            return {"t": "redirect", "code": rng.choice(REDIRECT_CODES), "to": rng.choice(TARGETS)}
        return {"t": "foreign", "v": rng.randrange(5)}
    if r < 0.52:
        return {"t": "wrap", "e": gen_err(rng, depth - 1), "v": rng.randrange(2)}
    n = rng.choice([1, 2, 2, 3, 4])
    es = [gen_err(rng, depth - 1) for _ in range(n)]
    if r < 0.68:
        return {"t": "join", "es": es, "v": rng.randrange(2)}
    return {"t": "chain", "es": es, "v": rng.randrange(4)}


MEDIA_TOKENS = [("text", "html"), ("application", "json"), ("text", "plain"), ("application", "xml"), ("*", "*"),
                ("text", "*"), ("application", "*"), ("image", "png"), ("foo", "bar"), ("TEXT", "HTML"),
                ("application", "xhtml+xml")]
QS = [None, None, 1000, 900, 800, 500, 300, 1, 0, 0]
INVALID_ACCEPT = ["*/html", "text", "text/", "/html", "text/html;q=2", "text/html;q=0.1234", "text/html;q=x",
                  "text/html,,", "text/html;", "text/html; q", "a b/c", "text/html text/plain", ";q=1", ","]


def _q_str(q):
    if q == 1000:
        return "1"
    s = "%03d" % q
    return "0." + s.rstrip("0") if s.rstrip("0") else "0"


def gen_accept(rng):
    """(header string or None, structured form for the model)"""
    r = rng.random()
    if r < 0.12:
        return None, {"k": "absent"}
    if r < 0.22:
        return rng.choice(INVALID_ACCEPT), {"k": "invalid"}
    if r < 0.25:
        return "", {"k": "ranges", "rs": []}
    n = rng.choice([1, 1, 2, 2, 3, 4, 5])
    parts, rs = [], []
    for _ in range(n):
        t, s = rng.choice(MEDIA_TOKENS)
        q = rng.choice(QS)
        params = rng.choice([0, 0, 0, 0, 0, 1])
        txt = f"{t}/{s}"
        if params:
            txt += rng.choice([";level=1", "; charset=utf-8", ';v="a b"'])
        if q is not None:
            txt += rng.choice([";q=", "; q=", " ;q="]) + _q_str(q)
            if rng.random() < 0.15:
                txt += ";ext=1"
        parts.append(txt)
        rs.append({"t": t.lower(), "s": s.lower(), "q": 1000 if q is None else q, "p": params})
    return rng.choice([",", ", ", " , "]).join(parts), {"k": "ranges", "rs": rs}


def gen_cfg(rng):
    ov = {}
    mode = rng.random()
    for c in CLASSES:
        if mode < 0.3:
            ov[c] = 0
        elif mode < 0.75:
            ov[c] = rng.choice([0, 0, 400, 401, 403, 404, 418, 429, 500, 502, 503, 302, 599, 100])
        else:
            ov[c] = rng.choice(OVERRIDE_CODES)
    return {"verbose": rng.random() < 0.6, "ov": ov}


def handler_case(cfg, accept, acc, err):
    return {"fam": "errmap", "op": "handler", "cfg": cfg, "accept": accept, "acc": acc, "err": err}


def gen_handler_case(rng):
    accept, acc = gen_accept(rng)
    return handler_case(gen_cfg(rng), accept, acc, gen_err(rng, rng.choice([0, 1, 2, 2, 3, 3, 4, 4, 5])))


LEAVES = [{"t": "kind", "k": k} for k in KINDS] + [{"t": "redirect", "code": 303, "to": "http://login.local/x"},
                                                  {"t": "foreign", "v": 0}]
PLAIN_CFG = {"verbose": False, "ov": dict((c, 0) for c in CLASSES)}


def pair_cases():
    """every ordered pair of leaves in every binary container: exposes any reordering of either switch"""
    out = []
    for a in LEAVES:
        out.append(handler_case(PLAIN_CFG, None, {"k": "absent"}, a))
        for b in LEAVES:
            for cont in ("chain", "join"):
                out.append(handler_case(PLAIN_CFG, None, {"k": "absent"}, {"t": cont, "es": [a, b], "v": 0}))
            out.append(handler_case(PLAIN_CFG, None, {"k": "absent"},
                                    {"t": "chain", "es": [{"t": "wrap", "e": a, "v": 0},
                                                          {"t": "chain", "es": [b], "v": 1}], "v": 2}))
    return out


def override_cases():
    """each class with each interesting override value, both verbose settings"""
    out = []
    cls_kind = {"authn": "authentication", "authz": "authorization", "comm": "communication", "precond": "argument",
                "noRule": "noRule", "internal": "internal"}
    for c in CLASSES:
        for code in sorted(set(OVERRIDE_CODES)):
            ov = dict((x, 0) for x in CLASSES)
            ov[c] = code
            for k in ([cls_kind[c]] + (["timeout"] if c == "comm" else []) + (["configuration"] if c == "internal" else [])):
                out.append(handler_case({"verbose": False, "ov": ov}, None, {"k": "absent"},
                                        {"t": "chain", "es": [{"t": "kind", "k": k}], "v": 1}))
    return out


def small_scope_errs(depth):
    """all error terms up to the given depth over a reduced leaf alphabet with containers of <= 2 children"""
    leaves = [{"t": "kind", "k": "authentication"}, {"t": "kind", "k": "argument"}, {"t": "kind", "k": "timeout"},
              {"t": "redirect", "code": 307, "to": "/r"}, {"t": "foreign", "v": 1}]
    level = list(leaves)
    for _ in range(depth):
        nxt = list(leaves)
        nxt += [{"t": "wrap", "e": e, "v": 0} for e in level]
        for cont in ("chain", "join"):
            nxt += [{"t": cont, "es": [a], "v": 0} for a in level]
            nxt += [{"t": cont, "es": [a, b], "v": 0} for a in level for b in leaves]
            nxt += [{"t": cont, "es": [b, a], "v": 0} for a in level for b in leaves]
        seen, uniq = set(), []
        for e in nxt:
            h = json.dumps(e, sort_keys=True)
            if h not in seen:
                seen.add(h)
                uniq.append(e)
        level = uniq
    return level


SVC_PATHS = {
    # path -> scenario: what the property says about the failure provoked there
    "/ok": None,
    "/authn": {"cls": "authn", "err": {"t": "chain", "es": [{"t": "kind", "k": "authentication"}], "v": 0}},
    "/authz": {"cls": "authz", "err": {"t": "chain", "es": [{"t": "kind", "k": "authorization"}], "v": 0}},
    "/comm": {"cls": "comm", "err": {"t": "chain", "es": [{"t": "kind", "k": "communication"}, {"t": "foreign", "v": 0}],
                                     "v": 0}},
    "/slash/a%2Fb": {"cls": "precond", "err": {"t": "chain", "es": [{"t": "kind", "k": "argument"}], "v": 0},
                     "only": ["decision", "proxy"]},
    "/internal": {"cls": "internal", "err": {"t": "chain", "es": [{"t": "kind", "k": "internal"}, {"t": "foreign", "v": 0}],
                                             "v": 0}},
    "/leak": {"cls": "internal", "err": {"t": "chain", "es": [{"t": "kind", "k": "internal"}, {"t": "foreign", "v": 0}],
                                         "v": 0}},
    "/nothing": {"cls": "noRule", "err": {"t": "chain", "es": [{"t": "kind", "k": "noRule"}], "v": 0}},
    "/redirect": {"cls": "redirect", "handler": "redirect", "to": "http://login.local/sign-in?origin=%2Fredirect"},
    "/www": {"cls": "authn", "handler": "www"},
    "/basic": {"cls": "authn", "handler": "www"},
    "/leakwww": {"cls": "authn", "handler": "www"},
    "/unreachable": {"cls": "comm", "err": {"t": "chain", "es": [{"t": "kind", "k": "communication"},
                                                                  {"t": "foreign", "v": 0}], "v": 0},
                     "only": ["proxy"], "finalize": True},
}
REALMS = ["", "My fancy app", "internal-realm", "Zone 51"]
SVC_CODES = [0, 0, 400, 401, 403, 404, 407, 418, 429, 451, 500, 502, 503, 599, 302]
SVC_ACCEPTS = [(None, {"k": "absent"}), ("*/*", {"k": "ranges", "rs": [{"t": "*", "s": "*", "q": 1000, "p": 0}]}),
               ("application/json", {"k": "ranges", "rs": [{"t": "application", "s": "json", "q": 1000, "p": 0}]}),
               ("text/plain;q=0.5, application/xml", {"k": "ranges", "rs": [
                   {"t": "text", "s": "plain", "q": 500, "p": 0}, {"t": "application", "s": "xml", "q": 1000, "p": 0}]}),
               ("image/png", {"k": "ranges", "rs": [{"t": "image", "s": "png", "q": 1000, "p": 0}]}),
               ("text/html;q=0, */*;q=0.1", {"k": "ranges", "rs": [
                   {"t": "text", "s": "html", "q": 0, "p": 0}, {"t": "*", "s": "*", "q": 100, "p": 0}]})]


MODES = [None, "ok", "deny", "bad", "zzzzz"]
CHAIN = lambda *ks: {"t": "chain", "es": [{"t": "kind", "k": k} for k in ks], "v": 0}  # noqa: E731


def cel_map(mode):
    """{"ok": true, "deny": false}[Request.Header("X-Mode")]"""
    return {"ok": "holds", "deny": "fails"}.get(mode, "error")


def cel_idx(mode):
    """[true, false][Request.Header("X-Mode").size() - 2]"""
    return {2: "holds", 3: "fails"}.get(len(mode or ""), "error")


def cel_div(mode):
    """10 / (Request.Header("X-Mode").size() - 2) > 3   (integer division truncating towards zero)"""
    n = len(mode or "") - 2
    if n == 0:
        return "error"
    q = abs(10) // abs(n) * (1 if n > 0 else -1)
    return "holds" if q > 3 else "fails"


REDIRECT_TO = "http://login.local/sign-in?origin=%2F"
SVC_REDIRECT_CODES = [300, 301, 302, 303, 307, 308]
SVC_ODD_REDIRECT_CODES = [305, 309, 399, 400, 404, 410, 451, 503, 599]
CEL_PATHS = ["/cel/authz", "/cel/attr", "/cel/div", "/cel/stepif", "/cel/ehif", "/cel/ehlast"]


def svc_scenario(path, mode):
    """what the property says about a request to `path` with the X-Mode header `mode`: the class of the answer
    (None: no failure) and, for the Lean side, how the pipeline ends. None if the path is a plain SVC_PATHS one."""
    if path.startswith("/redirect/"):
        code = int(path.rsplit("/", 1)[1])
        return {"cls": "redirect", "code": code,
                "ctx": {"exec": "redirect", "code": code, "err": None, "to": REDIRECT_TO + "redirect%2F" + str(code)}}
    by = {"holds": None, "fails": "authz", "error": "internal"}
    if path == "/cel/authz":
        c = cel_map(mode)
        return {"cls": by[c], "ctx": {"pipe": {"cause": {"celAuthz": c}, "hs": []}}}
    if path == "/cel/attr":
        return {"cls": "internal", "ctx": {"pipe": {"cause": {"celAuthz": "error"}, "hs": []}}}
    if path == "/cel/div":
        c = cel_div(mode)
        return {"cls": by[c], "ctx": {"pipe": {"cause": {"celAuthz": c}, "hs": []}}}
    if path == "/cel/stepif":
        c = cel_map(mode)
        return {"cls": {"holds": "authz", "fails": None, "error": "internal"}[c],
                "ctx": {"pipe": {"cause": {"stepIf": c, "step": {"term": CHAIN("authorization")}}, "hs": []}}}
    if path == "/cel/ehif":
        c = cel_map(mode)
        return {"cls": {"holds": "redirect", "fails": "authn", "error": "internal"}[c],
                "ctx": {"pipe": {"cause": {"term": CHAIN("authentication")},
                                 "hs": [{"c": c, "h": "redirect", "to": REDIRECT_TO + "cel%2Fehif"},
                                        {"c": "holds", "h": "www"}]}}}
    if path == "/cel/ehlast":
        c = cel_idx(mode)
        return {"cls": {"holds": "authn", "fails": "authz", "error": "internal"}[c],
                "ctx": {"pipe": {"cause": {"term": CHAIN("authorization")},
                                 "hs": [{"c": "fails", "h": "redirect", "to": REDIRECT_TO + "cel%2Fehlast"},
                                        {"c": c, "h": "www"}]}}}
    return None


def svc_request(svc, path, accept, acc, mode=None):
    rq = {"svc": svc, "path": path, "accept": accept, "acc": acc}
    if mode is not None:
        rq["hdr"] = {"X-Mode": mode}
    return rq


def gen_svc_case(rng, tmp, plain=False):
    """one assembled stack (configuration) and a batch of requests against its three services"""
    if plain:
        cfg = {"verbose": False, "ov": dict((c, 0) for c in CLASSES)}
        pcfg = cfg
        realm, rcode = "", 0
    else:
        cfg = {"verbose": rng.random() < 0.6, "ov": dict((c, rng.choice(SVC_CODES)) for c in CLASSES)}
        # the proxy service has its own configuration section
        pcfg = {"verbose": rng.random() < 0.6, "ov": dict((c, rng.choice(SVC_CODES)) for c in CLASSES)}
        realm, rcode = rng.choice(REALMS), rng.choice([0, 0, 301, 302, 303, 307, 308])
    rcodes = SVC_REDIRECT_CODES + rng.sample(SVC_ODD_REDIRECT_CODES, 2)
    services = ("decision", "proxy", "envoy")

    def acc_of():
        return (None, {"k": "absent"}) if plain else rng.choice(SVC_ACCEPTS)
    reqs = []
    for path, sc in SVC_PATHS.items():
        for svc in services:
            if sc and "only" in sc and svc not in sc["only"]:
                continue
            reqs.append(svc_request(svc, path, *acc_of()))
    # every redirect code through a handler of its own, on every service
    for code in rcodes:
        for svc in services:
            reqs.append(svc_request(svc, f"/redirect/{code}", *acc_of()))
    # every CEL path with every mode (true / false / runtime failure), service chosen at random, each service once more
    for path in CEL_PATHS:
        for mode in MODES:
            reqs.append(svc_request(rng.choice(services), path, *acc_of(), mode=mode))
        for svc in services:
            reqs.append(svc_request(svc, path, *acc_of(), mode=rng.choice(MODES)))
    rng.shuffle(reqs)
    return {"fam": "errmap", "op": "svc", "cfg": cfg, "pcfg": pcfg, "realm": realm, "rcode": rcode, "rcodes": rcodes,
            "reqs": reqs, "tmp": tmp}


MECH_CODES = [None, 0, 300, 301, 302, 303, 304, 305, 307, 308, 309, 399, 200, 204, 299, 400, 404, 500, 599, 100, 99, 999,
              1000, 1, -1, -302]


def mech_cases():
    """a redirect error handler created from configuration with every interesting code (None: not configured)"""
    out = []
    for code in MECH_CODES:
        for verbose in (False, True):
            c = {"fam": "errmap", "op": "mech", "code": code or 0, "to": "http://login.local/sign-in?next=%2Fa",
                 "cfg": {"verbose": verbose, "ov": dict((x, 0) for x in CLASSES)}, "accept": None,
                 "acc": {"k": "absent"}}
            if code is None:
                c["unset"] = True
            out.append(c)
    return out


if __name__ == "__main__":
    import sys
    print(json.dumps(extract(sys.argv[1] if len(sys.argv) > 1 else vlib.REPO), indent=1))
