"""C12: (1) the facts of the two error translators, the request contexts and the services' wiring, OBSERVED by probing
the running code through the harness -> lean/HeimdallModel/Gen/ErrMapGen.lean, (2) case generators for the `errmap`
line-protocol family. No source text of /repo is read (an earlier regex extractor raised alarms on refactorings)."""
import json
import os

import vlib


class ExtractError(Exception):
    pass


CLASSES = ["authn", "authz", "comm", "precond", "noRule", "internal"]
KINDS = ["argument", "authentication", "authorization", "communication", "timeout", "configuration", "internal",
         "noRule"]
SERVICES = ["decision", "proxy", "envoy"]
MEDIA = {"text/html": "html", "application/json": "json", "text/plain": "plain", "application/xml": "xml"}
MEDIA_MIME = dict((v, k) for k, v in MEDIA.items())
# canonical order of the tests inside one case of the reconstructed switch (not observable, any fixed order will do)
CANON_TESTS = ["authentication", "authorization", "timeout", "communication", "argument", "noRule", "configuration",
               "internal", "redirect"]

# ---------------------------------------------------------------------------------------------------------------
# facts of the two translators, OBSERVED on the running code (no source text is read)
#
# The harness links the real packages. Probe cases are sent through the ordinary `handler` op (real
# errorhandler.New(opts…).HandleError, real gRPC interceptor) and through `ctxprobe` / `wireprobe`; the tables of
# Gen/ErrMapGen.lean are derived from the answers:
#   class of every leaf           one value per sentinel / redirect / foreign error under a configuration in which every
#                                 option carries a status of its own: the status names the option, i.e. the class
#   precedence (the `switch`)     every ordered pair of leaves of different classes in a chain
#   default statuses, gRPC codes  one value per class without overrides
#   option guards, WriteHeader    overrides -1 and 1 per class (taken / ignored / panic)
#   media preference, fallback    Accept: */* with the types found so far excluded; unacceptable / invalid / no Accept
#   challenge                     error returned by the three real `Finalize` after a challenge was collected
#   wiring                        the three services built by their own constructors, every override field distinct
# Whatever does not fit the shape of a `Translator` raises ExtractError (reported as a broken tie); any behavioural
# change is then exhibited concretely by the correspondence streams.

PROBE_OV = {"authn": 441, "authz": 442, "comm": 443, "precond": 444, "noRule": 445, "internal": 446}
PROBE_REDIRECT = {"t": "redirect", "code": 307, "to": "http://probe.local/r"}
PROBE_LEAVES = dict([(k, {"t": "kind", "k": k}) for k in KINDS] + [("redirect", PROBE_REDIRECT),
                                                                   ("foreign", {"t": "foreign", "v": 0})])


def _chain(*es):
    return {"t": "chain", "es": list(es), "v": 0}


def _zero_ov(**kw):
    ov = dict((c, 0) for c in CLASSES)
    ov.update(kw)
    return ov


def probe_cases():
    """[(tag, case)] — every case is an ordinary line-protocol case of the family"""
    out = []
    plain = {"k": "absent"}
    cfg_id = {"verbose": False, "ov": dict(PROBE_OV)}
    for name, leaf in PROBE_LEAVES.items():
        out.append((("leaf", name), handler_case(cfg_id, None, plain, _chain(leaf))))
        out.append((("default", name), handler_case({"verbose": False, "ov": _zero_ov()}, None, plain, _chain(leaf))))
    names = [n for n in PROBE_LEAVES if n != "foreign"]
    for a in names:
        for b in names:
            if a != b:
                out.append((("pair", a, b), handler_case(cfg_id, None, plain, _chain(PROBE_LEAVES[a], PROBE_LEAVES[b]))))
    for k in KINDS:
        for v in (-1, 1):
            for c in CLASSES:
                out.append((("guard", k, c, v), handler_case({"verbose": False, "ov": _zero_ov(**{c: v})}, None, plain,
                                                              _chain(PROBE_LEAVES[k]))))
    out.append((("redirect99",), handler_case(cfg_id, None, plain, _chain({"t": "redirect", "code": 99, "to": "/r"}))))
    vcfg = {"verbose": True, "ov": _zero_ov()}
    e = _chain(PROBE_LEAVES["authentication"])
    # media preference: */* with 0, 1, 2, 3 supported types excluded, every subset order is resolved by derive_facts
    import itertools
    for n in range(0, 4):
        for excl in itertools.permutations(sorted(MEDIA), n):
            hdr = ", ".join(["*/*;q=0.5"] + [m + ";q=0" for m in excl])
            acc = {"k": "ranges", "rs": [{"t": "*", "s": "*", "q": 500, "p": 0}] +
                   [{"t": m.split("/")[0], "s": m.split("/")[1], "q": 0, "p": 0} for m in excl]}
            out.append((("media", excl), handler_case(vcfg, hdr, acc, e)))
    out.append((("absent",), handler_case(vcfg, None, plain, e)))
    out.append((("unacceptable",), handler_case(vcfg, "image/png", {"k": "ranges", "rs": [
        {"t": "image", "s": "png", "q": 1000, "p": 0}]}, e)))
    out.append((("invalid",), handler_case(vcfg, "*/html", {"k": "invalid"}, e)))
    out.append((("ctxprobe",), {"fam": "errmap", "op": "ctxprobe"}))
    out.append((("wireprobe",), {"fam": "errmap", "op": "wireprobe"}))
    out.append((("epprobe",), {"fam": "errmap", "op": "epprobe"}))
    return out


def _hdr(resp, name):
    return [v for k, v in resp.get("hdrs", []) if k.lower() == name.lower()]


def _need(cond, msg):
    if not cond:
        raise ExtractError(msg)


def _derive_translator(side, obs):
    """obs: tag -> answer of this translator (`http` or `grpc` part of the handler op)"""
    inv_ov = dict((v, k) for k, v in PROBE_OV.items())

    def action_of(resp, what):
        _need(isinstance(resp, dict) and resp.get("out") == "resp", f"{side}: no answer for {what}: {resp}")
        if _hdr(resp, "Location"):
            _need(resp["status"] == PROBE_REDIRECT["code"] and _hdr(resp, "Location") == [PROBE_REDIRECT["to"]],
                  f"{side}: redirect answer for {what} not understood: {resp}")
            return "redirect"
        _need(resp["status"] in inv_ov, f"{side}: status {resp['status']} for {what} is not the status of any option")
        return inv_ov[resp["status"]]
    act = dict((n, action_of(obs[("leaf", n)], n)) for n in PROBE_LEAVES)
    dflt = act["foreign"]
    _need(dflt != "redirect", f"{side}: a foreign error is answered with a redirect")
    leaves = [n for n in PROBE_LEAVES if n != "foreign"]
    special = [n for n in leaves if act[n] != dflt]
    # precedence
    beats = {}
    for a in leaves:
        for b in leaves:
            if a == b or act[a] == act[b]:
                continue
            r1, r2 = action_of(obs[("pair", a, b)], f"{a},{b}"), action_of(obs[("pair", b, a)], f"{b},{a}")
            _need(r1 == r2 and r1 in (act[a], act[b]),
                  f"{side}: the class of a chain of {a} and {b} depends on their order or is neither's ({r1}/{r2})")
            beats[(a, b)] = r1 == act[a]
    for a in leaves:
        if act[a] == dflt:
            _need(all(not beats[(a, b)] for b in special),
                  f"{side}: {a} (class of the default branch) takes precedence over another class")
    actions = []
    for n in special:
        if act[n] not in actions:
            actions.append(act[n])
    for x in actions:
        for y in actions:
            if x != y:
                vals = {beats[(a, b)] for a in special for b in special if act[a] == x and act[b] == y}
                _need(len(vals) == 1, f"{side}: no consistent precedence between {x} and {y}")
    import functools

    def cmp(x, y):
        a = next(n for n in special if act[n] == x)
        b = next(n for n in special if act[n] == y)
        return -1 if beats[(a, b)] else 1
    order = sorted(actions, key=functools.cmp_to_key(cmp))
    for i, x in enumerate(order):
        for y in order[i + 1:]:
            _need(cmp(x, y) == -1, f"{side}: precedence between the classes is not a total order")
    cases = [{"tests": [["redirect"] if n == "redirect" else ["kind", n] for n in CANON_TESTS
                        if n in special and act[n] == x], "act": x} for x in order]
    # default statuses and gRPC codes
    defaults, gcodes = {}, {}
    for n in KINDS + ["foreign"]:
        r = obs[("default", n)]
        _need(r.get("out") == "resp", f"{side}: no answer for {n} without overrides")
        c = act[n]
        _need(defaults.setdefault(c, r["status"]) == r["status"], f"{side}: two default statuses for class {c}")
        _need(gcodes.setdefault(c, r["grpc"]) == r["grpc"], f"{side}: two gRPC codes for class {c}")
        _need(obs[("leaf", n)]["grpc"] == r["grpc"], f"{side}: the gRPC code of class {c} depends on the override")
    _need(set(defaults) == set(CLASSES), f"{side}: classes reached without overrides: {sorted(defaults)}")
    rd = obs[("default", "redirect")]
    _need(rd.get("out") == "resp" and rd["status"] == PROBE_REDIRECT["code"] and not rd["body"],
          f"{side}: redirect without overrides: {rd}")
    # guards and WriteHeader check
    guards, checks = {}, set()
    for k in KINDS:
        c = act[k]
        taken = {}
        for v in (-1, 1):
            r = obs[("guard", k, c, v)]
            if r.get("out") == "panic":
                taken[v] = True
                checks.add(True)
            else:
                _need(r.get("out") == "resp" and r["status"] in (v, defaults[c]),
                      f"{side}: override {v} for {c}: {r}")
                taken[v] = r["status"] == v
                if taken[v]:
                    checks.add(False)
            for c2 in CLASSES:
                if c2 != c:
                    r2 = obs[("guard", k, c2, v)]
                    _need(r2.get("out") == "resp" and r2["status"] == defaults[c],
                          f"{side}: the override of {c2} changes the answer to a {k} failure")
        g = {(True, True): "neZero", (False, True): "gtZero"}.get((taken[-1], taken[1]))
        _need(g is not None, f"{side}: guard of the {c} option not understood (-1 taken: {taken[-1]}, 1 taken: {taken[1]})")
        _need(guards.setdefault(c, g) == g, f"{side}: two guards for class {c}")
    r99 = obs[("redirect99",)]
    checks.add(r99.get("out") == "panic")
    _need(r99.get("out") == "panic" or (r99.get("out") == "resp" and r99["status"] == 99), f"{side}: redirect 99: {r99}")
    _need(len(checks) == 1, f"{side}: status codes are checked in some answers only")
    # media
    def fmt_of(tag):
        r = obs[tag]
        _need(r.get("out") == "resp", f"{side}: no verbose answer for {tag}")
        if not r["body"]:
            _need(not _hdr(r, "Content-Type"), f"{side}: Content-Type without body")
            return None
        _need(r["fmt"] in MEDIA_MIME and _hdr(r, "Content-Type") == [MEDIA_MIME[r["fmt"]]],
              f"{side}: body format {r['fmt']} / Content-Type {_hdr(r, 'Content-Type')} for {tag}")
        return r["fmt"]
    media = []
    for _ in range(4):
        excl = tuple(sorted(MEDIA_MIME[m] for m in media))
        # the excluded types were probed in every order; all orders must agree
        got = {fmt_of(("media", p)) for p in __import__("itertools").permutations(excl)} if len(excl) < 4 else set()
        if len(excl) == 4:
            break
        _need(len(got) == 1, f"{side}: the preferred media type depends on the order of the excluded ones: {got}")
        m = got.pop()
        _need(m is not None and m not in media, f"{side}: preference among the media types not understood ({media}, {m})")
        media.append(m)
    _need(sorted(media) == sorted(MEDIA.values()), f"{side}: supported media types {media}")
    fallback = fmt_of(("unacceptable",))
    _need(fmt_of(("invalid",)) == fallback, f"{side}: invalid and unacceptable Accept headers are treated differently")
    absent = fmt_of(("absent",))
    if absent == fallback:
        absent_first = False
    else:
        _need(absent == media[0], f"{side}: answer without Accept header: {absent}")
        absent_first = True
    nosniff = {bool(_hdr(obs[t], "X-Content-Type-Options")) for t in obs if t[0] in ("media", "absent") and obs[t]["body"]}
    _need(len(nosniff) == 1, f"{side}: nosniff on some verbose answers only")
    grpc = None
    if side == "grpc":
        _need(all(v >= 0 for v in gcodes.values()) and rd["grpc"] >= 0, "grpc: answers without gRPC status")
        grpc = [gcodes, rd["grpc"]]
    else:
        _need(all(v == -1 for v in gcodes.values()), "http: answers with a gRPC status")
    return {"cases": cases, "dflt": dflt, "defaults": defaults, "guards": guards, "media": media,
            "absentIsFirst": absent_first, "fallback": fallback, "checksCode": checks.pop(), "nosniff": nosniff.pop(),
            "grpcCodes": grpc}, act


def derive_facts(tags, answers):
    obs = {"http": {}, "grpc": {}}
    extra = {}
    for tag, a in zip(tags, answers):
        if tag[0] in ("ctxprobe", "wireprobe", "epprobe"):
            _need(isinstance(a, dict) and "harness_error" not in a and "panic" not in a, f"{tag[0]} failed: {str(a)[:300]}")
            extra[tag[0]] = a
            continue
        _need(isinstance(a, dict) and "http" in a and "grpc" in a, f"probe {tag} gave no answer: {str(a)[:300]}")
        obs["http"][tag], obs["grpc"][tag] = a["http"], a["grpc"]
    http, act_h = _derive_translator("http", obs["http"])
    grpc, act_g = _derive_translator("grpc", obs["grpc"])
    # challenge: O[ctx][side] = the context attaches it AND the translator sends it
    seen = {}
    for ctx in SERVICES:
        for side in ("http", "grpc"):
            r = extra["ctxprobe"][ctx][side]
            _need(r.get("out") == "resp", f"ctxprobe {ctx}/{side}: {r}")
            vals = _hdr(r, "WWW-Authenticate")
            _need(vals in ([], ["Basic realm=probe"]), f"ctxprobe {ctx}/{side}: challenge {vals}")
            seen[(ctx, side)] = bool(vals)
    attaches = dict((c, any(seen[(c, s)] for s in ("http", "grpc"))) for c in SERVICES)
    sends = dict((s, any(seen[(c, s)] for c in SERVICES)) for s in ("http", "grpc"))
    for (c, s_), v in seen.items():
        _need(v == (attaches[c] and sends[s_]), "challenge probes are not explained by contexts x translators")
    http["sendsChallenge"], grpc["sendsChallenge"] = sends["http"], sends["grpc"]
    # wiring
    w = extra["wireprobe"]
    wiring = {}
    for svc in SERVICES:
        section = "Proxy" if svc == "proxy" else "Decision"
        inv = dict((v, k) for k, v in w["fields"][section].items())
        act = act_g if svc == "envoy" else act_h
        wiring[svc] = {}
        for k in KINDS:
            r = w["answers"][svc][k]
            _need(r.get("out") == "resp" and r["status"] in inv,
                  f"{svc} service: a {k} failure is answered with {r.get('status')}, not a status of its own "
                  f"configuration section ({section})")
            _need(wiring[svc].setdefault(act[k], inv[r["status"]]) == inv[r["status"]],
                  f"{svc} service: two configuration fields for class {act[k]}")
            _need(r["body"] == (section == "Decision"), f"{svc} service: verbose is not taken from its own section")
        _need(set(wiring[svc]) == set(CLASSES), f"{svc} service: classes {sorted(wiring[svc])}")
    return {"http": http, "grpc": grpc, "wiring": wiring, "contexts": attaches,
            "endpoint": _derive_endpoint_layer(extra["epprobe"])}


def _derive_endpoint_layer(probe):
    """`Endpoint.CreateRequest` / `Endpoint.SendRequest` with a failing authentication strategy: the kinds put in front
    of the strategy's error (outside in) and whether that error itself stays in the chain — the same for every cause"""
    out = {}
    for fn in ("create", "send"):
        seen = set()
        for name, p in sorted(probe.items()):
            cause, term = norm_tree(p["cause"]), norm_tree(p[fn])
            _need(term is not None, f"epprobe: {fn} with a failing strategy ({name}) returned no error")
            wrappers, keeps = [], None
            while keeps is None:
                if vlib.canon(term) == vlib.canon(cause):
                    keeps = True
                    break
                _need(term["t"] == "chain" and 1 <= len(term["es"]) <= 2 and term["es"][0]["t"] == "kind",
                      f"epprobe: {fn} ({name}): error value not understood: {json.dumps(term)}")
                wrappers.append(term["es"][0]["k"])
                if len(term["es"]) == 1:
                    keeps = False
                else:
                    term = term["es"][1]
                _need(len(wrappers) <= 4, f"epprobe: {fn} ({name}): more than 4 wrappers")
            seen.add((tuple(wrappers), keeps))
        _need(len(seen) == 1, f"epprobe: what {fn} puts around the strategy's error depends on the error: {sorted(seen)}")
        w, k = seen.pop()
        out[fn] = {"wrappers": list(w), "keepsCause": k}
    return out


def extract(exe):
    """run the probes against the harness built from the working tree and derive the facts"""
    probes = probe_cases()
    answers = vlib.run_cases([exe], [c for _, c in probes], timeout=300)
    return derive_facts([t for t, _ in probes], answers)


# ---------------------------------------------------------------------------------------------------------------
# rendering

def _lean_classmap(d, f):
    return "{ " + ", ".join(f"{c} := {f(d[c])}" for c in CLASSES) + " }"


def _lean_action(a):
    return ".redirect" if a == "redirect" else f".respond .{a}"


def _lean_translator(t):
    cases = ",\n      ".join(
        "⟨[" + ", ".join(".isRedirect" if x[0] == "redirect" else f".isKind .{x[1]}" for x in c["tests"]) + "], "
        + _lean_action(c["act"]) + "⟩" for c in t["cases"])
    g = "none" if t["grpcCodes"] is None else \
        "some (" + _lean_classmap(t["grpcCodes"][0], str) + f", {t['grpcCodes'][1]})"
    return ("{ cases := [\n      " + cases + " ],\n"
            f"    dflt := {_lean_action(t['dflt'])},\n"
            f"    defaults := {_lean_classmap(t['defaults'], str)},\n"
            f"    guards := {_lean_classmap(t['guards'], lambda x: '.' + x)},\n"
            f"    media := [{', '.join('.' + m for m in t['media'])}],\n"
            f"    absentIsFirst := {str(t['absentIsFirst']).lower()},\n"
            f"    fallback := {'none' if t['fallback'] is None else 'some .' + t['fallback']},\n"
            f"    checksCode := {str(t['checksCode']).lower()},\n"
            f"    nosniff := {str(t['nosniff']).lower()},\n"
            f"    grpcCodes := {g},\n"
            f"    sendsChallenge := {str(t['sendsChallenge']).lower()} }}")


def render_lean(facts):
    w = facts["wiring"]
    return ("import HeimdallModel.Model.ErrMap\n"
            "/-! GENERATED by tools/gen_errmap.py on every check run from probes of the RUNNING code (harness built\n"
            "from the working tree of the repository) — do not edit. The two error translators, the request contexts\n"
            "and the services' option wiring as they behave. -/\n"
            "namespace Heimdall.ErrMap.Gen\nopen Heimdall.ErrMap\n\n"
            "/-- `internal/handler/middleware/http/errorhandler` -/\n"
            f"def http : Translator :=\n  {_lean_translator(facts['http'])}\n\n"
            "/-- `internal/handler/middleware/grpc/errorhandler` -/\n"
            f"def grpc : Translator :=\n  {_lean_translator(facts['grpc'])}\n\n"
            "/-- `errorhandler.New(...)` in the decision, proxy and Envoy gRPC `service.go`: the configuration field\n"
            "behind each class's option -/\n"
            "def wiring : List (ClassMap CfgField) :=\n  [ "
            + ",\n    ".join(_lean_classmap(w[s], lambda x: "." + x) for s in SERVICES) + " ]\n\n"
            "/-- `Finalize` of the decision, proxy and Envoy request contexts: is the pipeline error handed on\n"
            "together with the `WWW-Authenticate` values collected by the error handlers -/\n"
            "def contextsAttachChallenge : List Bool :=\n  ["
            + ", ".join(str(facts["contexts"][s]).lower() for s in SERVICES) + "]\n\n"
            "/-- `Endpoint.CreateRequest` and `Endpoint.SendRequest` when the authentication strategy of the endpoint\n"
            "fails: the kinds put in front of the strategy's error (outside in), and whether that error stays in the chain -/\n"
            "def endpointLayer : List (List Kind × Bool) :=\n  ["
            + ", ".join("([" + ", ".join("." + k for k in facts["endpoint"][fn]["wrappers"]) + "], "
                        + str(facts["endpoint"][fn]["keepsCause"]).lower() + ")" for fn in ("create", "send")) + "]\n\n"
            "end Heimdall.ErrMap.Gen\n")


GEN_PATH = os.path.join(vlib.LEAN, "HeimdallModel", "Gen", "ErrMapGen.lean")


def write_gen(exe):
    """probe the harness `exe`, derive the facts, (re)write the generated Lean file. Raises ExtractError."""
    os.makedirs(os.path.dirname(GEN_PATH), exist_ok=True)
    facts = extract(exe)
    text = render_lean(facts)
    old = None
    if os.path.exists(GEN_PATH):
        with open(GEN_PATH) as fh:
            old = fh.read()
    if old != text:
        with open(GEN_PATH, "w") as fh:
            fh.write(text)
    return facts


# ---------------------------------------------------------------------------------------------------------------
# generators

REDIRECT_CODES = [301, 302, 303, 307, 308, 200, 204, 0, 99, 100, 999, 1000, -1, 404]
OVERRIDE_CODES = [0, 0, 0, 0, 400, 401, 403, 404, 418, 429, 500, 502, 503, 100, 199, 200, 201, 299, 300, 302, 599, 999,
                  1000, 99, 1, -1, -401, 70000]
TARGETS = ["http://login.local/sign-in", "https://idp.example.com/auth?x=1&y=2", "/relative", ""]


CTX_ERRS = ["canceled", "deadline"]
# state of the context of the request / RPC at the moment the failure is translated
RCTX = ["live", "cancelled", "deadline"]


def ctxdone(c="canceled"):
    """context.Canceled / context.DeadlineExceeded: what a call made with the context of the request returns when
    that context is done (client gone or half-closed, deadline passed)"""
    return {"t": "ctxdone", "c": c}


def gen_err(rng, depth, weights=None, redirects=True):
    """error terms: every kind, redirects, foreign errors, the errors of package context, fmt / foreign / *url.Error
    wraps, joins, chains, nested"""
    r = rng.random()
    if depth <= 0 or r < 0.38:
        q = rng.random()
        if q < 0.66:
            return {"t": "kind", "k": rng.choice(KINDS)}
        if q < 0.80:
            if redirects:
                return {"t": "redirect", "code": rng.choice(REDIRECT_CODES), "to": rng.choice(TARGETS)}
            return {"t": "kind", "k": rng.choice(KINDS)}
        if q < 0.90:
            return ctxdone(rng.choice(CTX_ERRS))
        return {"t": "foreign", "v": rng.randrange(5)}
    if r < 0.52:
        return {"t": "wrap", "e": gen_err(rng, depth - 1, redirects=redirects), "v": rng.randrange(3)}
    n = rng.choice([1, 2, 2, 3, 4])
    es = [gen_err(rng, depth - 1, redirects=redirects) for _ in range(n)]
    if r < 0.68:
        return {"t": "join", "es": es, "v": rng.randrange(2)}
    return {"t": "chain", "es": es, "v": rng.randrange(4)}


MEDIA_TOKENS = [("text", "html"), ("application", "json"), ("text", "plain"), ("application", "xml"), ("*", "*"),
                ("text", "*"), ("application", "*"), ("image", "png"), ("foo", "bar"), ("TEXT", "HTML"),
                ("application", "xhtml+xml")]
QS = [None, None, 1000, 900, 800, 500, 300, 1, 0, 0]
INVALID_ACCEPT = ["*/html", "text", "text/", "/html", "text/html;q=2", "text/html;q=0.1234", "text/html;q=x",
                  "text/html,,", "text/html;", "text/html; q", "a b/c", "text/html text/plain", ";q=1", ","]


def _q_str(q):
    if q == 1000:
        return "1"
    s = "%03d" % q
    return "0." + s.rstrip("0") if s.rstrip("0") else "0"


def gen_accept(rng):
    """(header string or None, structured form for the model)"""
    r = rng.random()
    if r < 0.12:
        return None, {"k": "absent"}
    if r < 0.22:
        return rng.choice(INVALID_ACCEPT), {"k": "invalid"}
    if r < 0.25:
        return "", {"k": "ranges", "rs": []}
    n = rng.choice([1, 1, 2, 2, 3, 4, 5])
    parts, rs = [], []
    for _ in range(n):
        t, s = rng.choice(MEDIA_TOKENS)
        q = rng.choice(QS)
        params = rng.choice([0, 0, 0, 0, 0, 1])
        txt = f"{t}/{s}"
        if params:
            txt += rng.choice([";level=1", "; charset=utf-8", ';v="a b"'])
        if q is not None:
            txt += rng.choice([";q=", "; q=", " ;q="]) + _q_str(q)
            if rng.random() < 0.15:
                txt += ";ext=1"
        parts.append(txt)
        rs.append({"t": t.lower(), "s": s.lower(), "q": 1000 if q is None else q, "p": params})
    return rng.choice([",", ", ", " , "]).join(parts), {"k": "ranges", "rs": rs}


def gen_cfg(rng):
    ov = {}
    mode = rng.random()
    for c in CLASSES:
        if mode < 0.3:
            ov[c] = 0
        elif mode < 0.75:
            ov[c] = rng.choice([0, 0, 400, 401, 403, 404, 418, 429, 500, 502, 503, 302, 599, 100])
        else:
            ov[c] = rng.choice(OVERRIDE_CODES)
    return {"verbose": rng.random() < 0.6, "ov": ov}


def handler_case(cfg, accept, acc, err, rctx=None):
    """rctx: state of the context of the request when the failure is translated (None: live, the key is left out)"""
    c = {"fam": "errmap", "op": "handler", "cfg": cfg, "accept": accept, "acc": acc, "err": err}
    if rctx is not None:
        c["rctx"] = rctx
    return c


def gen_handler_case(rng, service_sides=True):
    """service_sides=False: the case goes through the two translators only, not through the service handlers"""
    accept, acc = gen_accept(rng)
    c = handler_case(gen_cfg(rng), accept, acc, gen_err(rng, rng.choice([0, 1, 2, 2, 3, 3, 4, 4, 5])),
                     rctx=rng.choice(RCTX))
    if not service_sides:
        c["translators_only"] = True
    return c


LEAVES = [{"t": "kind", "k": k} for k in KINDS] + [{"t": "redirect", "code": 303, "to": "http://login.local/x"},
                                                  {"t": "foreign", "v": 0}, ctxdone("canceled"), ctxdone("deadline")]
PLAIN_CFG = {"verbose": False, "ov": dict((c, 0) for c in CLASSES)}


def pair_cases():
    """every ordered pair of leaves (incl. the errors of package context) in every binary container, in every state
    of the request's context: exposes any reordering of either switch and any dependence on the context"""
    out = []
    for rctx in RCTX:
        for a in LEAVES:
            out.append(handler_case(PLAIN_CFG, None, {"k": "absent"}, a, rctx))
            for b in LEAVES:
                for cont in ("chain", "join"):
                    out.append(handler_case(PLAIN_CFG, None, {"k": "absent"}, {"t": cont, "es": [a, b], "v": 0}, rctx))
                out.append(handler_case(PLAIN_CFG, None, {"k": "absent"},
                                        {"t": "chain", "es": [{"t": "wrap", "e": a, "v": 0},
                                                              {"t": "chain", "es": [b], "v": 1}], "v": 2}, rctx))
    return out


def ctx_shapes():
    """the failures mechanisms produce when the context of the request is done while they wait on a remote system:
    [(name, term)]. Communication / timeout errors caused by the aborted call (errorchain + *url.Error + context
    error, as endpoint.SendRequest, the remote authorizer, the generic / jwt / introspection authenticators, the
    contextualizers and the proxy's forwarding build them), errors of every other kind with such a cause (a
    mechanism or composite re-labelling the failure), fmt / join spellings, the bare context error."""
    out = []
    for c in CTX_ERRS:
        cause = {"t": "wrap", "e": ctxdone(c), "v": 2}  # *url.Error{Err: context.Canceled}
        for k in KINDS:
            out.append((f"{k}<-{c}", {"t": "chain", "es": [{"t": "kind", "k": k}, cause], "v": 3}))
        comm = {"t": "chain", "es": [{"t": "kind", "k": "timeout" if c == "deadline" else "communication"}, cause],
                "v": 1}
        for k in ("authentication", "authorization", "internal", "argument"):
            out.append((f"{k}<-comm<-{c}", {"t": "chain", "es": [{"t": "kind", "k": k}, comm], "v": 1}))
        out.append((f"fmt<-comm<-{c}", {"t": "wrap", "e": comm, "v": 0}))
        out.append((f"join(comm,{c})", {"t": "join", "es": [{"t": "kind", "k": "communication"}, ctxdone(c)], "v": 0}))
        out.append((f"join({c},authz)", {"t": "join", "es": [ctxdone(c), {"t": "kind", "k": "authorization"}], "v": 1}))
        out.append((f"bare {c}", ctxdone(c)))
        out.append((f"url<-{c}", cause))
        out.append((f"chain({c})", {"t": "chain", "es": [ctxdone(c)], "v": 0}))
    return out


def ctx_cases():
    """every shape of ctx_shapes in every state of the request's context, plain and with overrides / verbose"""
    out = []
    ov = {"verbose": True, "ov": {"authn": 407, "authz": 404, "comm": 503, "precond": 422, "noRule": 410,
                                  "internal": 599}}
    for _, term in ctx_shapes():
        for rctx in RCTX:
            out.append(handler_case(PLAIN_CFG, None, {"k": "absent"}, term, rctx))
            out.append(handler_case(ov, "application/json",
                                    {"k": "ranges", "rs": [{"t": "application", "s": "json", "q": 1000, "p": 0}]}, term,
                                    rctx))
    return out


KIND_CLASS = {"authentication": "authn", "authorization": "authz", "communication": "comm", "timeout": "comm",
              "argument": "precond", "noRule": "noRule", "configuration": "internal", "internal": "internal"}


def term_leaves(t):
    if t["t"] == "wrap":
        return term_leaves(t["e"])
    if t["t"] in ("join", "chain"):
        return [l for x in t["es"] for l in term_leaves(x)]
    return [t]


def term_class(t):
    """the property's own words, independent of the Lean model: the class of an error value by the kinds inside it,
    authentication > authorization > communication|timeout > precondition > no rule > redirect > anything else.
    Returns (class, first redirect leaf or None)."""
    leaves = term_leaves(t)
    classes = {KIND_CLASS[l["k"]] for l in leaves if l["t"] == "kind"}
    for c in ("authn", "authz", "comm", "precond", "noRule"):
        if c in classes:
            return c, None
    for l in leaves:
        if l["t"] == "redirect":
            return "redirect", l
    return "internal", None


def override_cases():
    """each class with each interesting override value, in every state of the request's context"""
    out = []
    cls_kind = {"authn": "authentication", "authz": "authorization", "comm": "communication", "precond": "argument",
                "noRule": "noRule", "internal": "internal"}
    for rctx in RCTX:
        for c in CLASSES:
            for code in sorted(set(OVERRIDE_CODES)):
                ov = dict((x, 0) for x in CLASSES)
                ov[c] = code
                for k in ([cls_kind[c]] + (["timeout"] if c == "comm" else []) +
                          (["configuration"] if c == "internal" else [])):
                    out.append(handler_case({"verbose": False, "ov": ov}, None, {"k": "absent"},
                                            {"t": "chain", "es": [{"t": "kind", "k": k}], "v": 1}, rctx))
    return out


def small_scope_errs(depth):
    """all error terms up to the given depth over a reduced leaf alphabet with containers of <= 2 children"""
    leaves = [{"t": "kind", "k": "authentication"}, {"t": "kind", "k": "argument"}, {"t": "kind", "k": "timeout"},
              {"t": "redirect", "code": 307, "to": "/r"}, {"t": "foreign", "v": 1}]
    level = list(leaves)
    for _ in range(depth):
        nxt = list(leaves)
        nxt += [{"t": "wrap", "e": e, "v": 0} for e in level]
        for cont in ("chain", "join"):
            nxt += [{"t": cont, "es": [a], "v": 0} for a in level]
            nxt += [{"t": cont, "es": [a, b], "v": 0} for a in level for b in leaves]
            nxt += [{"t": cont, "es": [b, a], "v": 0} for a in level for b in leaves]
        seen, uniq = set(), []
        for e in nxt:
            h = json.dumps(e, sort_keys=True)
            if h not in seen:
                seen.add(h)
                uniq.append(e)
        level = uniq
    return level


SVC_PATHS = {
    # path -> scenario: what the property says about the failure provoked there
    "/ok": None,
    "/authn": {"cls": "authn", "err": {"t": "chain", "es": [{"t": "kind", "k": "authentication"}], "v": 0}},
    "/authz": {"cls": "authz", "err": {"t": "chain", "es": [{"t": "kind", "k": "authorization"}], "v": 0}},
    "/comm": {"cls": "comm", "err": {"t": "chain", "es": [{"t": "kind", "k": "communication"}, {"t": "foreign", "v": 0}],
                                     "v": 0}},
    "/slash/a%2Fb": {"cls": "precond", "err": {"t": "chain", "es": [{"t": "kind", "k": "argument"}], "v": 0},
                     "only": ["decision", "proxy"]},
    "/internal": {"cls": "internal", "err": {"t": "chain", "es": [{"t": "kind", "k": "internal"}, {"t": "foreign", "v": 0}],
                                             "v": 0}},
    "/leak": {"cls": "internal", "err": {"t": "chain", "es": [{"t": "kind", "k": "internal"}, {"t": "foreign", "v": 0}],
                                         "v": 0}},
    "/nothing": {"cls": "noRule", "err": {"t": "chain", "es": [{"t": "kind", "k": "noRule"}], "v": 0}},
    "/redirect": {"cls": "redirect", "handler": "redirect", "to": "http://login.local/sign-in?origin=%2Fredirect"},
    "/www": {"cls": "authn", "handler": "www"},
    "/basic": {"cls": "authn", "handler": "www"},
    "/leakwww": {"cls": "authn", "handler": "www"},
    "/unreachable": {"cls": "comm", "err": {"t": "chain", "es": [{"t": "kind", "k": "communication"},
                                                                  {"t": "foreign", "v": 0}], "v": 0},
                     "only": ["proxy"], "finalize": True},
}
COMM_CANCELLED = {"t": "chain", "es": [{"t": "kind", "k": "communication"},
                                       {"t": "wrap", "e": ctxdone("canceled"), "v": 2}], "v": 0}
HANG_PATHS = {
    # paths on which a REAL mechanism waits on a server that never answers, with the context of the request; only
    # requested by the half-closing client (any other client would wait for ever)
    "/hang/comm": {"cls": "comm", "err": COMM_CANCELLED, "only": ["decision", "proxy"]},       # remote authorizer
    "/hang/generic": {"cls": "comm", "err": COMM_CANCELLED, "only": ["decision", "proxy"],     # generic authenticator
                      "hdr": {"X-Token": "opaque"}},
    "/hang/upstream": {"cls": "comm", "err": COMM_CANCELLED, "only": ["proxy"], "finalize": True},  # forwarding
}
# failures which need no waiting, requested by the half-closing client as well (the context of the request may or may
# not be cancelled by the time they are translated)
HC_PLAIN_PATHS = ["/authn", "/authz", "/comm", "/nothing", "/www", "/redirect", "/internal"]
HC_DELAYS = [0, 0, 2, 20]  # ms between the request and the half-close


def request_scenario(rq):
    """what the property says about the failure provoked by a request to a plain path (not CEL / redirect/<code>)"""
    w = rq.get("werr")
    if w is not None:
        if w.get("t") == "send":
            return {"cls": "comm", "err": COMM_CANCELLED}
        cls, red = term_class(w)
        sc = {"cls": cls, "err": w}
        if red is not None:
            sc["code"] = red["code"]
        return sc
    return SVC_PATHS.get(rq["path"]) or HANG_PATHS.get(rq["path"])


REALMS = ["", "My fancy app", "internal-realm", "Zone 51"]
SVC_CODES = [0, 0, 400, 401, 403, 404, 407, 418, 429, 451, 500, 502, 503, 599, 302]
SVC_ACCEPTS = [(None, {"k": "absent"}), ("*/*", {"k": "ranges", "rs": [{"t": "*", "s": "*", "q": 1000, "p": 0}]}),
               ("application/json", {"k": "ranges", "rs": [{"t": "application", "s": "json", "q": 1000, "p": 0}]}),
               ("text/plain;q=0.5, application/xml", {"k": "ranges", "rs": [
                   {"t": "text", "s": "plain", "q": 500, "p": 0}, {"t": "application", "s": "xml", "q": 1000, "p": 0}]}),
               ("image/png", {"k": "ranges", "rs": [{"t": "image", "s": "png", "q": 1000, "p": 0}]}),
               ("text/html;q=0, */*;q=0.1", {"k": "ranges", "rs": [
                   {"t": "text", "s": "html", "q": 0, "p": 0}, {"t": "*", "s": "*", "q": 100, "p": 0}]})]


MODES = [None, "ok", "deny", "bad", "zzzzz"]
CHAIN = lambda *ks: {"t": "chain", "es": [{"t": "kind", "k": k} for k in ks], "v": 0}  # noqa: E731


def cel_map(mode):
    """{"ok": true, "deny": false}[Request.Header("X-Mode")]"""
    return {"ok": "holds", "deny": "fails"}.get(mode, "error")


def cel_idx(mode):
    """[true, false][Request.Header("X-Mode").size() - 2]"""
    return {2: "holds", 3: "fails"}.get(len(mode or ""), "error")


def cel_div(mode):
    """10 / (Request.Header("X-Mode").size() - 2) > 3   (integer division truncating towards zero)"""
    n = len(mode or "") - 2
    if n == 0:
        return "error"
    q = abs(10) // abs(n) * (1 if n > 0 else -1)
    return "holds" if q > 3 else "fails"


REDIRECT_TO = "http://login.local/sign-in?origin=%2F"
SVC_REDIRECT_CODES = [300, 301, 302, 303, 307, 308]
SVC_ODD_REDIRECT_CODES = [305, 309, 399, 400, 404, 410, 451, 503, 599]
CEL_PATHS = ["/cel/authz", "/cel/attr", "/cel/div", "/cel/stepif", "/cel/ehif", "/cel/ehlast"]


def svc_scenario(path, mode):
    """what the property says about a request to `path` with the X-Mode header `mode`: the class of the answer
    (None: no failure) and, for the Lean side, how the pipeline ends. None if the path is a plain SVC_PATHS one."""
    if path.startswith("/redirect/"):
        code = int(path.rsplit("/", 1)[1])
        return {"cls": "redirect", "code": code,
                "ctx": {"exec": "redirect", "code": code, "err": None, "to": REDIRECT_TO + "redirect%2F" + str(code)}}
    by = {"holds": None, "fails": "authz", "error": "internal"}
    if path == "/cel/authz":
        c = cel_map(mode)
        return {"cls": by[c], "ctx": {"pipe": {"cause": {"celAuthz": c}, "hs": []}}}
    if path == "/cel/attr":
        return {"cls": "internal", "ctx": {"pipe": {"cause": {"celAuthz": "error"}, "hs": []}}}
    if path == "/cel/div":
        c = cel_div(mode)
        return {"cls": by[c], "ctx": {"pipe": {"cause": {"celAuthz": c}, "hs": []}}}
    if path == "/cel/stepif":
        c = cel_map(mode)
        return {"cls": {"holds": "authz", "fails": None, "error": "internal"}[c],
                "ctx": {"pipe": {"cause": {"stepIf": c, "step": {"term": CHAIN("authorization")}}, "hs": []}}}
    if path == "/cel/ehif":
        c = cel_map(mode)
        return {"cls": {"holds": "redirect", "fails": "authn", "error": "internal"}[c],
                "ctx": {"pipe": {"cause": {"term": CHAIN("authentication")},
                                 "hs": [{"c": c, "h": "redirect", "to": REDIRECT_TO + "cel%2Fehif"},
                                        {"c": "holds", "h": "www"}]}}}
    if path == "/cel/ehlast":
        c = cel_idx(mode)
        return {"cls": {"holds": "authn", "fails": "authz", "error": "internal"}[c],
                "ctx": {"pipe": {"cause": {"term": CHAIN("authorization")},
                                 "hs": [{"c": "fails", "h": "redirect", "to": REDIRECT_TO + "cel%2Fehlast"},
                                        {"c": c, "h": "www"}]}}}
    return None


def svc_request(svc, path, accept, acc, mode=None, hc=None, werr=None, hdr=None, log=None, tfault=None):
    """hc: the client half-closes its connection `hc` ms after the request and then reads the answer; werr: a scripted
    pipeline step behind the path waits with the context of the request and then fails with this error value
    ({"t": "send"}: it makes a real outbound call to a server which never answers)"""
    rq = {"svc": svc, "path": path, "accept": accept, "acc": acc}
    if mode is not None:
        rq["hdr"] = {"X-Mode": mode}
    if hdr:
        rq["hdr"] = dict(rq.get("hdr") or {}, **hdr)
    if hc is not None:
        rq["hc"] = True
        rq["hcdelay"] = hc
    if werr is not None:
        rq["werr"] = werr
    if log:
        # the log level of the service which gets the request (round 5)
        rq["log"] = log
    if tfault is not None:
        # what the token endpoint does with token requests while this request is processed (round 5)
        rq["tfault"] = tfault
    return rq


def halfclose_requests(rng, acc_of, n_random=4):
    """the dimension "the client half-closes / the context of the request is cancelled while a mechanism waits": """
    reqs = []
    http_services = ("decision", "proxy")
    for path, sc in HANG_PATHS.items():
        for svc in sc["only"]:
            reqs.append(svc_request(svc, path, *acc_of(), hc=rng.choice(HC_DELAYS), hdr=sc.get("hdr")))
    shapes = [t for _, t in ctx_shapes()]
    core = [{"t": "send"}, shapes[0]] + [t for n, t in ctx_shapes() if n in (
        "communication<-canceled", "timeout<-deadline", "authentication<-comm<-canceled",
        "authorization<-comm<-canceled", "bare canceled", "join(comm,canceled)")]
    terms = core + rng.sample(shapes, 4)
    for _ in range(n_random):
        e = gen_err(rng, rng.choice([1, 2, 3]), redirects=False)
        # make sure a context error is inside
        terms.append({"t": "chain", "es": [e, {"t": "wrap", "e": ctxdone(rng.choice(CTX_ERRS)), "v": rng.randrange(3)}],
                      "v": rng.randrange(4)})
    for n, term in enumerate(terms):
        svc = http_services[n % 2] if n < 2 * (len(terms) // 2) else rng.choice(http_services)
        reqs.append(svc_request(svc, f"/ctxwait/{n}", *acc_of(), hc=rng.choice(HC_DELAYS), werr=term))
    for path in HC_PLAIN_PATHS:
        reqs.append(svc_request(rng.choice(http_services), path, *acc_of(), hc=rng.choice(HC_DELAYS)))
    return reqs


def gen_svc_case(rng, tmp, plain=False):
    """one assembled stack (configuration) and a batch of requests against its three services"""
    if plain:
        cfg = {"verbose": False, "ov": dict((c, 0) for c in CLASSES)}
        pcfg = cfg
        realm, rcode = "", 0
    else:
        cfg = {"verbose": rng.random() < 0.6, "ov": dict((c, rng.choice(SVC_CODES)) for c in CLASSES)}
        # the proxy service has its own configuration section
        pcfg = {"verbose": rng.random() < 0.6, "ov": dict((c, rng.choice(SVC_CODES)) for c in CLASSES)}
        realm, rcode = rng.choice(REALMS), rng.choice([0, 0, 301, 302, 303, 307, 308])
    rcodes = SVC_REDIRECT_CODES + rng.sample(SVC_ODD_REDIRECT_CODES, 2)
    services = ("decision", "proxy", "envoy")

    def acc_of():
        return (None, {"k": "absent"}) if plain else rng.choice(SVC_ACCEPTS)
    reqs = []
    for path, sc in SVC_PATHS.items():
        for svc in services:
            if sc and "only" in sc and svc not in sc["only"]:
                continue
            reqs.append(svc_request(svc, path, *acc_of()))
    # every redirect code through a handler of its own, on every service
    for code in rcodes:
        for svc in services:
            reqs.append(svc_request(svc, f"/redirect/{code}", *acc_of()))
    # every CEL path with every mode (true / false / runtime failure), service chosen at random, each service once more
    for path in CEL_PATHS:
        for mode in MODES:
            reqs.append(svc_request(rng.choice(services), path, *acc_of(), mode=mode))
        for svc in services:
            reqs.append(svc_request(svc, path, *acc_of(), mode=rng.choice(MODES)))
    reqs += halfclose_requests(rng, acc_of)
    if not plain:
        # round 5: the log level of the service is a dimension of every request
        for rq in reqs:
            level = rng.choice(LOG_LEVELS + ["", ""])
            if level:
                rq["log"] = level
    reqs += round5_requests(rng, acc_of, plain)
    rng.shuffle(reqs)
    return {"fam": "errmap", "op": "svc", "cfg": cfg, "pcfg": pcfg, "realm": realm, "rcode": rcode, "rcodes": rcodes,
            "reqs": reqs, "tmp": tmp}


# ---------------------------------------------------------------------------------------------------------------
# round 5: the log level of the services, the upstream of the proxy, the authentication strategies of endpoints

# log levels a service can run at ("" = the no-op logger the stream used before the level became a dimension);
# at `trace` the dump middleware of the decision and proxy services hooks the response writer
LOG_LEVELS = ["trace", "debug", "info", "warn", "error", "disabled"]

# the scripted upstream: steps of the last path segment (harness/main/errmap_ep.go: c12ServeScript)
UP_INFOS = {"c100": 100, "p102": 102, "h103": 103}
UP_ANSWERS = ["ok", "s404"]                               # a final response: forwarded
UP_DIES = ["die", "reset", "partstatus", "parthdr"]       # no (complete) header section of a final response
UP_CUT = ["partbody", "partchunk"]                        # complete header section, the announced body is cut short
UP_HANG = "hang"                                          # nothing within serve.proxy.timeout.read
UPSTREAM_FAILURE = {"t": "chain", "es": [{"t": "kind", "k": "communication"}, {"t": "foreign", "v": 0}], "v": 0}
FOREIGN = {"t": "foreign", "v": 0}

# what the scripted token endpoint does with a token request -> (class by the property's table, outcome for the
# model). The class is the generator's own oracle: heimdall could not talk to the token endpoint or was refused a token
# by it -> "communication or timeout 502"; a 200 which is not a token document at all is heimdall's "anything else".
TOKEN_FAULTS = {
    "ok": (None, {"k": "issued"}),
    "s503": ("comm", {"k": "unexpectedStatus"}),
    "s401": ("comm", {"k": "unexpectedStatus"}),
    "garbage200": ("internal", {"k": "okUnparsable"}),
    "err200": ("comm", {"k": "okErrorDocument"}),
    "invalid_client": ("comm", {"k": "badRequest", "doc": True}),
    "garbage400": ("comm", {"k": "badRequest", "doc": False}),
    "die": ("comm", {"k": "sendFailed", "cause": FOREIGN}),
    # the token endpoint never answers; the client half-closes -> the context of the request is cancelled
    "hang": ("comm", {"k": "sendFailed", "cause": ctxdone("canceled")}),
}
TOKEN_REFUSED = ("comm", {"k": "sendFailed", "cause": FOREIGN})
TOKEN_DEADLINE = ("comm", {"k": "sendTimedOut", "cause": ctxdone("deadline")})
# mechanisms whose endpoint authenticates with oauth2_client_credentials (path segment after /ep/ and /epx/)
EP_MECHS = ["remote", "generic", "introspect", "ctx", "remotebody"]
EPX_MECHS = ["remote", "generic", "introspect", "ctx"]
EP_HDR = {"X-Token": "opaque-token"}
# endpoints with the other strategies: path -> (class, strategy for the model | error term)
EPS_PATHS = {
    "/eps/basic": (None, {"s": "basic"}),
    "/eps/apikey": (None, {"s": "apikey"}),
    "/eps/sig": (None, {"s": "sig", "fails": False}),
    "/eps/sigfail": ("internal", {"s": "sig", "fails": True}),
}
EPS_DEAD = "/eps/apikeydead"   # the strategy is fine, the endpoint itself is dead
KNOWN_BODY_CUT = "C12-upstream-body-cut"


def _ep_ctx(strategy, at="mech"):
    return {"pipe": {"cause": {"ep": {"at": at, "strategy": strategy}}, "hs": []}}


def ep_scenario(rq):
    """what the property says about a request of round 5 (scripted upstream, authenticating endpoints); None for
    every other request. Keys: cls (None: no failure; "cut": see expected_class_ok), ctx (the Lean side), tree (the
    error value the real executor returns is compared with the model's), infos."""
    path, svc = rq["path"], rq["svc"]
    w = rq.get("werr")
    if w is not None and w.get("t") == "send" and w.get("auth"):
        # Endpoint.SendRequest through an authenticating endpoint with a context which expires
        cls, outcome = TOKEN_DEADLINE if w.get("deadline") else TOKEN_FAULTS[rq.get("tfault") or "ok"]
        return {"cls": cls, "tree": True, "ctx": _ep_ctx({"s": "cc", "token": outcome}, at="send")}
    if path.startswith("/up/") or path.startswith("/upwww/") or path == "/refused":
        if svc != "proxy":
            return {"cls": None, "ctx": {"exec": "none", "err": None}}
        steps = [] if path == "/refused" else path.rsplit("/", 1)[1].split(".")
        infos = [UP_INFOS[x] for x in steps[:-1]]
        end = "die" if path == "/refused" else steps[-1]
        if end in UP_CUT:
            return {"cls": "cut", "infos": infos, "ctx": None}
        dies = end in UP_DIES or end == UP_HANG
        return {"cls": "comm" if dies else None, "infos": infos, "finalize": True,
                "ctx": {"upstream": {"infos": infos, "end": "dies" if dies else "answers", "log": rq.get("log") or ""}}}
    if path.startswith("/ep/"):
        cls, outcome = TOKEN_FAULTS[rq.get("tfault") or "ok"]
        return {"cls": cls, "tree": True, "ctx": _ep_ctx({"s": "cc", "token": outcome})}
    if path.startswith("/epx/"):
        cls, outcome = TOKEN_REFUSED
        return {"cls": cls, "tree": True, "ctx": _ep_ctx({"s": "cc", "token": outcome})}
    if path in EPS_PATHS:
        cls, strategy = EPS_PATHS[path]
        return {"cls": cls, "tree": True, "ctx": _ep_ctx(strategy)}
    if path == EPS_DEAD:
        return {"cls": "comm", "tree": True, "ctx": {"pipe": {"cause": {"term": UPSTREAM_FAILURE}, "hs": []}}}
    return None


def norm_tree(t):
    """error terms compared as shapes: the wrappers net/http, net and os put around a foreign / context error
    (*url.Error <- *net.OpError <- *os.SyscallError <- errno: their number depends on how the call failed) are dropped,
    variants of foreign errors / chains are not distinguished"""
    if t is None:
        return None
    if t["t"] == "wrap":
        x = norm_tree(t["e"])
        return x if x["t"] in ("foreign", "ctxdone") else {"t": "wrap", "e": x}
    if t["t"] in ("join", "chain"):
        return {"t": t["t"], "es": [norm_tree(x) for x in t["es"]]}
    if t["t"] == "kind":
        return {"t": "kind", "k": t["k"]}
    if t["t"] == "redirect":
        return {"t": "redirect", "code": t["code"], "to": t["to"]}
    if t["t"] == "ctxdone":
        return {"t": "ctxdone", "c": t.get("c", "canceled")}
    return {"t": "foreign"}


def _up_script(rng, end, max_infos=3):
    infos = [rng.choice(sorted(UP_INFOS)) for _ in range(rng.choice(range(max_infos + 1)))]
    return "/up/" + ".".join(infos + [end])


def round5_requests(rng, acc_of, plain=False):
    """the requests of round 5 for one stack: every log level x every way the upstream can end (with 0-3 informational
    responses before), the fixed core at `trace`; every mechanism x every fault of the token endpoint, on every
    service; the other strategies; half-closing clients while the token endpoint / the upstream hangs"""
    reqs = []
    services = ("decision", "proxy", "envoy")

    def lvl():
        return rng.choice(LOG_LEVELS + [""])
    # --- the upstream of the proxy
    for level in LOG_LEVELS:
        for end in UP_DIES:
            reqs.append(svc_request("proxy", _up_script(rng, end), *acc_of(), log=level))
        reqs.append(svc_request("proxy", "/refused", *acc_of(), log=level))
        reqs.append(svc_request("proxy", _up_script(rng, rng.choice(UP_ANSWERS)), *acc_of(), log=level))
        reqs.append(svc_request("proxy", _up_script(rng, rng.choice(UP_CUT), max_infos=1), *acc_of(), log=level))
    for path in ("/up/h103.die", "/up/c100.die", "/up/p102.die", "/up/p102.h103.h103.reset", "/up/h103.parthdr",
                 "/up/h103.ok", "/up/c100.p102.h103.ok", "/upwww/h103.die", "/up/die"):
        reqs.append(svc_request("proxy", path, *acc_of(), log="trace"))
        reqs.append(svc_request("proxy", path, *acc_of(), log=rng.choice(LOG_LEVELS[1:] + [""])))
    for svc in ("decision", "envoy"):
        reqs.append(svc_request(svc, "/up/h103.die", *acc_of(), log=rng.choice(["trace", lvl()])))
    # the client half-closes while informational responses arrive and the upstream dies
    for path in ("/up/h103.die", _up_script(rng, rng.choice(UP_DIES))):
        reqs.append(svc_request("proxy", path, *acc_of(), hc=rng.choice(HC_DELAYS), log=rng.choice(["trace", lvl()])))
    # --- endpoints which authenticate: every (mechanism, fault) on some service, every (service, fault) with some
    # mechanism
    faults = [f for f in TOKEN_FAULTS if f != "hang"]
    for mech in EP_MECHS:
        for fault in faults:
            reqs.append(svc_request(rng.choice(services), "/ep/" + mech, *acc_of(), hdr=EP_HDR, tfault=fault, log=lvl()))
    for svc in services:
        for fault in faults:
            reqs.append(svc_request(svc, "/ep/" + rng.choice(EP_MECHS), *acc_of(), hdr=EP_HDR, tfault=fault,
                                    log=lvl()))
    for mech in EPX_MECHS:
        reqs.append(svc_request(rng.choice(services), "/epx/" + mech, *acc_of(), hdr=EP_HDR, log=lvl()))
    for svc in services:
        reqs.append(svc_request(svc, "/epx/" + rng.choice(EPX_MECHS), *acc_of(), hdr=EP_HDR, log=lvl()))
        for path in list(EPS_PATHS) + [EPS_DEAD]:
            reqs.append(svc_request(svc, path, *acc_of(), log=lvl()))
    # the token endpoint never answers and the context of the call expires (150 ms): the timeout kind
    if not plain:
        reqs.append(svc_request("proxy", "/ctxwait/9001", *acc_of(), tfault="hang", log=lvl(),
                                werr={"t": "send", "auth": True, "deadline": 150}))
    # the token endpoint never answers, the client half-closes: the token request is aborted
    for svc in ("decision", "proxy"):
        reqs.append(svc_request(svc, "/ep/" + rng.choice(EP_MECHS), *acc_of(), hdr=EP_HDR, tfault="hang",
                                hc=rng.choice(HC_DELAYS), log=lvl()))
    return reqs


def gen_timeout_case(rng, tmp, ms=250):
    """a stack whose proxy waits `ms` for the header of the upstream's response (serve.proxy.timeout.read), and calls
    through an authenticating endpoint made with a context that expires after `ms`: the upstream / the token endpoint
    hangs until the timeout"""
    cfg = {"verbose": rng.random() < 0.5, "ov": dict((c, rng.choice(SVC_CODES)) for c in CLASSES)}
    pcfg = {"verbose": rng.random() < 0.5, "ov": dict((c, rng.choice(SVC_CODES)) for c in CLASSES)}

    def acc_of():
        return rng.choice(SVC_ACCEPTS)
    reqs = [svc_request("proxy", "/up/hang", *acc_of(), log="trace"),
            svc_request("proxy", "/up/h103.hang", *acc_of(), log="trace"),
            svc_request("proxy", "/up/" + rng.choice(["c100", "p102", "h103"]) + ".hang", *acc_of(),
                        log=rng.choice(LOG_LEVELS[1:] + [""]))]
    # (not through the proxy of this stack: its read timeout of `ms` cancels the context of the request at about the
    # time the context of the call expires, and which of the two the call reports would be a race; the proxy gets
    # this request in the ordinary stacks, round5_requests)
    for n, svc in enumerate(("decision", "envoy")):
        reqs.append(svc_request(svc, f"/ctxwait/{n}", *acc_of(), tfault="hang", log=rng.choice(LOG_LEVELS + [""]),
                                werr={"t": "send", "auth": True, "deadline": ms}))
    rng.shuffle(reqs)
    return {"fam": "errmap", "op": "svc", "cfg": cfg, "pcfg": pcfg, "realm": "", "rcode": 0, "rcodes": [],
            "ptimeout": ms, "reqs": reqs, "tmp": tmp}


MECH_CODES = [None, 0, 300, 301, 302, 303, 304, 305, 307, 308, 309, 399, 200, 204, 299, 400, 404, 500, 599, 100, 99, 999,
              1000, 1, -1, -302]


def mech_cases():
    """a redirect error handler created from configuration with every interesting code (None: not configured)"""
    out = []
    for code in MECH_CODES:
        for verbose in (False, True):
            c = {"fam": "errmap", "op": "mech", "code": code or 0, "to": "http://login.local/sign-in?next=%2Fa",
                 "cfg": {"verbose": verbose, "ov": dict((x, 0) for x in CLASSES)}, "accept": None,
                 "acc": {"k": "absent"}}
            if code is None:
                c["unset"] = True
            out.append(c)
    return out


if __name__ == "__main__":
    import sys
    print(json.dumps(extract(sys.argv[1]), indent=1))
