"""Generator of cases for family `proxyfwd` (property C15).

A case = service configuration (trusted proxies), the peer address the client connects from, the rule's
`forward_to` / `allow_encoded_slashes`, what the pipeline produces (headers, cookies) and one raw client request.
Byte strings are python strings with one character (< 256) per byte.  Every random choice comes from the rng handed in.
"""

TRUSTED = [None, ["127.0.0.2"], ["127.0.1.0/24", "127.0.0.3"], ["127.0.0.0/8"]]
PEERS = ["127.0.0.1", "127.0.0.2", "127.0.0.3", "127.0.1.7", "127.0.2.1"]

UNRESERVED = "abcdefghijklmnopqrstuvwxyzABCDEFGHIJKLMNOPQRSTUVWXYZ0123456789-._~"
PLAIN = "abcdefgxyzABZ0189-._~"
SUBDELIMS = "!$&'()*+,;=:@[]"
INVALID_RAW = "\"<>^`{|}\\"
HEX = "0123456789abcdefABCDEF"

QUERY_NAMES = ["a", "b", "id", "secret", "access_token", "x y", "k&v", "q", "p+q", "e=f", "100%", ""]
STRIP_NAMES = ["secret", "access_token", "a", "x y", "k&v", "nope", "id", "p+q", "e=f", "100%", ""]

METHODS = ["GET"] * 8 + ["POST"] * 5 + ["PUT", "DELETE", "PATCH", "HEAD", "OPTIONS", "PURGE", "get", "Post",
                                         "M-SEARCH", "X!#$%&'*+-.^_`|~9"]
FWD_METHODS = ["GET", "POST", "PATCH", "DELETE", "get", "PURGE", "Custom-Tok"]

# hop-by-hop header names (RFC 7230 6.1 / net/http/httputil) a client may send, with plausible values
HOP_NAMES = {"Keep-Alive": ["timeout=5, max=100"], "Proxy-Authorization": ["Basic dXNlcjpwdw=="],
             "Proxy-Connection": ["keep-alive"], "Proxy-Authenticate": ["Basic realm=x"],
             "Te": ["trailers", "gzip", "trailers, deflate;q=0.5", "TRAILERS"], "Upgrade": ["websocket", "h2c"]}

CLIENT_NAMES = ["X-User", "X-Request-Id", "Authorization", "X-Api-Key", "Accept", "X_Forwarded_Uri", "Cookie",
                "X-Forwarded-Foo", "Range"]
FWD_NAMES = ["X-Forwarded-For", "Forwarded", "X-Forwarded-Proto", "X-Forwarded-Host", "X-Forwarded-Uri",
             "X-Forwarded-Path", "X-Forwarded-Method"]
PIPE_NAMES = ["X-User", "X-Request-Id", "Authorization", "X-Api-Key", "X-Id-Token", "X-Groups", "Accept",
              "User-Agent", "Accept-Encoding", "Cookie", "Content-Type", "Content-Length", "Keep-Alive",
              "Proxy-Authorization"]
VALUE_CHARS = "abcdefghijklmnopqrstuvwxyzABCDEFGHIJKLMNOPQRSTUVWXYZ0123456789-._~:/=,; @()[]<>!?*+%&|"
IPS = ["1.2.3.4", "10.0.0.1", "192.168.7.9", "203.0.113.5", "2001:db8::1"]


def pct(rng, ch):
    h = "%02X" % ord(ch)
    if rng.random() < 0.35:
        h = h.lower()
    return "%" + h


def rand_case(rng, s):
    r = rng.random()
    if r < 0.3:
        return s
    if r < 0.5:
        return s.lower()
    if r < 0.65:
        return s.upper()
    return "".join(c.upper() if rng.random() < 0.5 else c.lower() for c in s)


def gen_segment(rng, weird):
    n = rng.choice([0, 1, 1, 2, 2, 3, 4, 6])
    out = []
    for _ in range(n):
        r = rng.random()
        if r < 0.50:
            out.append(rng.choice(PLAIN))
        elif r < 0.60:
            out.append(rng.choice(SUBDELIMS))
        elif r < 0.72:
            out.append(pct(rng, rng.choice(UNRESERVED)))               # needlessly encoded
        elif r < 0.80:
            out.append(rng.choice(["%2F", "%2f"]))                     # encoded slash
        elif r < 0.90:
            out.append(pct(rng, rng.choice(" %?#\"<>[]{}|\\^`+&=;:@/\x00\x7f")))
        elif r < 0.95:
            out.append(pct(rng, chr(rng.randrange(128, 256))))
        elif weird and r < 0.975:
            out.append(rng.choice(INVALID_RAW))                         # raw octet Go re-encodes
        elif weird:
            out.append(chr(rng.randrange(128, 256)))                    # raw high octet
        else:
            out.append(rng.choice(PLAIN))
    return "".join(out)


def gen_path(rng, base=None, malformed=False):
    weird = rng.random() < 0.3
    segs = []
    if base is not None and rng.random() < 0.8:
        p = base
    else:
        p = ""
    for _ in range(rng.choice([0, 1, 1, 2, 2, 3, 4])):
        s = gen_segment(rng, weird)
        if rng.random() < 0.05:
            s = rng.choice([".", "..", ""])
        segs.append(s)
    p += "/" + "/".join(segs) if segs or not p else ""
    if rng.random() < 0.1:
        p += "/"
    if malformed:
        i = rng.randrange(1, len(p) + 1)
        p = p[:i] + rng.choice(["%zz", "%4", "%", "%g1", "%1g"]) + (p[i:] if rng.random() < 0.7 else "")
        if p.endswith("%4") or p.endswith("%"):
            pass
    return p


def enc_q(rng, s):
    out = []
    for ch in s:
        r = rng.random()
        if ch == " ":
            out.append("+" if r < 0.5 else "%20")
        elif ch in "&=+%#;" or ord(ch) < 33 or ord(ch) > 126:
            out.append(pct(rng, ch))
        elif r < 0.15:
            out.append(pct(rng, ch))
        else:
            out.append(ch)
    return "".join(out)


def gen_query(rng):
    pairs = []
    for _ in range(rng.choice([1, 1, 2, 2, 3, 4, 5])):
        r = rng.random()
        if r < 0.06:
            pairs.append(rng.choice(["%zz=1", "a=%", "x;y=1", "%=", "b=%4", "s;secret=1"]))   # ParseQuery rejects these
        elif r < 0.10:
            pairs.append("")
        else:
            k = enc_q(rng, rng.choice(QUERY_NAMES))
            v = enc_q(rng, rng.choice(["1", "", "v w", "a=b", "x&y", "100%", "\xe4", "long-value_0.9~"]))
            rr = rng.random()
            pairs.append(k if rr < 0.1 else k + "=" + v)
    return "&".join(pairs)


def gen_target(rng, base=None, malformed=False):
    p = gen_path(rng, base, malformed)
    r = rng.random()
    if r < 0.35:
        return p
    if r < 0.38:
        return p + "?"
    return p + "?" + gen_query(rng)


def gen_value(rng):
    n = rng.choice([1, 2, 4, 8, 12])
    v = "".join(rng.choice(VALUE_CHARS) for _ in range(n)).strip()
    v = v.replace("{{", "{ {")
    return v or "v"


TOKEN_CHARS = set("abcdefghijklmnopqrstuvwxyzABCDEFGHIJKLMNOPQRSTUVWXYZ0123456789!#$%&'*+-.^_`|~")


def canonical_key(name):
    """textproto.CanonicalMIMEHeaderKey (as `canonicalKey` of Model/ProxyFwd.lean)"""
    if not name or any(ch not in TOKEN_CHARS for ch in name):
        return name
    out, up = [], True
    for ch in name:
        out.append(ch.upper() if up else ch.lower())
        up = ch == "-"
    return "".join(out)


BLANKS = [" ", "  ", "\t", " \t "]
GROUP_ITEMS = ["admin", "dev", "ops", "a", "b-1", "x y"]


def odd_value(rng, v):
    """now and then: the empty value, a value of blanks only, a value with blanks around it"""
    r = rng.random()
    if r < 0.10:
        return ""
    if r < 0.15:
        return rng.choice(BLANKS)
    if r < 0.20:
        return rng.choice(["", " ", "\t"]) + v + rng.choice([" ", "  ", "\t", " \t"])
    return v


class Templates:
    """Template sources for the REAL header / cookie finalizers, written so that it is known what they render to.

    The subject (id, attributes) the scripted authenticator creates is built along the way.  `render(v)` returns a
    template that renders to `v`; `any_render(...)` may choose the value itself (a joined list attribute, what the
    client sent under some header name, the empty string for something that is absent)."""

    def __init__(self, rng, client_headers):
        self.rng = rng
        self.attrs = {}
        self.sid = None
        self.client = client_headers

    def _key(self, v):
        k = "a%d" % len(self.attrs)
        self.attrs[k] = v
        return k

    def render(self, v):
        rng = self.rng
        forms = ["attr", "attr", "with", "trim"]
        if v and "{{" not in v:
            forms += ["const", "const"]
        if v == "":
            forms += ["missing-with", "missing-with", "default", "empty-list", "not-sent", "string"]
        if self.sid is None:
            forms.append("id")
        f = rng.choice(forms)
        if f == "const":
            return v
        if f == "attr":
            return "{{ .Subject.Attributes.%s }}" % self._key(v)
        if f == "with":
            return "{{ with .Subject.Attributes.%s }}{{ . }}{{ end }}" % self._key(v)
        if f == "trim":
            return "  {{- .Subject.Attributes.%s -}}\t " % self._key(v)
        if f == "missing-with":
            return "{{ with .Subject.Attributes.%s }}{{ . }}{{ end }}" % rng.choice(["role", "missing", "email"])
        if f == "default":
            return '{{ .Subject.Attributes.%s | default "" }}' % rng.choice(["role", "missing"])
        if f == "empty-list":
            return '{{ join "," .Subject.Attributes.%s }}' % self._key([])
        if f == "not-sent":
            return '{{ .Request.Header "%s" }}' % rand_case(rng, "X-Not-Sent")
        if f == "string":
            return '{{ "" }}'
        self.sid = v
        return "{{ .Subject.ID }}"

    def any_render(self, v):
        """-> (template, rendered value)"""
        rng = self.rng
        r = rng.random()
        if r < 0.10:
            items = rng.sample(GROUP_ITEMS, rng.choice([0, 1, 2, 3]))
            if rng.random() < 0.5:
                return '{{ join "," .Subject.Attributes.%s }}' % self._key(items), ",".join(items)
            return ("{{ range .Subject.Attributes.%s }}{{ . }} {{ end }}" % self._key(items),
                    "".join(i + " " for i in items))
        if r < 0.22 and self.client:
            # what the client sent under a name (all lines joined), in any casing of the name
            n = rng.choice(self.client)[0]
            vals = [h[1] for h in self.client if canonical_key(h[0]) == canonical_key(n)]
            return '{{ .Request.Header "%s" }}' % rand_case(rng, n), ",".join(vals)
        return self.render(v), v

    def subject(self):
        return {"id": self.sid if self.sid is not None else "anonymous", "attrs": self.attrs}


def strip_candidates(rng, rawpath):
    """prefixes that do / do not match, some cutting through an escape"""
    c = ["/api", "/api/v1", "/"]
    for _ in range(3):
        i = rng.randrange(0, len(rawpath) + 1)
        c.append(rawpath[:i])
    c.append(rawpath)
    for _ in range(2):                      # occurs in the path, but not at its start
        i = rng.randrange(0, len(rawpath) + 1)
        j = rng.randrange(i, len(rawpath) + 1)
        c.append(rawpath[i:j])
    return [x for x in c if x]


ADD_PREFIXES = ["/up", "/up/v2", "/a%2Fb", "/x%20y", "/p!", "/q(1)", "/t%7e", "up", "/b d", "/100%", "/café".encode("utf-8").decode("latin-1")]


def gen_case(rng, flavour=None):
    """flavour: None (mixed) | 'url' | 'headers' | 'reject'"""
    trusted = rng.choice(TRUSTED)
    peer = rng.choice(PEERS)
    tls = rng.random() < 0.25
    base = rng.choice([None, "/api", "/api/v1", "/files"])
    malformed = (flavour == "reject" and rng.random() < 0.5) or rng.random() < 0.02
    target = gen_target(rng, base, malformed)
    rawpath = target.split("?", 1)[0]

    slashes = rng.choice(["off"] * 4 + ["no_decode"] * 4 + ["on"] * 3 + [""])
    rewrite = None
    if rng.random() < 0.7:
        rewrite = {"scheme": "", "strip": "", "add": "", "strip_q": []}
        if rng.random() < 0.3:
            rewrite["scheme"] = rng.choice(["https"] * 5 + ["http"] * 3 + ["ftp", "HTTPS"])
        if rng.random() < 0.55:
            rewrite["strip"] = rng.choice(strip_candidates(rng, rawpath))
        if rng.random() < 0.45:
            r = rng.random()
            rewrite["add"] = rng.choice(ADD_PREFIXES[:7]) if r < 0.9 else rng.choice(ADD_PREFIXES[7:])
        if rng.random() < 0.5:
            rewrite["strip_q"] = rng.sample(STRIP_NAMES, rng.choice([1, 1, 2, 3]))
            if "?" not in target and rng.random() < 0.5:
                target += "?"
            if rng.random() < 0.35:
                # listed names several times, in several spellings, between other parameters
                extra = []
                for _ in range(rng.choice([2, 3, 4])):
                    extra.append(enc_q(rng, rng.choice(rewrite["strip_q"])) + rng.choice(["=1", "=admin", "", "="]))
                    if rng.random() < 0.5:
                        extra.append(enc_q(rng, rng.choice(["page", "keep", "q"])) + "=2")
                sep = "" if target.endswith("?") else ("&" if "?" in target else "?")
                target += sep + "&".join(extra)
        # the rule-set document is JSON text: configuration strings are kept ASCII
        if any(ord(ch) > 126 or ord(ch) < 32 for ch in rewrite["strip"] + rewrite["add"]):
            rewrite["strip"] = "/api"
            rewrite["add"] = ""
        if not (rewrite["scheme"] or rewrite["strip"] or rewrite["add"] or rewrite["strip_q"]):
            rewrite = None
    rule = {"slashes": slashes, "host": rng.choice(["ip", "ip", "name"]), "rewrite": rewrite}

    # client headers
    headers = []
    if rng.random() < 0.93:
        headers.append([rand_case(rng, "User-Agent"), rng.choice(["verif/1.0", "curl/8.5.0", "Mozilla/5.0 (X11)"])])
    if rng.random() < 0.85:
        headers.append([rand_case(rng, "Accept-Encoding"), rng.choice(["identity", "gzip, br", "deflate"])])
    for _ in range(rng.choice([0, 1, 1, 2, 3, 4])):
        n = rng.choice(CLIENT_NAMES)
        if n == "Cookie":
            v = rng.choice(["a=b", "sid=abc123; theme=dark", "session=evil"])
        elif n == "Range":
            v = "bytes=0-9"
        else:
            v = gen_value(rng)
        headers.append([rand_case(rng, n), v])
    nf = rng.choice([0, 0, 0, 1, 1, 2, 3, 4]) if flavour != "headers" else rng.choice([1, 2, 3, 4, 5])
    for _ in range(nf):
        n = rng.choice(FWD_NAMES)
        if n == "X-Forwarded-For":
            v = ", ".join(rng.sample(IPS, rng.choice([1, 1, 2])))
        elif n == "Forwarded":
            v = rng.choice(["for=1.2.3.4", "for=1.2.3.4;proto=https;host=a.example", "for=\"[2001:db8::1]\", for=10.0.0.1"])
        elif n == "X-Forwarded-Proto":
            v = rng.choice(["https", "https", "http", "ftp"])
        elif n == "X-Forwarded-Host":
            v = rng.choice(["public.example.com", "evil.example:8443", "DECOY"])
        elif n == "X-Forwarded-Uri":
            v = gen_target(rng, base, rng.random() < 0.05)
            if v.startswith("//") or "#" in v:
                v = "/fwd" + v.replace("#", "")
        elif n == "X-Forwarded-Path":
            v = gen_path(rng)
        else:
            v = rng.choice(FWD_METHODS)
        headers.append([rand_case(rng, n), v])
    for _ in range(rng.choice([0, 0, 0, 0, 1, 1, 2])):                 # hop-by-hop headers
        n = rng.choice(sorted(HOP_NAMES))
        headers.append([rand_case(rng, n), rng.choice(HOP_NAMES[n])])
    rng.shuffle(headers)

    # pipeline
    scripted = rng.random() < 0.5
    pheaders = []
    tmpl = []
    fin = []
    # request headers a template may read (forwarding headers depend on the trust in the peer: left alone)
    readable = [h for h in headers if canonical_key(h[0]) not in FWD_NAMES and '"' not in h[0]]
    T = Templates(rng, readable)
    client_names = [h[0] for h in headers if h[0].lower() not in ("range", "te", "upgrade", "proxy-connection",
                                                                  "proxy-authenticate")]
    for _ in range(rng.choice([0, 1, 1, 2, 2, 3, 4])):
        r = rng.random()
        if r < 0.45 and client_names:
            n = rand_case(rng, rng.choice(client_names))            # collides with what the client sent
        elif r < 0.55:
            n = rand_case(rng, "Host")
        elif r < 0.67:
            n = rand_case(rng, rng.choice(FWD_NAMES))
        elif r < 0.75 and pheaders:
            n = rand_case(rng, pheaders[-1][0])                     # the pipeline produces a name twice
        else:
            n = rand_case(rng, rng.choice(PIPE_NAMES))
        v = gen_value(rng)
        fixed = True
        if n.lower() == "host":
            # a Host of blanks is outside the modelled space (net/http writes an empty Host line)
            v = rng.choice(["internal.svc", "internal.svc:8080", "public.example.com", "DECOY", ""])
        elif n.lower() == "content-length":
            v = rng.choice(["0", "5", "12345"])
        elif n.lower() == "cookie":
            v = odd_value(rng, rng.choice(["pipe=1", "session=good; x=y"]))
        else:
            v = odd_value(rng, v)
            fixed = False
        if not scripted:
            # a real header finalizer renders the value from a template over the subject / the request
            if fixed or "DECOY" in v:
                t = T.render(v)
            else:
                t, v = T.any_render(v)
            tmpl.append(t)
            # several headers of one finalizer (a Go map): only names that differ as header names
            if fin and rng.random() < 0.3 and all(canonical_key(pheaders[j][0]) != canonical_key(n)
                                                  for j in range(len(fin)) if fin[j] == fin[-1]):
                fin.append(fin[-1])
            else:
                fin.append(fin[-1] + 1 if fin else 0)
        pheaders.append([n, v])
    if rng.random() < 0.2:
        # the client declares headers hop-by-hop: its own ones, some the pipeline produces, standard tokens
        pool = [h[0] for h in headers] + [h[0] for h in pheaders] + ["keep-alive", "close", "X-Not-Sent", "upgrade", "TE"]
        toks = [rand_case(rng, rng.choice(pool)) for _ in range(rng.choice([1, 1, 2, 3]))]
        sep = rng.choice([", ", ",", " , "])
        headers.insert(rng.randrange(0, len(headers) + 1), [rand_case(rng, "Connection"), sep.join(toks)])
        if rng.random() < 0.3:
            headers.append([rand_case(rng, "connection"), rand_case(rng, rng.choice(pool))])
    cookies = []
    ctmpl = []
    for _ in range(rng.choice([0, 0, 0, 1, 1, 2])):
        n = rng.choice(["session", "sid", "jwt", "theme"])
        if any(c[0] == n for c in cookies) and not scripted:
            continue
        # empty values, values net/http puts between quotes (blank, comma)
        v = rng.choice(["good", "abc-123", "eyJhbGciOi.x.y", "good", "abc-123", "", "", " ", "a b", "x,y"])
        if not scripted:
            if rng.random() < 0.15:
                items = rng.sample(GROUP_ITEMS, rng.choice([0, 1, 2]))
                ctmpl.append('{{ join "," .Subject.Attributes.%s }}' % T._key(items))
                v = ",".join(items)
            else:
                ctmpl.append(T.render(v))
        cookies.append([n, v])
    pipe = {"headers": pheaders, "cookies": cookies, "read_body": rng.random() < 0.3, "scripted": scripted}
    if not scripted:
        pipe.update({"tmpl": tmpl, "ctmpl": ctmpl, "fin": fin, "subject": T.subject()})

    method = rng.choice(METHODS)
    body = ""
    if (method not in ("GET", "HEAD", "OPTIONS") and rng.random() < 0.8) or (method == "GET" and rng.random() < 0.08):
        n = rng.choice([1, 5, 11, 40, 200, 200, 5000, 70000] if rng.random() < 0.1 else [1, 5, 11, 40, 200])
        if rng.random() < 0.5:
            body = "".join(chr(rng.randrange(0, 256)) for _ in range(n))
        else:
            body = ('{"k": "%s"}' % ("v" * n))
    chunked = bool(body) and rng.random() < 0.3
    if body and rng.random() < 0.5:
        headers.append(["Content-Type", rng.choice(["application/json", "application/octet-stream",
                                                    "application/x-www-form-urlencoded"])])
    if body and not chunked and rng.random() < 0.04:
        headers.append(["Expect", "100-continue"])
    req = {"method": method, "target": target,
           "host": rng.choice(["example.com", "example.com", "svc.local:8080", "public.example.com", "", "DECOY"])
           if rng.random() > 0.01 else rng.choice(["a,for=6.6.6.6;x", "h;proto=https", "x,y"]),
           "headers": headers, "body": body, "chunked": chunked}
    return {"fam": "proxyfwd", "trusted": trusted, "tls": tls, "peer": peer, "rule": rule, "pipe": pipe, "req": req}


def small_scope_cases():
    """every escape %XX (both hex cases for letters) and every raw octet Go accepts in a request target, as the only
    special unit of a path, under each encoded-slash setting: the whole octet space of 'arbitrary percent-encoding'"""
    cases = []
    for slashes in ("off", "no_decode", "on"):
        for rewrite in (None, {"scheme": "", "strip": "/p", "add": "/q%2F", "strip_q": []}):
            units = []
            for b in range(256):
                units.append("%%%02X" % b)
                if "%02X" % b != "%02x" % b:
                    units.append("%%%02x" % b)
                if b > 32 and b != 127:
                    units.append(chr(b))
            for u in units:
                cases.append({"fam": "proxyfwd", "trusted": None, "tls": False, "peer": "127.0.0.1",
                              "rule": {"slashes": slashes, "host": "ip", "rewrite": rewrite},
                              "pipe": {"headers": [], "cookies": [], "read_body": False, "scripted": True},
                              "req": {"method": "GET", "target": "/p/a" + u + "z", "host": "example.com",
                                      "headers": [["User-Agent", "verif"]], "body": "", "chunked": False}})
    return cases
