"""Generators of the C11 check: configurations of every cache-key function / caching mechanism, the values the key
function reads for them (the model environment, keyed by the Go expressions found by the extractor), single-component
mutations and boundary shifts, and request histories for the caching mechanisms.

A *template* is a list of parts: ("lit", text) | ("sid",) | ("val", key) | ("hdr", name) | ("out", key) | ("auth",)
so that the Go text and the rendered value are both known here (no Go template semantics are re-implemented beyond
these forms)."""
import base64
import copy
import hashlib
import json
import struct

SRV = "http://SRV"
WORDS = ["a", "b", "ab", "ba", "aa", "x", "a,b", "b,a", ",", "", "k1", "k", "1"]
NAMES = ["X-A", "X-B", "X-Ab", "X-C", "X-Tenant"]
COOKIES = ["sid", "ck", "ckb"]
METHODS = ["POST", "GET", "PUT", ""]
DUR = {"10m": 600 * 10 ** 9, "5m": 300 * 10 ** 9, "7m": 420 * 10 ** 9, "1h": 3600 * 10 ** 9}


def hx(b):
    if isinstance(b, str):
        b = b.encode()
    return b.hex()


def le64(n):
    return struct.pack("<Q", n)


def sha(b):
    if isinstance(b, str):
        b = b.encode()
    return hashlib.sha256(b).digest()


# -----------------------------------------------------------------------------------------------------------------
# templates

def tpl_go(parts):
    out = []
    for p in parts:
        if p[0] == "lit":
            out.append(p[1])
        elif p[0] == "sid":
            out.append("{{ .Subject.ID }}")
        elif p[0] == "val":
            out.append("{{ .Values.%s }}" % p[1])
        elif p[0] == "hdr":
            out.append('{{ .Request.Header "%s" }}' % p[1])
        elif p[0] == "out":
            out.append("{{ .Outputs.%s }}" % p[1])
        elif p[0] == "auth":
            out.append("{{ .AuthenticationData }}")
    return "".join(out)


def tpl_render(parts, step, values=None, auth=None):
    out = []
    for p in parts:
        if p[0] == "lit":
            out.append(p[1])
        elif p[0] == "sid":
            out.append(step.get("subject", {}).get("id", "anon"))
        elif p[0] == "val":
            out.append((values or {}).get(p[1], ""))
        elif p[0] == "hdr":
            out.append(header_of(step, p[1]))
        elif p[0] == "out":
            out.append(str(step.get("outputs", {})[p[1]]))
        elif p[0] == "auth":
            out.append(auth or "")
    return "".join(out)


def header_of(step, name):
    for k, v in step.get("headers", {}).items():
        if k.lower() == name.lower():
            return v
    return ""


def gen_tpl(rng, allow, vals=(), outs=(), safe=False):
    """a short template; `allow` says which dynamic parts may occur"""
    parts = []
    for _ in range(rng.choice([1, 1, 2, 3])):
        r = rng.random()
        if r < 0.45 or not allow:
            w = rng.choice(["p", "q", "pq", "lvl1", "lvl2", "lvl3", "-", "z"]) if safe else rng.choice(WORDS + ["lvl2", "lvl3"])
            parts.append(("lit", w))
        else:
            k = rng.choice(allow)
            if k == "val" and vals:
                parts.append(("val", rng.choice(list(vals))))
            elif k == "out" and outs:
                parts.append(("out", rng.choice(list(outs))))
            elif k == "hdr":
                parts.append(("hdr", rng.choice(NAMES[:3])))
            elif k == "sid":
                parts.append(("sid",))
            elif k == "auth":
                parts.append(("auth",))
            else:
                parts.append(("lit", "w"))
    return parts


# -----------------------------------------------------------------------------------------------------------------
# endpoint and authentication strategies

def gen_strategy(rng, valid=False):
    r = rng.random()
    if r < 0.3:
        return None
    if r < 0.55:
        return {"type": "api_key", "in": rng.choice(["header", "cookie"] if valid else ["header", "cookie", "query", "h"]),
                "name": rng.choice(["X-Key", "X-K", "k"]) if valid else rng.choice(WORDS[:9] + ["X-Key"]),
                "value": rng.choice(["v", "vv", "s3"]) if valid else rng.choice(WORDS)}
    if r < 0.8:
        return {"type": "basic_auth", "user": rng.choice(["u", "us", "user"]) if valid else rng.choice(WORDS),
                "password": rng.choice(["p", "er", "pw"]) if valid else rng.choice(WORDS)}
    if valid:
        return {"type": "basic_auth", "user": "u2", "password": "p2"}
    if r < 0.9:
        a = {"type": "http_message_signatures", "label": rng.choice(WORDS), "name": rng.choice(WORDS),
             "key_id": rng.choice(WORDS), "components": [rng.choice(["@method", "@path", "a", "b", "ab", ""])
                                                         for _ in range(rng.choice([1, 2, 3]))]}
        if rng.random() < 0.6:
            a["ttl"] = rng.choice([0, 1, 8, 10 ** 9, 24929, 2 ** 40 + 7])
        return a
    return {"type": "oauth2_client_credentials", "token_url": rng.choice(["http://t/a", "http://t/", "http://t/ab"]),
            "client_id": rng.choice(WORDS), "client_secret": rng.choice(WORDS),
            "scopes": [rng.choice(WORDS[:9]) for _ in range(rng.choice([0, 1, 2, 3]))]}


def strategy_env(a):
    t = a["type"]
    if t == "api_key":
        return "apiKey", {"str": {"in": hx(a["in"]), "name": hx(a["name"]), "value": hx(a["value"])}}
    if t == "basic_auth":
        return "basicAuth", {"str": {"user": hx(a["user"]), "password": hx(a["password"])}}
    if t == "http_message_signatures":
        env = {"str": {"label": hx(a["label"]), "signerName": hx(a["name"]), "keyID": hx(a["key_id"]),
                       "ttlBytes": hx(le64(a["ttl"])) if "ttl" in a else ""},
               "lst": {"components": [hx(c) for c in a["components"]]},
               "has": {}, "num": {}}
        return "httpMessageSignatures", env
    return "clientCredentialsHash", cc_env(a)


def cc_env(a):
    return {"str": {"clientID": hx(a["client_id"]), "clientSecret": hx(a["client_secret"]),
                    "tokenURL": hx(a["token_url"])},
            "lst": {"scopes": [hx(s) for s in a["scopes"]]}}


def gen_endpoint(rng, valid=False, path="/e", tpl_vals=None):
    """valid: acceptable to the mechanism factories (URL validation, known strategies, templates that render)"""
    if valid:
        url = SRV + path + rng.choice(["", "/p", "/pq", "?x=1"])
        hdrs = {}
        for _ in range(rng.choice([0, 1, 2, 3, 4])):
            hdrs[rng.choice(NAMES + ["X-D", "X-E"])] = rng.choice(["1", "2", "12", "v", ""])
        ep = {"url": url, "method": rng.choice(["POST", "POST", "GET", ""]), "headers": hdrs}
    else:
        hdrs = {}
        for _ in range(rng.choice([0, 1, 2, 2, 3, 4])):
            hdrs[rng.choice(WORDS + NAMES)] = rng.choice(WORDS)
        ep = {"url": rng.choice(["http://h/a", "http://h/", "http://h/ab", "u", ""]), "method": rng.choice(METHODS + WORDS[:3]),
              "headers": hdrs}
    a = gen_strategy(rng, valid)
    if a:
        ep["auth"] = a
    if not ep["headers"] and rng.random() < 0.5:
        del ep["headers"]
    return ep


def endpoint_env(ep, srv=SRV, defaults=None, method_default=None):
    """the values Endpoint.Hash reads; `defaults`: headers a mechanism adds when they are not configured"""
    hdrs = {k: (v if isinstance(v, str) else tpl_go(v)) for k, v in (ep.get("headers") or {}).items()}
    for k, v in (defaults or {}).items():
        hdrs.setdefault(k, v)
    method = ep.get("method", "") or (method_default or "")
    env = {"str": {"url": hx(ep["url"].replace(SRV, srv)), "method": hx(method)},
           "map": {"headers": [[hx(k), hx(v)] for k, v in hdrs.items()]},
           "has": {"authStrategy?": "auth" in ep}}
    if "auth" in ep:
        fn, senv = strategy_env(ep["auth"])
        env["sub"] = {"authStrategy": {"fn": fn, "env": senv}}
    return env


def endpoint_conf(ep):
    """mechanism configuration (as decoded YAML) of an endpoint"""
    c = {"url": ep["url"]}
    if ep.get("method"):
        c["method"] = ep["method"]
    if ep.get("headers"):
        c["headers"] = {k: (v if isinstance(v, str) else tpl_go(v)) for k, v in ep["headers"].items()}
    a = ep.get("auth")
    if a:
        conf = {k: v for k, v in a.items() if k != "type"}
        c["auth"] = {"type": a["type"], "config": conf}
    return c


# -----------------------------------------------------------------------------------------------------------------
# plain key functions (stream A)

def gen_subject(rng):
    def val(d):
        r = rng.random()
        if d < 2 and r < 0.25:
            return {rng.choice(["a", "b", "c", "z", "aa"]): val(d + 1) for _ in range(rng.choice([1, 2, 3]))}
        if r < 0.45:
            return rng.choice([0, 1, 7, 42])
        if r < 0.55:
            return [rng.choice(["r1", "r2"]) for _ in range(rng.choice([1, 2]))]
        if r < 0.6:
            return rng.choice([True, False])
        return rng.choice(["v", "w", "vw", "admin", ""])
    attrs = {rng.choice(["a", "b", "c", "d", "e", "ab"]): val(0) for _ in range(rng.choice([0, 1, 2, 3, 4, 5]))}
    return {"id": rng.choice(["u1", "u2", "u", "u12", "anna"]), "attrs": attrs}


LONG = "L" * 300   # a value whose length does not fit one byte


def gen_plain(rng, fn):
    """configuration of a key function that is called directly"""
    cfg = gen_plain0(rng, fn)
    if rng.random() < 0.04:
        keys = [k for k, v in cfg.items() if isinstance(v, str) and k not in ("type", "method", "in")]
        if keys:
            cfg[rng.choice(keys)] = LONG
    return cfg


def gen_plain0(rng, fn):
    if fn == "endpoint":
        return gen_endpoint(rng)
    if fn in ("apiKey", "basicAuth", "httpMessageSignatures"):
        t = {"apiKey": "api_key", "basicAuth": "basic_auth", "httpMessageSignatures": "http_message_signatures"}[fn]
        while True:
            a = gen_strategy(rng)
            if a and a["type"] == t:
                return a
    if fn in ("clientCredentialsHash", "clientCredentialsKey"):
        return {"token_url": rng.choice(["http://t/a", "http://t/", "http://t/ab", "t"]), "client_id": rng.choice(WORDS),
                "client_secret": rng.choice(WORDS), "scopes": [rng.choice(WORDS[:9]) for _ in range(rng.choice([0, 1, 2, 3]))]}
    if fn == "jwtSigner":
        c = {"kid": rng.choice(WORDS + ["kE", "kES256"]), "iss": rng.choice(WORDS + ["heimdall", "ES256b"])}
        if rng.random() < 0.5:
            # the key store changes while the signer lives (the file watcher calls OnChanged), see RELOADS
            c["reloads"] = [rng.choice(RELOADS) for _ in range(rng.choice([1, 2, 3]))]
        return c
    if fn == "subject":
        return gen_subject(rng)
    if fn == "template":
        return {"val": rng.choice(WORDS + ["{{ .Subject.ID }}", "a{{ .Subject.ID }}", "{{ .Values.a }}b"])}
    if fn == "httpCache":
        c = {"method": rng.choice(["GET", "HEAD", "GET"]), "url": "http://h" + rng.choice(["/a", "/aG", "/", "/a?x=1", "/ab"])}
        if rng.random() < 0.6:
            c["authorization"] = rng.choice(["Bearer t", " Bearer t ", "t", "ET", "Basic dTpw"])
        return c
    raise ValueError(fn)


def plain_env(fn, cfg, obs=None, srv=SRV):
    if fn == "endpoint":
        return endpoint_env(cfg, srv)
    if fn in ("apiKey", "basicAuth", "httpMessageSignatures"):
        return strategy_env(cfg)[1]
    if fn in ("clientCredentialsHash", "clientCredentialsKey"):
        return cc_env(cfg)
    if fn == "jwtSigner":
        o = obs or {}
        return {"str": {"keyID": o.get("jwk.KeyID", [""])[0], "algorithm": o.get("jwk.Algorithm", [""])[0],
                        "issuer": hx(cfg["iss"] or "heimdall"),
                        "thumbprint": o.get("jwk.Thumbprint(crypto.SHA256)", [""])[0]}}
    if fn == "subject":
        return {"str": {"json": (obs or {}).get("json.Marshal(s)", [""])[0]}}
    if fn == "template":
        return {"str": {"text": hx(cfg["val"])}}
    if fn == "httpCache":
        auth = cfg.get("authorization", "").strip()
        hdrs = dict(cfg.get("headers") or {})
        if "authorization" in cfg:
            hdrs["Authorization"] = cfg["authorization"]
        return {"str": {"url": hx(cfg["url"]), "method": hx(cfg["method"]),
                        "authorization": hx(auth)},
                "map": {"headers": [[hx(k), hx(v)] for k, v in hdrs.items()]}}
    raise ValueError(fn)


# changes of a watched key store delivered to the living signer: another key under the same key id, the file rewritten
# with the key in force, the key in force before the last change (roll-back; without an earlier key: "same")
RELOADS = ["new", "same", "back"]

PLAIN = ["endpoint", "apiKey", "basicAuth", "httpMessageSignatures", "clientCredentialsHash", "clientCredentialsKey",
         "jwtSigner", "subject", "template", "httpCache"]
MECHS = ["genericAuthenticator", "introspection", "jwtAuthenticator", "remoteAuthorizer", "genericContextualizer",
         "jwtFinalizer"]

# adjacent plain-string components of each function (for boundary shifts): paths into the cfg
ADJ = {
    "endpoint": [(("url",), ("method",))],
    "apiKey": [(("in",), ("name",)), (("name",), ("value",))],
    "basicAuth": [(("user",), ("password",))],
    "httpMessageSignatures": [(("name",), ("key_id",))],
    "clientCredentialsHash": [(("client_id",), ("client_secret",)), (("client_secret",), ("token_url",))],
    "clientCredentialsKey": [(("client_id",), ("client_secret",)), (("client_secret",), ("token_url",))],
    "jwtSigner": [(("kid",), ("iss",))],
}


def mutate_plain(rng, fn, cfg):
    """a configuration differing from cfg in what the key function has to tell apart; returns (cfg2, description) or None"""
    c = copy.deepcopy(cfg)
    r = rng.random()
    if fn == "jwtSigner" and r < 0.45:
        # the living signer is told about a changed key store once more
        more = rng.choice([["new"], ["new"], ["same"], ["new", "back"], ["new", "same"], ["same", "new"]])
        if "new" in (c.get("reloads") or []):
            more = ["new"]      # the keys made on the way are random: only "yet another key" is comparable
        c["reloads"] = list(c.get("reloads") or []) + more
        if "new" in more and more[-1] != "back":
            return c, "key store reloaded with another key under the same key id (" + "+".join(more) + ")"
        return c, "key store reloaded without a change of the key in force (" + "+".join(more) + ")", "same"
    if fn in ADJ and r < 0.45:
        (pa,), (pb,) = rng.choice(ADJ[fn])
        a, b = c[pa], c[pb]
        if a:
            c[pa], c[pb] = a[:-1], a[-1] + b
            return c, f"shift last character of {pa} to the front of {pb}"
        if b:
            c[pa], c[pb] = a + b[0], b[1:]
            return c, f"shift first character of {pb} to the end of {pa}"
        return None
    if fn in ("clientCredentialsHash", "clientCredentialsKey", "httpMessageSignatures") and r < 0.75:
        key = "scopes" if "scopes" in c else "components"
        l = c[key]
        if len(l) >= 2:
            i = rng.randrange(len(l) - 1)
            c[key] = l[:i] + [l[i] + l[i + 1]] + l[i + 2:]
            return c, f"merge two adjacent entries of {key}"
        if len(l) == 1 and len(l[0]) >= 2:
            c[key] = [l[0][:1], l[0][1:]]
            return c, f"split the entry of {key}"
        return None
    if fn == "endpoint" and r < 0.75:
        h = dict(c.get("headers") or {})
        if h:
            k = rng.choice(sorted(h))
            v = h.pop(k)
            if rng.random() < 0.5 and k:
                h[k[:-1]] = k[-1] + v
                what = f"shift last character of header name {k!r} into its value"
            else:
                h[k] = v + "x"
                what = f"change the value of header {k!r}"
            if len(h) != len(c["headers"]):
                return None
            c["headers"] = h
            return c, what
        return None
    if fn == "subject":
        if rng.random() < 0.5:
            c["id"] = c["id"] + "x"
            return c, "other subject id"
        c["attrs"] = dict(c["attrs"], zz="1")
        return c, "additional attribute"
    if fn == "template":
        c["val"] = c["val"] + "x"
        return c, "other template text"
    if fn == "httpCache":
        if rng.random() < 0.5:
            c["url"] = c["url"] + "x"
            return c, "other url"
        c["authorization"] = c.get("authorization", "") + "x"
        return c, "other Authorization header"
    # default: change one string component
    keys = [k for k, v in c.items() if isinstance(v, str) and k != "type"]
    if not keys:
        return None
    k = rng.choice(keys)
    c[k] = c[k] + "x"
    return c, f"change {k}"


# -----------------------------------------------------------------------------------------------------------------
# mechanisms: configuration, rule-level overrides, requests, and the values their key functions read

def jwt_token(kid, iss="issuer-1", sub="u"):
    def b64(o):
        return base64.urlsafe_b64encode(json.dumps(o, separators=(",", ":")).encode()).rstrip(b"=").decode()
    return b64({"alg": "ES256", "kid": kid}) + "." + b64({"iss": iss, "sub": sub}) + "." + \
        base64.urlsafe_b64encode(b"\x01" * 64).rstrip(b"=").decode()


def gen_step(rng, kind, names=(), cookies=()):
    step = {"headers": {}, "cookies": {}, "subject": gen_subject(rng), "outputs": {}}
    for n in list(names) + [rng.choice(NAMES)]:
        if rng.random() < 0.8:
            step["headers"][n] = rng.choice(["1", "2", "12", "t1", ""])
    for c in cookies:
        if rng.random() < 0.8:
            step["cookies"][c] = rng.choice(["c1", "c2", "c12"])
    if rng.random() < 0.5:
        step["outputs"] = {rng.choice(["o1", "o2"]): rng.choice(["ov", "ow"]) for _ in range(rng.choice([1, 2]))}
    if kind in ("genericAuthenticator", "introspection"):
        step["headers"]["X-Token"] = rng.choice(["tokA", "tokB", "tokAB", "tokA~s1", "tokA~s1+s2", "tokB~s2", "tokC~s1+s3",
                                                 "tokA~s1", "tokfail500"])
    if kind == "jwtAuthenticator":
        step["headers"]["X-Token"] = "JWT:%s:%s:%s" % (rng.choice(["k1", "k2", "k12"]), rng.choice(["u1", "u2"]),
                                                      rng.choice(["issuer-1", "issuer-2"]))
    return step


def gen_mech(rng, kind):
    """a mechanism with 0-3 rule-level overrides"""
    mid = rng.choice(["m1", "m", "m12"])
    m = {"kind": kind, "id": mid, "overrides": []}
    if kind == "genericAuthenticator":
        ep = gen_endpoint(rng, True, "/ga")
        m["ep"] = ep
        m["fwd_headers"] = rng.sample(NAMES, rng.choice([0, 1, 2]))
        m["fwd_cookies"] = rng.sample(COOKIES, rng.choice([0, 1, 2]))
        m["payload"] = gen_tpl(rng, ["auth"], safe=True) if rng.random() < 0.6 else None
        m["ttl"] = rng.choice(["10m", "5m"])
        for _ in range(rng.choice([0, 1, 2])):
            m["overrides"].append({"cache_ttl": rng.choice(["7m", "1h", "0s"])})
    elif kind == "introspection":
        ep = gen_endpoint(rng, True, "/intro")
        m["ep"] = ep
        m["ttl"] = rng.choice(["10m", "5m", None])
        # assertions of the mechanism itself: rules using it as is are validated under these
        m["scopes"] = rng.choice([None, ["s1"], ["s1", "s2"], ["s2"]])
        for _ in range(rng.choice([1, 2, 3, 4])):
            r = rng.random()
            if r < 0.6:      # stricter or more lenient assertions than the mechanism's own
                o = {"assertions": {"scopes": rng.choice([["s1"], ["s2"], ["s1", "s2"], ["s3"], ["s1", "s2", "s3"]])}}
                if rng.random() < 0.2:
                    o["cache_ttl"] = rng.choice(["7m", "1h"])
            elif r < 0.8:    # a variant that leaves the assertions (and the key) alone
                o = {"cache_ttl": rng.choice(["7m", "1h", "0s"])}
            else:
                o = {"allow_fallback_on_error": True}
            m["overrides"].append(o)
    elif kind == "jwtAuthenticator":
        ep = gen_endpoint(rng, True, "/jwks")
        ep["method"] = rng.choice(["GET", ""])
        if rng.random() < 0.5:      # one key set per issuer
            ep["url"] = SRV + "/jwks/{{.TokenIssuer}}"
        m["ep"] = ep
        m["ttl"] = rng.choice(["10m", None, "0s"])
        for _ in range(rng.choice([0, 1, 2])):
            m["overrides"].append({"cache_ttl": rng.choice(["7m", "0s", "1h"])})
    elif kind in ("remoteAuthorizer", "genericContextualizer"):
        # what the remote system answers with: JSON, YAML (integers), a form (lists of strings), plain text, nothing
        m["ct"] = rng.choice(["json", "json", "yaml", "form", "text", "empty"])
        ep = gen_endpoint(rng, True, ("/authz" if kind == "remoteAuthorizer" else "/ctx") +
                          ("" if m["ct"] == "json" else "/ct-" + m["ct"]))
        m["ep"] = ep
        vals = {k: gen_tpl(rng, ["sid", "hdr", "out"], outs=["o1"], safe=True) for k in rng.sample(["a", "b", "c", "ab"], rng.choice([0, 1, 2, 3]))}
        m["values"] = vals
        m["payload"] = gen_tpl(rng, ["sid", "val", "hdr"], vals=vals.keys(), safe=True)
        m["ttl"] = rng.choice(["10m", "5m", "10m", "0s"])
        if kind == "remoteAuthorizer":
            m["fwd_resp"] = rng.sample(["X-R1", "X-R2"], rng.choice([0, 1, 2]))
            m["expr"] = rng.choice([None, 1, 2, 2, 3, "mod", "type", "idx"])
        else:
            m["fwd_headers"] = rng.sample(NAMES, rng.choice([0, 1, 2]))
            m["fwd_cookies"] = rng.sample(COOKIES, rng.choice([0, 1, 2]))
        for _ in range(rng.choice([0, 1, 2, 3, 4])):
            o = {}
            r = rng.random()
            if kind == "remoteAuthorizer" and r < 0.15 and (vals or m["fwd_resp"]):
                # a rule-level configuration that changes neither the key nor the expressions
                if vals:
                    o["values"] = copy.deepcopy(vals)
                else:
                    o["forward_response_headers_to_upstream"] = list(m["fwd_resp"])
            elif r < 0.3:
                o["values"] = {rng.choice(["a", "b", "d"]): gen_tpl(rng, ["sid", "hdr"], safe=True)}
            elif r < 0.5:
                o["payload"] = gen_tpl(rng, ["sid", "hdr"], safe=True)
            elif r < 0.6:
                o["cache_ttl"] = rng.choice(["7m", "1h", "0s"])
            elif kind == "remoteAuthorizer":
                o["expr"] = rng.choice([1, 2, 3, "mod", "type", "idx"])
            else:
                o["fwd_headers"] = rng.sample(NAMES, rng.choice([1, 2]))
            m["overrides"].append(o)
    elif kind == "ccFinalizer":
        m["token_url"] = SRV + "/token"
        m["client_id"] = rng.choice(["ab", "a", "c1"])
        m["client_secret"] = rng.choice(["c", "bc", "s"])
        m["scopes"] = [rng.choice(["a", "b", "ab"]) for _ in range(rng.choice([0, 1, 2]))]
        m["ttl"] = rng.choice([None, "10m"])
        for _ in range(rng.choice([1, 2, 3])):
            if rng.random() < 0.75:
                m["overrides"].append({"scopes": [rng.choice(["a", "b", "ab", "c"]) for _ in range(rng.choice([1, 2]))]})
            else:
                m["overrides"].append({"cache_ttl": rng.choice(["7m", "0s"])})
    elif kind == "jwtFinalizer":
        m["iss"] = rng.choice(["iss1", "heimdall", None])
        m["ttl"] = rng.choice(["5m", "10m", None])
        m["claims"] = gen_claims(rng) if rng.random() < 0.7 else None
        for _ in range(rng.choice([0, 1, 2])):
            o = {}
            if rng.random() < 0.6:
                o["claims"] = gen_claims(rng)
            else:
                o["ttl"] = rng.choice(["7m", "1h"])
            m["overrides"].append(o)
    return m


def gen_claims(rng):
    parts = [("lit", '{"c":"')]
    parts += [rng.choice([("sid",), ("lit", "x"), ("lit", "y"), ("out", "o1")])]
    parts += [("lit", '"}')]
    return parts


EXPRS = {"mod": "Payload.level % 2 == 1", "type": "type(Payload.level) == int", "idx": 'Payload.roles[0] == "a"'}


def expr_conf(level):
    """an integer: `level >= n`; otherwise an expression that looks at the type of the payload"""
    if isinstance(level, int):
        return [{"expression": "Payload.level >= %d" % level, "message": "level too low"}]
    return [{"expression": EXPRS[level], "message": "payload not as expected"}]


def mech_conf(m):
    kind = m["kind"]
    if kind == "genericAuthenticator":
        c = {"identity_info_endpoint": endpoint_conf(m["ep"]), "subject": {"id": "sub"},
             "authentication_data_source": [{"header": "X-Token"}], "cache_ttl": m["ttl"]}
        if m["fwd_headers"]:
            c["forward_headers"] = list(m["fwd_headers"])
        if m["fwd_cookies"]:
            c["forward_cookies"] = list(m["fwd_cookies"])
        if m["payload"] is not None:
            c["payload"] = tpl_go(m["payload"])
        return c
    if kind == "introspection":
        c = {"introspection_endpoint": endpoint_conf(m["ep"]), "assertions": {"issuers": ["issuer-1"]},
             "token_source": [{"header": "X-Token"}]}
        if m.get("scopes"):
            c["assertions"]["scopes"] = list(m["scopes"])
        if m["ttl"]:
            c["cache_ttl"] = m["ttl"]
        return c
    if kind == "jwtAuthenticator":
        c = {"jwks_endpoint": endpoint_conf(m["ep"]), "assertions": {"issuers": ["issuer-1", "issuer-2"]},
             "jwt_source": [{"header": "X-Token"}], "validate_jwk": False}
        if m["ttl"]:
            c["cache_ttl"] = m["ttl"]
        return c
    if kind in ("remoteAuthorizer", "genericContextualizer"):
        c = {"endpoint": endpoint_conf(m["ep"]), "payload": tpl_go(m["payload"]), "cache_ttl": m["ttl"]}
        if m["values"]:
            c["values"] = {k: tpl_go(v) for k, v in m["values"].items()}
        if kind == "remoteAuthorizer":
            if m["fwd_resp"]:
                c["forward_response_headers_to_upstream"] = list(m["fwd_resp"])
            if m["expr"]:
                c["expressions"] = expr_conf(m["expr"])
        else:
            if m["fwd_headers"]:
                c["forward_headers"] = list(m["fwd_headers"])
            if m["fwd_cookies"]:
                c["forward_cookies"] = list(m["fwd_cookies"])
        return c
    if kind == "ccFinalizer":
        c = {"token_url": m["token_url"], "client_id": m["client_id"], "client_secret": m["client_secret"]}
        if m["scopes"]:
            c["scopes"] = list(m["scopes"])
        if m["ttl"]:
            c["cache_ttl"] = m["ttl"]
        return c
    if kind == "jwtFinalizer":
        signer = {"key_store": {"path": "KEYFILE"}}
        if m["iss"]:
            signer["name"] = m["iss"]
        c = {"signer": signer}
        if m["ttl"]:
            c["ttl"] = m["ttl"]
        if m["claims"] is not None:
            c["claims"] = tpl_go(m["claims"])
        return c
    raise ValueError(kind)


def override_conf(m, o):
    if not o:
        return None
    c = {}
    for k, v in o.items():
        if k in ("payload", "claims"):
            c[k] = tpl_go(v)
        elif k == "values":
            c[k] = {kk: tpl_go(vv) for kk, vv in v.items()}
        elif k == "expr":
            c["expressions"] = expr_conf(v)
        elif k == "fwd_headers":
            c["forward_headers"] = list(v)
        else:
            c[k] = v
    return c


def effective(m, oi):
    """the mechanism instance in force for override index oi (0 = prototype)"""
    e = copy.deepcopy({k: v for k, v in m.items() if k != "overrides"})
    if oi and oi <= len(m["overrides"]):
        o = m["overrides"][oi - 1]
        for k, v in o.items():
            if k == "values":
                e["values"] = dict(e.get("values") or {}, **v)
            elif k == "cache_ttl":
                e["ttl"] = v
            elif k == "ttl":
                e["ttl"] = v
            elif k == "assertions":
                e["scopes"] = v["scopes"]
            elif k in ("payload", "claims", "expr", "fwd_headers", "scopes"):
                e[k] = v
    return e


def dur_ns(s, default=0):
    if s is None:
        return default
    if s == "0s":
        return 0
    return DUR[s]


def sub_env(obs):
    return {"fn": "subject", "env": {"str": {"json": obs}}}


def mech_env(m, oi, step, srv, obs):
    """values read by the key function of the mechanism for this step, keyed by the normalised Go expressions (see
    Spec/CacheDeps.lean); obs: what the harness observed for the opaque serialisations (subject JSON, outputs JSON,
    signer key)"""
    kind = m["kind"]
    e = effective(m, oi)
    hdr = "fwdHeaderValues"
    ck = "fwdCookieValues"
    if kind == "genericAuthenticator":
        token = header_of(step, "X-Token").strip()
        return {"sub": {"endpoint": {"fn": "endpoint", "env": endpoint_env(m["ep"], srv)}},
                "str": {"id": hx(m["id"]), "credential": hx(token)},
                "lst": {hdr: [hx(header_of(step, n)) for n in m["fwd_headers"]],
                        ck: [hx(step["cookies"].get(n, "")) for n in m["fwd_cookies"]]}}
    if kind in ("introspection", "jwtAuthenticator"):
        if kind == "introspection":
            defaults, md = {"Content-Type": "application/x-www-form-urlencoded", "Accept": "application/json"}, "POST"
            ref = header_of(step, "X-Token").strip()
        else:
            defaults, md = {"Accept": "application/json"}, "GET"
            parts = header_of(step, "X-Token").split(":")
            ref = parts[1]
        url = m["ep"]["url"].replace(SRV, srv)
        if kind == "jwtAuthenticator":
            url = url.replace("{{.TokenIssuer}}", parts[3] if len(parts) > 3 else "issuer-1")
        return {"sub": {"endpoint": {"fn": "endpoint", "env": endpoint_env(m["ep"], srv, defaults, md)}},
                "str": {"id": hx(m["id"]), "url": hx(url), ("token" if kind == "introspection" else "keyID"): hx(ref)}}
    if kind in ("remoteAuthorizer", "genericContextualizer"):
        vals = {k: tpl_render(v, step) for k, v in (e.get("values") or {}).items()}
        payload = tpl_render(e["payload"], step, vals)
        ra = kind == "remoteAuthorizer"
        env = {"sub": {"endpoint": {"fn": "endpoint", "env": endpoint_env(m["ep"], srv)},
                       "subject": sub_env(obs["json.Marshal(s)"])},
               "str": {"id": hx(m["id"]), "payload": hx(payload)},
               "num": {"ttl": dur_ns(e["ttl"])},
               "map": {"values": [[hx(k), hx(v)] for k, v in vals.items()]}, "lst": {}}
        if ra:
            env["lst"]["headersForUpstream"] = [hx(x) for x in m["fwd_resp"]]
        else:
            fh, fc = e["fwd_headers"], m["fwd_cookies"]
            env["lst"]["fwdHeaders"] = [hx(x) for x in fh]
            env["lst"]["fwdCookies"] = [hx(x) for x in fc]
            env["lst"][hdr] = [hx(header_of(step, n)) for n in fh]
            env["lst"][ck] = [hx(step["cookies"].get(n, "")) for n in fc]
        return env
    if kind == "jwtFinalizer":
        lbl = "claims"
        env = {"sub": {"signer": {"fn": "jwtSigner", "env": {"str": {
            "keyID": obs["jwk.KeyID"], "algorithm": obs["jwk.Algorithm"],
            "issuer": hx(m["iss"] or "heimdall"),
            "thumbprint": obs.get("jwk.Thumbprint(crypto.SHA256)", "")}}},
            "subject": sub_env(obs["json.Marshal(s)"])},
            "str": {"outputs": obs["json.Marshal(ctx.Outputs())"]},
            "num": {"ttl": dur_ns(e["ttl"], 300 * 10 ** 9)}, "has": {lbl + "?": e["claims"] is not None}}
        if e["claims"] is not None:
            env["sub"][lbl] = {"fn": "template", "env": {"str": {"text": hx(tpl_go(e["claims"]))}}}
        else:
            env["str"][lbl] = ""
        return env
    if kind == "ccFinalizer":
        return cc_env(dict(token_url=m["token_url"].replace(SRV, srv), client_id=m["client_id"],
                           client_secret=m["client_secret"], scopes=e["scopes"]))
    raise ValueError(kind)


def policy_of(m, oi):
    """identifies the rule-level validation in force"""
    e = effective(m, oi)
    if m["kind"] == "introspection":
        return tuple(e.get("scopes") or ())
    if m["kind"] == "remoteAuthorizer":
        return e.get("expr") or 0
    return 0


def cache_of(m, oi):
    """(enabled, lifetime) of the rule in force"""
    e = effective(m, oi)
    kind = m["kind"]
    if kind == "jwtFinalizer":
        return True, 10 ** 6
    if kind in ("introspection", "jwtAuthenticator", "ccFinalizer"):
        return (False, 0) if e.get("ttl") == "0s" else (True, 10 ** 6)
    ns = dur_ns(e["ttl"])
    return ns > 0, 10 ** 6 if ns > 0 else 0


def gen_history(rng, kind, nsteps=None):
    """a mechanism and a history of requests built from a small pool, so that repetitions, single-component variants and
    rule changes all occur"""
    m = gen_mech(rng, kind)
    names = list(m.get("fwd_headers") or []) + [p[1] for t in list((m.get("values") or {}).values()) + [m.get("payload") or []]
                                                for p in t if p[0] == "hdr"]
    for o in m["overrides"]:
        names += list(o.get("fwd_headers") or [])
    pool = [gen_step(rng, kind, names, m.get("fwd_cookies") or []) for _ in range(rng.choice([1, 2, 2, 3]))]
    for s in pool:
        if "o1" not in s["outputs"]:
            s["outputs"]["o1"] = rng.choice(["ov", "ow"])
    steps = []
    for _ in range(nsteps or rng.choice([3, 4, 5, 6, 8])):
        r = rng.random()
        if steps and r < 0.35:
            s = copy.deepcopy(rng.choice(steps))          # identical request (possibly under another rule)
            s.pop("_mut", None)
        elif steps and r < 0.7:
            s = copy.deepcopy(rng.choice(steps))
            s.pop("_mut", None)
            s = mutate_step(rng, s, kind, names, m.get("fwd_cookies") or [])
        else:
            s = copy.deepcopy(rng.choice(pool))
        s.setdefault("_mut", "repeat" if steps and r < 0.35 else "variant" if steps and r < 0.7 else "pool")
        s["override"] = rng.randrange(len(m["overrides"]) + 1) if rng.random() < 0.7 else s.get("override", 0)
        s.pop("rotate", None)
        s.pop("reload", None)
        if kind == "jwtFinalizer" and steps:
            r = rng.random()
            if r < 0.1:
                s["rotate"] = True      # another key under the same key id, the mechanism is created anew
            elif r < 0.4:
                s["reload"] = rng.choice(["new"] + RELOADS)   # the key store changes, the LIVING signer is told (OnChanged)
        steps.append(s)
    return m, steps


def shift_step(rng, s, names, cookies):
    """move one character across the boundary of two neighbouring inputs of the request (credential, forwarded header
    and cookie values, subject id)"""
    slots = [("h", "X-Token")] + [("h", n) for n in sorted(set(names))] + [("c", c) for c in sorted(set(cookies))] + [("s", "id")]

    def get(sl):
        return s["subject"]["id"] if sl[0] == "s" else s["headers" if sl[0] == "h" else "cookies"].get(sl[1], "")

    def put(sl, v):
        if sl[0] == "s":
            s["subject"] = dict(s["subject"], id=v)
        else:
            s["headers" if sl[0] == "h" else "cookies"][sl[1]] = v
    if len(slots) < 2:
        return s
    i = rng.randrange(len(slots) - 1)
    a, b = slots[i], slots[i + 1]
    va, vb = get(a), get(b)
    if va.startswith("JWT:") or vb.startswith("JWT:"):
        return s
    if va:
        put(a, va[:-1])
        put(b, va[-1] + vb)
    elif vb:
        put(a, va + vb[0])
        put(b, vb[1:])
    return s


def mutate_step(rng, s, kind, names, cookies):
    r = rng.random()
    if rng.random() < 0.12:
        s["_mut"] = "shift"
        return shift_step(rng, s, names, cookies)
    if r < 0.3 and "X-Token" in s["headers"] and kind != "jwtAuthenticator":
        s["headers"]["X-Token"] = s["headers"]["X-Token"] + rng.choice(["x", "~s1", "+s2"])
    elif r < 0.3 and kind == "jwtAuthenticator":
        s["headers"]["X-Token"] = "JWT:%s:%s:%s" % (rng.choice(["k1", "k2", "k12"]), rng.choice(["u1", "u2", "u3"]),
                                                   rng.choice(["issuer-1", "issuer-2"]))
    elif r < 0.4 and len(set(names)) >= 2:
        # the value of one forwarded header moves to another one
        a, b = rng.sample(sorted(set(names)), 2)
        if s["headers"].get(a):
            s["headers"][b] = s["headers"].pop(a)
        else:
            s["headers"][a] = s["headers"].pop(b, "") or "mv"
    elif r < 0.5 and names:
        n = rng.choice(list(names))
        s["headers"][n] = s["headers"].get(n, "") + "x"
    elif r < 0.55 and len(set(cookies)) >= 2:
        a, b = rng.sample(sorted(set(cookies)), 2)
        if s["cookies"].get(a):
            s["cookies"][b] = s["cookies"].pop(a)
        else:
            s["cookies"][a] = s["cookies"].pop(b, "") or "mv"
    elif r < 0.6 and cookies:
        c = rng.choice(list(cookies))
        s["cookies"][c] = s["cookies"].get(c, "") + "x"
    elif r < 0.8:
        s["subject"] = dict(s["subject"], id=s["subject"]["id"] + "x")
    elif r < 0.9:
        s["subject"] = dict(s["subject"], attrs=dict(s["subject"]["attrs"], extra="1"))
    else:
        s["outputs"] = dict(s["outputs"], o1=s["outputs"].get("o1", "") + "x")
    return s


def key_epochs(steps):
    """which key the key store of the jwt finalizer holds at every step (numbered in order of creation): `rotate` and
    `reload: new` put a new key there, `reload: back` the one in force before the last change, `reload: same` none"""
    cur, prev, nxt, out = 0, None, 1, []
    for s in steps:
        if s.get("rotate"):
            prev, cur, nxt = cur, nxt, nxt + 1
        how = s.get("reload")
        if how == "new":
            prev, cur, nxt = cur, nxt, nxt + 1
        elif how == "back" and prev is not None:
            prev, cur = cur, prev
        out.append(cur)
    return out


def harness_steps(steps):
    return [dict({"headers": s["headers"], "cookies": s["cookies"], "subject": s["subject"], "outputs": s.get("outputs", {}),
                  "override": s.get("override", 0)}, **({"rotate": True} if s.get("rotate") else {}),
                 **({"reload": s["reload"]} if s.get("reload") else {})) for s in steps]


def run_case(m, steps, trace=False):
    c = {"fam": "cachekey", "op": "run", "fn": m["kind"], "id": m["id"], "conf": mech_conf(m),
         "overrides": [override_conf(m, o) for o in m["overrides"]], "steps": harness_steps(steps)}
    if trace:
        c["trace"] = True
    return c


def key_case(m, oi, step, reps):
    return {"fam": "cachekey", "op": "key", "fn": m["kind"], "reps": reps,
            "cfg": {"id": m["id"], "conf": mech_conf(m),
                    "override": override_conf(m, m["overrides"][oi - 1]) if oi else None,
                    "step": harness_steps([step])[0]}}


# -----------------------------------------------------------------------------------------------------------------
# probe configurations for binding the extracted writes to the inputs (tools/c11_bind.py): every input of a key function
# has a value of its own, and the two probes of a function differ in every input

def _pstep(n):
    return {"headers": {"X-Token": "tokP%d~s1" % n, "X-A": "ha%d" % n, "X-B": "hb%d%d" % (n, n)},
            "cookies": {"sid": "ca%d" % n, "ck": "cb%d%d" % (n, n)},
            "subject": {"id": "subj%d" % n, "attrs": {"k": "v%d" % n}}, "outputs": {"o1": "out%d" % n}, "override": 0}


def probe_cases():
    """[(harness key case, meta)] — two per key function, in dependency order (nested digests first)"""
    out = []

    def plain(fn, cfg):
        out.append(({"fam": "cachekey", "op": "key", "fn": fn, "reps": 2, "cfg": cfg}, {"fn": fn, "cfg": cfg, "pair": None}))

    def mech(m, step):
        out.append((key_case(m, 0, step, 2), {"fn": m["kind"], "mech": m, "oi": 0, "step": step, "pair": None}))
    plain("apiKey", {"type": "api_key", "in": "header", "name": "nm1", "value": "val01"})
    plain("apiKey", {"type": "api_key", "in": "cookie", "name": "nm22", "value": "v2"})
    plain("basicAuth", {"type": "basic_auth", "user": "usr1", "password": "passw1"})
    plain("basicAuth", {"type": "basic_auth", "user": "us2", "password": "p2"})
    plain("httpMessageSignatures", {"type": "http_message_signatures", "label": "lbl1", "name": "sn1", "key_id": "kid001",
                                    "components": ["@method", "@path"], "ttl": 7})
    plain("httpMessageSignatures", {"type": "http_message_signatures", "label": "l2", "name": "sname2", "key_id": "k2",
                                    "components": ["@status"]})
    for fn in ("clientCredentialsHash", "clientCredentialsKey"):
        plain(fn, {"token_url": "http://t/one", "client_id": "cid1", "client_secret": "secret01", "scopes": ["sa", "sbb"]})
        plain(fn, {"token_url": "http://t/2", "client_id": "c2", "client_secret": "s2", "scopes": ["x"]})
    plain("jwtSigner", {"kid": "kid1", "iss": "issuer1"})
    plain("jwtSigner", {"kid": "kid22", "iss": "is2"})
    plain("subject", {"id": "s1", "attrs": {"a": "b"}})
    plain("subject", {"id": "s22", "attrs": {}})
    plain("template", {"val": "tpl one"})
    plain("template", {"val": "t2"})
    plain("endpoint", {"url": "http://h/one", "method": "PATCH", "headers": {"X-One": "v1", "X-Two": "v22"},
                       "auth": {"type": "basic_auth", "user": "usr1", "password": "pw1"}})
    plain("endpoint", {"url": "http://h/2", "method": "PUT", "headers": {"X-Three": "v3"}})
    plain("httpCache", {"method": "GET", "url": "http://h/x1", "authorization": "Bearer t1"})
    plain("httpCache", {"method": "HEAD", "url": "http://h/xx2", "authorization": "Basic t22"})
    for n in (1, 2):
        ep = {"url": SRV + "/p%d" % n, "method": "POST", "headers": {"X-E%d" % n: "e%d" % n}}
        mech({"kind": "genericAuthenticator", "id": "ga%d" % n, "ep": dict(ep), "fwd_headers": ["X-A", "X-B"][:3 - n],
              "fwd_cookies": ["sid", "ck"][:n], "payload": None, "ttl": "10m", "overrides": []}, _pstep(n))
        mech({"kind": "introspection", "id": "in%d" % n, "ep": dict(ep, url=SRV + "/intro/p%d" % n), "ttl": "10m",
              "overrides": []}, _pstep(n))
        st = _pstep(n)
        st["headers"]["X-Token"] = "JWT:k%d:u%d:issuer-%d" % (n, n, n)
        mech({"kind": "jwtAuthenticator", "id": "jw%d" % n, "ep": dict(ep, url=SRV + "/jwks/p%d" % n, method="GET"),
              "ttl": "10m", "overrides": []}, st)
        mech({"kind": "remoteAuthorizer", "id": "ra%d" % n, "ep": dict(ep, url=SRV + "/authz/p%d" % n),
              "values": {"va%d" % n: [("lit", "x%d" % n)], "vb": [("lit", "y%d%d" % (n, n))]},
              "payload": [("lit", "payload-%d" % n)], "ttl": ["10m", "5m"][n - 1], "fwd_resp": ["X-R1", "X-R2"][:n],
              "expr": None, "overrides": []}, _pstep(n))
        mech({"kind": "genericContextualizer", "id": "gc%d" % n, "ep": dict(ep, url=SRV + "/ctx/p%d" % n),
              "values": {"va%d" % n: [("lit", "x%d" % n)]}, "payload": [("lit", "payload-%d" % n)],
              "ttl": ["10m", "5m"][n - 1], "fwd_headers": ["X-A", "X-B"][:n], "fwd_cookies": ["sid", "ck"][:3 - n],
              "overrides": []}, _pstep(n))
        mech({"kind": "jwtFinalizer", "id": "jf%d" % n, "iss": "iss%d" % n, "ttl": ["5m", "10m"][n - 1],
              "claims": [("lit", '{"c":"%d"}' % n)] if n == 1 else None, "overrides": []}, _pstep(n))
    return out
