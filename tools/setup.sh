#!/bin/sh
# MANIFEST.setup_cmd: build the Lean project (all theorems) and the driver, warm the Go build cache. Offline.
set -e
cd "$(dirname "$0")/.."
export GOFLAGS=-mod=mod GOPROXY=off GOSUMDB=off GOTOOLCHAIN=local
python3 tools/gen_root.py
(cd lean && lake build HeimdallModel driver)
python3 - <<'PY'
import sys, tempfile, shutil
sys.path.insert(0, "tools")
import vlib
tmp = tempfile.mkdtemp(prefix="verif-setup-")
exe, log = vlib.build_harness(tmp)
shutil.rmtree(tmp, ignore_errors=True)
if exe is None:
    print(log)
    sys.exit(1)
print("harness builds")
PY
