"""Generators for routing-tree operation sequences (families trie / repo)."""
import itertools

SEGS = ["a", "b", "ab", "abc", "abd", "ab:c", "a*b", "x", "\\:a", "\\*b", "\\\\c", "a\\:b", ":", "*"]
LITS = ["a", "b", "ab", "abc", "abd", "ab:c", "a*b", "x", "\\:a", "\\*b", "\\\\c", "a\\:b"]
WILDS = [":x", ":y", ":*", ":ab"]
CATCH = ["*r", "**", "*x"]
REQ_SEGS = ["a", "b", "ab", "abc", "abd", "ab:c", "a*b", "x", ":a", "*b", "\\c", "a\\:b", "abcd", "zz", ":x", "**",
            "\\:a", "%2F", "a%2Fb"]


def gen_expr(rng, weird=0.15):
    n = rng.choice([1, 1, 2, 2, 2, 3, 3, 4])
    parts = []
    for i in range(n):
        r = rng.random()
        if r < 0.55:
            parts.append(rng.choice(LITS))
        elif r < 0.85:
            parts.append(rng.choice(WILDS))
        elif i == n - 1:
            parts.append(rng.choice(CATCH))
        else:
            parts.append(rng.choice(LITS))
    e = "/" + "/".join(parts)
    if rng.random() < 0.1:
        e += "/"
    if rng.random() < weird:
        # malformed / unusual expressions
        w = rng.choice(["nolead", "dslash", "midcatch", "empty", "root"])
        if w == "nolead":
            e = e[1:]
        elif w == "dslash":
            e = e.replace("/", "//", 1)
        elif w == "midcatch":
            e = "/" + rng.choice(CATCH) + e
        elif w == "empty":
            e = ""
        else:
            e = "/"
    return e


def instantiate(rng, expr):
    """a request path derived from an expression: hit, near miss, empty segments, trailing slash"""
    segs = expr.split("/")
    out = []
    for s in segs:
        if s.startswith(":"):
            out.append(rng.choice(REQ_SEGS + ["", "v1", "v2"]))
        elif s.startswith("*"):
            k = rng.choice([0, 1, 1, 2, 3])
            out.append("/".join(rng.choice(REQ_SEGS) for _ in range(k)))
        elif s.startswith("\\") and len(s) > 1 and s[1] in ":*\\":
            out.append(s[1:])
        else:
            out.append(s)
    p = "/".join(out)
    r = rng.random()
    if r < 0.12:
        p += "/"
    elif r < 0.2:
        p = p.rstrip("/")
    elif r < 0.3 and out:
        i = rng.randrange(len(out))
        out[i] = rng.choice(REQ_SEGS)
        p = "/".join(out)
    elif r < 0.34:
        p += "/" + rng.choice(REQ_SEGS)
    return p


def wild_names(expr):
    res = []
    for s in expr.split("/"):
        if s.startswith(":") or s.startswith("*"):
            res.append(s[1:])
    return res


def overlap_exprs(rng):
    """expressions derived from one base path, so that several of them match the same request"""
    k = rng.choice([1, 2, 2, 3, 3, 4])
    base = [rng.choice(["a", "b", "ab", "abc"]) for _ in range(k)]
    res = []
    for _ in range(rng.choice([3, 4, 6, 8])):
        cut = rng.choice([k, k, k, max(1, k - 1), max(1, k - 2)])
        parts = []
        for i in range(cut):
            r = rng.random()
            parts.append(base[i] if r < 0.5 else rng.choice(WILDS) if r < 0.9 else rng.choice(LITS))
        if cut < k or rng.random() < 0.15:
            parts.append(rng.choice(CATCH))
        res.append("/" + "/".join(parts))
    return res, base


def gen_trie_case(rng, max_ops=14):
    """operation sequence: batches (add / delete items, applied to a clone, discarded on failure) and finds"""
    ops = []
    live = {}  # id -> (expr, src)
    next_id = 1
    if rng.random() < 0.6:
        exprs, base = overlap_exprs(rng)
        exprs.append("/" + "/".join(base))
    else:
        exprs = [gen_expr(rng) for _ in range(rng.choice([2, 3, 4, 6, 8]))]
    nops = rng.randrange(3, max_ops)
    for _ in range(nops):
        r = rng.random()
        if r < 0.45 or not live:
            items = []
            for _ in range(rng.choice([1, 1, 2, 3, 5])):
                if live and rng.random() < 0.3:
                    vid = rng.choice(sorted(live))
                    e = live[vid][0] if rng.random() < 0.85 else rng.choice(exprs)
                    ids = [vid] if rng.random() < 0.8 else rng.sample(sorted(live), min(len(live), 2))
                    items.append({"k": "del", "p": e, "ids": ids})
                else:
                    e = rng.choice(exprs)
                    src = rng.choice([0, 0, 0, 1, 2])
                    pp = None
                    names = wild_names(e)
                    if names and rng.random() < 0.4:
                        pp = [rng.choice(names + ["zz"]), rng.choice(REQ_SEGS + ["a/b"])]
                    items.append({"k": "add", "p": e, "id": next_id, "src": src, "bt": rng.random() < 0.5, "pp": pp})
                    live[next_id] = (e, src)
                    next_id += 1
            ops.append({"op": "batch", "items": items})
        else:
            e = rng.choice(exprs)
            path = instantiate(rng, e)
            ids = sorted(live)
            k = rng.choice([len(ids), len(ids), max(0, len(ids) - 1), len(ids) // 2, 1, 0])
            acc = sorted(rng.sample(ids, min(k, len(ids))))
            ops.append({"op": "find", "path": path, "acc": acc})
    # always end with a few finds
    for _ in range(3):
        e = rng.choice(exprs)
        ids = sorted(live)
        k = rng.choice([len(ids), max(0, len(ids) - 1), len(ids) // 2])
        ops.append({"op": "find", "path": instantiate(rng, e), "acc": sorted(rng.sample(ids, min(k, len(ids))))})
    return {"fam": "trie", "ops": ops}
