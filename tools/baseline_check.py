#!/usr/bin/env python3
"""Run heimdall's pinned test suite (command of /root/.vp/BASELINE.json) on /repo and compare with the stable baseline."""
import json
import os
import subprocess
import sys

env = dict(os.environ, GOFLAGS="-mod=mod", GOPROXY="off", GOSUMDB="off")
p = subprocess.run(["go", "test", "-json", "-vet=off", "-count=1", "-timeout", "25m", "./..."], cwd="/repo", env=env,
                   capture_output=True, text=True)
base = json.load(open("/root/.vp/BASELINE.json"))
stable = set(base["stable_pass"])
res = {}
for l in p.stdout.splitlines():
    try:
        e = json.loads(l)
    except Exception:
        continue
    if e.get("Action") in ("pass", "fail", "skip") and e.get("Test"):
        res[e["Package"] + "::" + e["Test"]] = e["Action"]
bad = sorted(k for k in stable if res.get(k) != "pass")
print("stable baseline tests:", len(stable), "passing now:", len(stable) - len(bad))
for k in bad[:50]:
    print("  NOT PASSING:", k, res.get(k))
sys.exit(1 if bad else 0)
