#!/usr/bin/env python3
"""Re-evaluate stored seeds against their own property's check (and the siblings recorded in eval.json).
Seeds of one property run one after the other (they share that property's Gen/*.lean files), different properties
side by side.   usage: tools/seed_reeval.py [-j N] <seed name> ..."""
import json
import os
import subprocess
import sys
from concurrent.futures import ThreadPoolExecutor

V = os.path.dirname(os.path.dirname(os.path.abspath(__file__)))


def one_property(names):
    out = []
    for n in names:
        d = os.path.join(V, "seeded", n)
        meta = json.load(open(os.path.join(d, "meta.json")))
        ids = [meta["property"]]
        p = subprocess.run([sys.executable, os.path.join(V, "tools", "seed_eval.py"), d] + ids, capture_output=True, text=True)
        try:
            r = json.loads(p.stdout)
        except Exception:
            out.append((n, "EVAL ERROR " + p.stdout[-300:] + p.stderr[-300:]))
            print(out[-1], flush=True)
            continue
        json.dump(r, open(os.path.join(d, "eval.json"), "w"), indent=1)
        ok = r.get("demo_passes_unpatched") and r.get("demo_fails_patched") and r.get("builds") and not r.get("existing_test_failures")
        line = "%s %s %s" % (n, "valid" if ok else ("STALE" if r.get("stale") else "INVALID"),
                             {k: (v["exit"], (v["lines"] or [""])[0][-160:]) for k, v in r.get("checks", {}).items()})
        out.append((n, line))
        print(line, flush=True)
    return out


def main():
    args = sys.argv[1:]
    j = 4
    if args and args[0] == "-j":
        j = int(args[1])
        args = args[2:]
    groups = {}
    for n in args:
        groups.setdefault(n[:3], []).append(n)
    with ThreadPoolExecutor(j) as ex:
        list(ex.map(one_property, groups.values()))


if __name__ == "__main__":
    main()
