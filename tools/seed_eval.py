#!/usr/bin/env python3
"""Evaluate a seeded defect: tools/seed_eval.py <seed dir> <ID> [<ID> ...]
1. scratch worktree of /repo HEAD, demo passes without the patch, 2. patch applies, builds, demo fails with it,
3. existing tests of the touched packages still pass, 4. run the given checks against the patched worktree."""
import json
import os
import re
import subprocess
import sys

sys.path.insert(0, os.path.dirname(os.path.abspath(__file__)))
import vlib  # noqa: E402


def sh(cmd, cwd=None, env=None, timeout=3000):
    p = subprocess.run(cmd, shell=True, cwd=cwd, env=env, capture_output=True, text=True, timeout=timeout)
    return p.returncode, p.stdout + p.stderr


def main():
    seed = os.path.abspath(sys.argv[1])
    ids = sys.argv[2:]
    wt = "/tmp/wt_seed_" + os.path.basename(os.path.dirname(seed)) + "_" + os.path.basename(seed)
    env = vlib.go_env()
    sh(f"git -C /repo worktree remove --force {wt}")
    rc, out = sh(f"git -C /repo worktree add -f {wt} HEAD")
    res = {"seed": seed}
    try:
        demo = open(os.path.join(seed, "demo_test.go")).read()
        head = demo.split("\npackage ", 1)[0]
        m = re.search(r"\./((?:internal|cmd)/[\w/]+)", head) or re.search(r"((?:internal|cmd)/[\w/]+)", head)
        pkg = m.group(1).rstrip("/,.;")
        test = "|".join(re.findall(r"func (Test\w+)", demo))
        dst = os.path.join(wt, pkg, "zz_seed_demo_test.go")
        open(dst, "w").write(demo)
        rc0, out0 = sh(f"go test -count=1 -run '^({test})$' ./{pkg}/", cwd=wt, env=env)
        res["demo_passes_unpatched"] = rc0 == 0
        rc, out = sh(f"git apply {seed}/patch.diff", cwd=wt)
        if rc != 0:
            # the tree has moved on since the patch was written (fix commits): try a three-way merge
            rc, out = sh(f"git apply -3 {seed}/patch.diff", cwd=wt)
            res["patch_applied_three_way"] = rc == 0
            if rc != 0:
                # stale: written against a tree that fix commits have changed since
                res["patch_applies"] = False
                res["stale"] = True
                res["checks"] = {}
                print(json.dumps(res, indent=1))
                return
        res["patch_applies"] = rc == 0
        rc, out = sh("go build ./...", cwd=wt, env=env)
        res["builds"] = rc == 0
        rc1, out1 = sh(f"go test -count=1 -run '^({test})$' ./{pkg}/", cwd=wt, env=env)
        res["demo_fails_patched"] = rc1 != 0
        os.remove(dst)
        touched = sorted({os.path.dirname(l[6:]) for l in open(os.path.join(seed, "patch.diff")) if l.startswith("+++ b/")})
        pk = " ".join("./" + t + "/..." for t in touched)
        rc, out = sh(f"go test -count=1 {pk} ./internal/rules/ 2>&1 | grep -v '^ok\\|no test files' | grep -c '^--- FAIL' ", cwd=wt, env=env)
        rcb, outb = sh(f"go test -count=1 {pk} ./internal/rules/ 2>&1 | grep '^--- FAIL'", cwd=wt, env=env)
        res["existing_test_failures"] = [l for l in outb.splitlines() if "without_read_permissions" not in l and
                                         "TestProviderLifecycle " not in l and "NotReadable" not in l and "can't_read" not in l
                                         and "TestKoanfFromYaml" not in l and "TestCreateKeyStoreFromPEMFile" not in l]
        res["checks"] = {}
        e2 = dict(os.environ, VERIF_REPO=wt)
        for pid in ids:
            rc, out = sh(f"python3 {vlib.VERIF}/tools/check.py {pid} --tier quick", cwd=vlib.VERIF, env=e2)
            lines = [l for l in out.splitlines() if l.startswith("VIOLATION") or l.startswith("  violation")]
            res["checks"][pid] = {"exit": rc, "lines": [l[:300] for l in lines[:4]]}
    finally:
        sh(f"git -C /repo worktree remove --force {wt}")
        # checks regenerate lean/HeimdallModel/Gen/*.lean from the tree they run against: restore the committed copies
        sh(f"git -C {vlib.VERIF} checkout -- lean/HeimdallModel/Gen")
    print(json.dumps(res, indent=1))


if __name__ == "__main__":
    main()
