"""C03 side of the tie by translated source: the route matchers (compositeMatcher / anyOfMatcher / schemeMatcher /
methodMatcher / hostMatcher / pathParamMatcher .Matches) are translated from the current source on every run
(extract/go2lean, cmd/matchers, Gen/MatcherSrc.lean) and proved to decide what `routeMatches` of the model decides, for any
number of hosts and path parameters (Props/C03Src.lean). Shared machinery: tools/go2lean_tie.py; called from
tools/props/c03.py."""
import go2lean_tie as tie

TIE = tie.Tie(
    cmd="matchers", gen_module="HeimdallModel.Gen.MatcherSrc", stub_namespace="Heimdall.Matcher.Src",
    what="the route matchers",
    trusted="Go -> Lean translator extract/go2lean (go/ast, fails closed outside its subset; regenerates "
            "Gen/MatcherSrc.lean from the whole bodies of the Matches methods of internal/rules/route_matcher.go on every "
            "run): trusted to keep the meaning of the statements it translates; its tables (cmd/matchers/main.go) say "
            "which expressions are atoms (len(s) != 0, string(s) != request.URL.Scheme, slices.Contains(m, "
            "request.Method), slices.Index(keys, m.name), values[idx], the encoded-slash tests, unescape, the typed "
            "matcher's match) and that an element's Matches is an uninterpreted function")
PROP = tie.Prop("HeimdallModel.Props.C03Src", "Heimdall.Props.C03", always=("HeimdallModel.Model.MatcherSrc",))

ASSUMPTION = (
    "translated source (Gen/MatcherSrc.lean): the elements compositeMatcher / anyOfMatcher range over are opaque (their "
    "Matches is an uninterpreted function which may panic); in the single conditions the string comparisons, "
    "slices.Contains / slices.Index, values[idx], containsEncodedSlash, unescape and the typed matcher are atoms that "
    "Model/MatcherSrc.lean fills in from the model (indexOf, valueAt, containsEncodedSlash, unescapeCapture, TM.matches); "
    "that CreateRule assembles compositeMatcher{scheme, methods, anyOfMatcher(hosts), path params} is checked by the "
    "correspondence run, not by translation")

# evaluated only when a theorem of Props/C03Src.lean no longer checks: where do the translated matchers and the model part?
SEARCH = r"""
import HeimdallModel.Model.MatcherSrc
open Heimdall Heimdall.Matcher.SrcTie

def schemes : List String := ["", "http", "https"]
def methodLists : List (List String) := [[], ["GET"], ["GET", "POST"]]
def hostLists : List (List TM) := [[], [.exact "a"], [.exact "a", .exact "b"], [.exact "b", .exact "a"], [.exact "b", .exact "c", .exact "a"]]
def ppLists : List (List (String × TM)) :=
  [[], [("x", .exact "v")], [("y", .exact "v")], [("x", .exact "v"), ("y", .exact "w")], [("x", .exact "a/b")], [("x", .exact "a%2Fb")]]
def eshs : List SlashHandling := [.off, .on, .noDecode]
def reqs : List ReqView :=
  [ { method := "GET", scheme := "http", host := "a", rawPath := "", path := "/v" },
    { method := "POST", scheme := "https", host := "b", rawPath := "/v%20", path := "/v " },
    { method := "PUT", scheme := "http", host := "c", rawPath := "/a%2Fb", path := "/a/b" },
    { method := "GET", scheme := "https", host := "a", rawPath := "/a%2fb", path := "/a/b" } ]
def capss : List (List String × List String) :=
  [([], []), (["x"], ["v"]), (["x"], ["w"]), (["x", "y"], ["v", "w"]), (["y", "x"], ["v", "v"]), (["x"], ["a%2Fb"]), (["x"], ["a%2fb"])]

def q (s : String) : String := "\"" ++ (s.replace "\n" " ").replace "\"" "'" ++ "\""

def main : IO Unit := do
  let mut n := 0
  for s in schemes do
    for ms in methodLists do
      for hs in hostLists do
        for ps in ppLists do
          for e in eshs do
            for rq in reqs do
              for (keys, caps) in capss do
                let r : RouteM := { scheme := s, methods := ms, hosts := hs, pps := ps, esh := e }
                let src := accepts (routeSrc r rq keys caps)
                let mdl := routeMatches r rq keys caps
                if src != some mdl && n < 20 then
                  n := n + 1
                  IO.println s!"\{\"src\": {q (toString (repr src))}, \"model\": {mdl}, \"route\": {q (toString (repr r))}, \"req\": {q (toString (repr rq))}, \"keys\": {q (toString keys)}, \"caps\": {q (toString caps)}}"
  IO.println s!"\{\"differing\": {n}}"
"""


def step(R):
    res = tie.step(R, TIE, PROP)
    R.lean_src = res
    R.assumptions.append(ASSUMPTION)
    return res


def report(R):
    """after the correspondence run: what a broken tie means (appended behind concrete disagreements, if any)"""
    try:
        _report(R)
    finally:
        tie.restore(TIE)


def _report(R):
    res = R.lean_src
    if res["translate_error"]:
        R.violation("the route matchers can no longer be translated to Lean (extract/go2lean fails closed; the theorems "
                    "c03_src_* of Props/C03Src.lean say nothing about this code): " + res["translate_error"],
                    {"translator": "extract/go2lean cmd/matchers", "error": res["translate_error"],
                     "kind": "src-untranslatable"}, no_input=True)
        return
    if res["ok"]:
        return
    named = tie.named(res)
    payload = {"lean_log": res["log"], "failed": res["failed"], "theorems": res["failed_theorems"], "kind": "src-vs-model"}
    rc, rows, log = tie.run_lean(R, TIE, PROP, "c03src_search.lean", SEARCH)
    if rc is None or rc != 0:
        R.violation("the Lean translation of the route matchers (Gen/MatcherSrc.lean) or its instantiation with the "
                    "model's routes (Model/MatcherSrc.lean) does not compile: " + log[-600:], dict(payload, lean_log=log),
                    no_input=True)
        return
    diff = [r for r in rows if "src" in r]
    R.coverage["src_search"] = {"grid": "3 schemes x 3 method lists x 5 host lists x 6 path-param lists x 3 settings x 4 "
                                        "requests x 7 capture vectors", "points_where_translation_differs_from_model": len(diff)}
    if diff:
        d = diff[0]
        R.violation(f"the translated route matcher decides {d['src']} where the model's routeMatches (the documented "
                    f"behaviour) decides {d['model']} for route {d['route']}, request {d['req']}, names {d['keys']}, "
                    f"values {d['caps']} (theorems that no longer check: {named})", dict(payload, point=d, points=diff),
                    no_input=True)
    else:
        R.violation(f"theorems of Props/C03Src.lean no longer check: {named}; on the search grid the translated matchers "
                    "decide like the model (the proof script does not cover this shape of the code, or the difference "
                    "needs longer lists)", payload, no_input=True)
