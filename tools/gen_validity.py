"""Case generators of property C10 (families c10store / c10mech / c10http). Every random choice comes from the rng
handed in (R.rng), so a run is a function of VERIF_SEED."""

MECHS = ["introspection", "generic", "jwtkey", "clientcreds", "jwtfin", "remote", "contextualizer"]
MECH_WEIGHTS = [5, 3, 4, 4, 2, 1, 1]
LEEWAY = {"introspection": 10, "generic": 10, "jwtkey": 10, "clientcreds": 5, "jwtfin": 5, "remote": 0,
          "contextualizer": 0}
DEFAULT_TTL = {"jwtkey": 600, "contextualizer": 10, "jwtfin": 300}
EXPIRING = ("introspection", "generic", "jwtkey", "clientcreds")

TTL_CHOICES = [None, None, 0, -5, 3, 8, 20, 60, 300, 3600]
FIN_TTL_CHOICES = [None, 2, 5, 6, 8, 30, 300]          # the finalizer validates ttl > 1s
REL_CHOICES = [None, -3000, -30, -11, -10, -9, -5, -1, 0, 1, 4, 5, 6, 9, 10, 11, 12, 15, 20, 60, 300, 3600]
DT_CHOICES = [0, 0, 0, 1, 1, 2, 3, 5, 9, 10, 11, 20, 60, 299, 300, 301, 599, 600, 601, 3600]


def _effective(case):
    ovr = case.get("ovr")
    if ovr is not None and ovr.get("ttl") is not None:
        return ovr["ttl"]
    return case["ttl"]


def _guess_ttl(mech, cfg, rel):
    """rough expectation of the TTL (only used to aim time steps at the boundaries, never as an oracle)"""
    lee = LEEWAY[mech]
    if mech == "jwtfin":
        t = cfg if cfg is not None else 300
        return t - 5
    c = cfg if cfg is not None else DEFAULT_TTL.get(mech, 0)
    if mech in EXPIRING and rel is not None:
        d = rel - lee
        return d if c <= 0 else min(c, d)
    return c


def gen_chain(rng, rel, cfg):
    """remaining lifetimes of the further x5c elements of a JWK (issuing CAs, nearest first; chain length 1..3 in
    total), chosen independently of the key's own certificate: later / earlier than it, inside / outside the leeway,
    around the configured TTL, occasionally already expired"""
    n = rng.choices([0, 1, 2], [4, 3, 3])[0]
    ttl = cfg if cfg is not None and cfg > 0 else 600
    out = []
    for _ in range(n):
        r = rng.random()
        if r < 0.35:
            out.append(rng.choice([9000, 90000, 900000]))                       # long living CA
        elif r < 0.55:
            out.append(rel + rng.choice([-20, -11, -10, -1, 0, 1, 10, 11, 20]))   # around the own certificate
        elif r < 0.75:
            out.append(ttl + 10 + rng.choice([-1, 0, 1, 50]))                     # around now + TTL (+ leeway)
        elif r < 0.9:
            out.append(rng.choice([1, 5, 9, 10, 11, 12, 15, 30]))                 # inside / just outside the leeway
        else:
            out.append(rng.choice([-3000, -5, -1, 0]))                            # an expired CA: key must be refused
    return out


def gen_mech_case(rng, mech=None):
    mech = mech or rng.choices(MECHS, MECH_WEIGHTS)[0]
    store = rng.choices(["virtual", "redis", "memory"], [6, 3, 1])[0]
    fin = mech == "jwtfin"
    case = {"fam": "c10mech", "mech": mech, "store": store,
            "ttl": rng.choice(FIN_TTL_CHOICES if fin else TTL_CHOICES)}
    r = rng.random()
    if r < 0.12:
        case["ovr"] = {}
    elif r < 0.45:
        case["ovr"] = {"ttl": rng.choice([t for t in (FIN_TTL_CHOICES if fin else TTL_CHOICES) if t is not None])}
    if fin and rng.random() < 0.5:
        case["tpl"] = rng.choice(["exp", "exp", "nbf", "both"])
    if mech in ("introspection", "generic") and rng.random() < 0.4:
        case["vl"] = rng.choice([1, 5, 30, 1, 5, 30, 1, 5, 30, -3, -30])   # a negative leeway must be refused
    ninst = 1
    if mech in EXPIRING and rng.random() < 0.25:
        # several instances of the mechanism (rule-level overrides of cache_ttl / validity leeway) share the cache
        case.pop("ovr", None)
        case.pop("vl", None)
        ninst = rng.randint(2, 3)
        insts = []
        for _ in range(ninst):
            inst = {}
            if rng.random() < 0.7:
                inst["ovr"] = {"ttl": rng.choice([t for t in TTL_CHOICES if t is not None])}
            if mech in ("introspection", "generic") and rng.random() < 0.5:
                inst["vl"] = rng.choice([1, 5, 30, 1, 5, 30, 1, 5, 30, 1, 5, 30, 1, 5, 30, -30])
            insts.append(inst)
        case["insts"] = insts
    cfg = _effective(case)
    steps = []
    last = {}      # key -> (time, guessed ttl, rel) of the last request
    now = 0
    for _ in range(rng.randint(2, 8)):
        key = rng.choice([0, 0, 0, 1, 2])
        dt = 0
        if store != "memory":
            dt = rng.choice(DT_CHOICES)
            if key in last and rng.random() < 0.6:
                t0, ttl, rel = last[key]
                cands = [t0 + ttl - 1, t0 + ttl, t0 + ttl + 1]
                if rel is not None:
                    cands += [t0 + rel - 1, t0 + rel, t0 + rel + 1, t0 + rel + case.get("vl", 10)]
                cands = [c - now for c in cands if c - now >= 0]
                if cands:
                    dt = rng.choice(cands)
        now += dt
        step = {"dt": dt, "key": key}
        if ninst > 1:
            step["inst"] = rng.randrange(ninst)
            cfg = _effective(dict(case, **case["insts"][step["inst"]]))
        if mech in EXPIRING:
            rel = rng.choice(REL_CHOICES)
            if cfg is not None and cfg > 0 and rng.random() < 0.25:
                rel = cfg + LEEWAY[mech] + rng.choice([-1, 0, 1])
            if mech == "clientcreds" and rel == 0:
                rel = None        # `expires_in: 0` is "no expiry information" for the token endpoint client
            step["exp"] = rel
            if mech == "jwtkey" and rel is not None:
                chain = gen_chain(rng, rel, cfg)
                if chain:
                    step["chain"] = chain
            last[key] = (now, _guess_ttl(mech, cfg, rel), rel)
        else:
            if fin and case.get("tpl"):
                # values the claims template tries to put into the token itself (relative to now)
                t = cfg if cfg is not None else 300
                step["sexp"] = rng.choice([1, 5, 30, t - 6, t - 1, t + 100, -5])
                step["snbf"] = rng.choice([0, 0, -10, 50])
            last[key] = (now, _guess_ttl(mech, cfg, None), None)
        steps.append(step)
    case["steps"] = steps
    return case


HC_CHOICES = [None, None, {"enabled": True, "dttl": 0}, {"enabled": True, "dttl": 0}, {"enabled": True},
              {"enabled": True, "dttl": 1800}, {"enabled": True, "dttl": 10}, {"enabled": False, "dttl": 50},
              {"enabled": True, "dttl": -5}]


def gen_http_case(rng):
    store = rng.choices(["virtual", "redis", "memory"], [6, 3, 1])[0]
    metadata = rng.random() < 0.2
    if metadata:
        # OAuth2 server metadata resolution: http_cache not configured / default_ttl 0s / omitted / positive /
        # disabled; two or more resolutions in sequence, mostly answered without freshness headers
        case = {"fam": "c10http", "via": "metadata", "store": store}
        hc = rng.choice(HC_CHOICES)
        if hc is not None:
            case["hc"] = dict(hc)
        dflt = 1800 if hc is None else (hc.get("dttl", 0) if hc["enabled"] else 0)
    else:
        case = {"fam": "c10http", "store": store, "dttl": rng.choice([0, 0, -5, 10, 30, 1800]),
                "method": rng.choices(["GET", "HEAD", "POST", "PUT"], [14, 3, 2, 1])[0]}
        if rng.random() < 0.05:
            case["hc"] = {"enabled": False, "dttl": 30}
        dflt = case["dttl"]
    steps = []
    last = {}
    now = 0
    for _ in range(rng.randint(2, 7)):
        key = rng.choice([0, 0, 1])
        dt = 0
        if store != "memory":
            dt = rng.choice([0, 0, 1, 1, 2, 5, 10, 30, 60, 1800])
            if key in last and rng.random() < 0.6:
                t0, life = last[key]
                cands = [c - now for c in (t0 + life - 1, t0 + life, t0 + life + 1) if c - now >= 0]
                if cands:
                    dt = rng.choice(cands)
        now += dt
        resp = {}
        bare = metadata and rng.random() < 0.6          # a metadata document without any freshness header
        ma = None if bare else rng.choice([None, None, None, 0, 1, 5, 60, -5])
        if ma is not None:
            resp["maxage"] = ma
        if not bare:
            if rng.random() < 0.1:
                resp["smaxage"] = 10
            for flag, p in (("no-store", 0.08), ("public", 0.1), ("must-revalidate", 0.05), ("private", 0.05),
                            ("no-cache", 0.07), ("vary", 0.07)):
                if rng.random() < p:
                    resp[flag] = True
            r = rng.random()
            if r < 0.12:
                resp["badexpires"] = True
            elif r < 0.5:
                resp["expires"] = rng.choice([-5, 0, 1, 20, 60])
            if rng.random() < 0.5:
                resp["date"] = rng.choice([0, 0, -5, -50, 5, 20])
            if rng.random() < 0.15:
                resp["age"] = rng.choice([0, 5, 100])
        # Last-Modified (static files): a heuristic lifetime must not be derived from it
        if rng.random() < (0.5 if ma is None else 0.1):
            resp["lastmod"] = rng.choice([-10, -86400, -864000, -31536000, 50])
        st = rng.choice([200, 200, 200, 200, 404, 500, 203]) if not metadata else 200
        if st != 200:
            resp["status"] = st
        step = {"dt": dt, "key": key, "resp": resp}
        if not metadata:
            if rng.random() < 0.1:
                step["auth"] = True
            if rng.random() < 0.05:
                step["reqnostore"] = True
            if rng.random() < 0.05:
                step["body"] = True
            if rng.random() < 0.05:
                step["method"] = rng.choice(["GET", "HEAD", "POST"])
        life = ma if ma is not None and ma >= 0 else None
        if life is None and "expires" in resp:
            life = resp["expires"] - resp.get("date", 0)
        if life is None:
            life = dflt
        life -= max(resp.get("age", 0), -resp.get("date", 0), 0)
        last[key] = (now, life)
        steps.append(step)
    case["steps"] = steps
    return case



def http_grid_cases():
    """HTTP cache: every combination of the freshness headers (max-age, Expires, Date, Age) on the first answer, the
    second request at the instants around the end of every lifetime a (right or wrong) age calculation could come
    to: lifetime minus Age, minus the apparent age (now - Date), minus neither"""
    cases = []
    for ma in (None, 0, 10, 60):
        for ex in (None, 20, 60):
            for date in (None, 0, -50, -120, 20):
                for age in (None, 0, 5, 100):
                    if ma is None and ex is None and (date is not None or age is not None) and (date, age) != (0, 0):
                        continue
                    resp = {}
                    if ma is not None:
                        resp["maxage"] = ma
                    if ex is not None:
                        resp["expires"] = ex
                    if date is not None:
                        resp["date"] = date
                    if age is not None:
                        resp["age"] = age
                    life = ma if ma is not None else (ex - (date or 0) if ex is not None else 30)
                    ends = {life, life - (age or 0), life + (date or 0), life - max(age or 0, -(date or 0), 0)}
                    if ex is not None:
                        ends.add(ex)
                    dts = sorted({d for e in ends for d in (e - 1, e, e + 1) if 0 < d <= 200} | {1})
                    for dt in dts:
                        cases.append({"fam": "c10http", "store": "virtual", "dttl": 30, "method": "GET",
                                      "steps": [{"dt": 0, "key": 0, "resp": dict(resp)},
                                                {"dt": dt, "key": 0, "resp": {"maxage": 60}}]})
    return cases


def gen_store_session(rng, kind):
    ops = []
    adv = 0
    for _ in range(rng.randint(3, 9)):
        r = rng.random()
        k = rng.choice([0, 0, 1])
        if r < 0.4:
            op = {"op": "set", "k": k, "v": rng.randint(1, 99), "ttl": rng.choice([-3, 0, 0, 1, 1, 2, 3, 1000000])}
            if rng.random() < 0.1:
                op["ttl"] = 0
                op["rawns"] = rng.choice([-1, -2])     # ttlcache.NoTTL / PreviousOrDefaultTTL as raw durations
            ops.append(op)
        elif r < 0.8 or adv >= 7:
            ops.append({"op": "get", "k": k})
        else:
            n = rng.choice([1, 1, 2, 3])
            adv += n
            ops.append({"op": "adv", "n": n})
    ops.append({"op": "get", "k": 0})
    return {"ops": ops}


def gen_store_case(rng, kind, sessions=16):
    return {"fam": "c10store", "kind": kind, "sessions": [gen_store_session(rng, kind) for _ in range(sessions)]}


def grid_cases():
    """every mechanism x configured TTL class x remaining lifetime around every boundary: first request stores (or
    not), the second asks again at the instants around the end of the TTL / the expiry"""
    cases = []
    for mech in MECHS:
        fin = mech == "jwtfin"
        ttls = [None, 5, 6, 30] if fin else [None, 0, -5, 8, 300]
        rels = [None] if mech not in EXPIRING else [None, -11, -10, -9, -1, 0, 1, 4, 5, 6, 9, 10, 11, 12, 17, 18, 19,
                                                     400]
        for ttl in ttls:
            for ovr in (None, {"ttl": 0}, {"ttl": 8}) if not fin else (None, {"ttl": 8}):
                for rel in rels:
                    if mech == "clientcreds" and rel == 0:
                        continue
                    base = {"fam": "c10mech", "mech": mech, "store": "virtual", "ttl": ttl}
                    if ovr is not None:
                        base["ovr"] = ovr
                    cfg = _effective(base)
                    g = _guess_ttl(mech, cfg, rel)
                    dts = sorted({d for d in (0, 1, g - 1, g, g + 1, (rel or 0), (rel or 0) + 10) if d >= 0})
                    for dt in dts:
                        c = dict(base)
                        s0 = {"dt": 0, "key": 0}
                        s1 = {"dt": dt, "key": 0}
                        if mech in EXPIRING:
                            s0["exp"] = rel
                            s1["exp"] = 500
                        c["steps"] = [s0, s1]
                        cases.append(c)
                        if mech == "jwtkey" and rel is not None and rel > 0:
                            # the same with x5c chains whose CAs outlive / do not outlive the key's own certificate
                            for chain in ([90000], [90000, 900000], [rel + 11, 90000], [max(rel - 1, 1)],
                                          [12, 90000]):
                                cc = dict(c, steps=[dict(s0, chain=chain), dict(s1, chain=[90000])])
                                cases.append(cc)
    return cases
