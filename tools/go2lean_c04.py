"""C04 side of the tie by translated source: compositeSubjectCreator.Execute is translated from the current source on
every run (extract/go2lean, cmd/composite, Gen/CompositeSrc.lean) and proved equal to the model's `composite` for all
chains of steps (Props/C04Src.lean). Shared machinery: tools/go2lean_tie.py; called from tools/props/c04.py."""
import json

import go2lean_c01
import go2lean_tie as tie
import vlib

TIE = go2lean_c01.TIE
PROP = tie.Prop("HeimdallModel.Props.C04Src", "Heimdall.Props.C04",
                always=("HeimdallModel.Model.AuthnSrc", "Driver.Authn"))

ASSUMPTION = (
    "translated source (Gen/CompositeSrc.lean): an element of the slice compositeSubjectCreator ranges over is opaque - "
    "a.Execute(ctx) is an uninterpreted function of the element (its result: the Go pair (sub, err)), "
    "IsFallbackOnErrorAllowed() a flag, errors.Is(err, heimdall.ErrArgument) the predicate Err.is e .argument; log "
    "statements and accesscontext.SetSubject are dropped. Props/C04Src.lean instantiates the element with a Step of the "
    "model (what the authenticator returned for the request, its fallback setting)")


def step(R):
    """regenerates Gen/CompositeSrc.lean, builds and audits Props/C04Src.lean; evidence is merged into R.coverage"""
    res = tie.step(R, TIE, PROP)
    R.lean_src = res
    R.assumptions.append(ASSUMPTION)
    return res


def report(R, exe, cands, run_pair, verdicts, shrink):
    """called after the correspondence run: says what a broken tie means. cands: cases of the `authn` family (corpus,
    witnesses, small-scope enumeration); `run_pair`, `verdicts`, `shrink` are the helpers of tools/props/c04.py."""
    try:
        _report(R, exe, cands, run_pair, verdicts, shrink)
    finally:
        tie.restore(TIE)


def _report(R, exe, cands, run_pair, verdicts, shrink):
    res = R.lean_src
    if res["translate_error"]:
        R.violation("compositeSubjectCreator.Execute can no longer be translated to Lean (extract/go2lean fails closed; "
                    "the theorems c04_src_* of Props/C04Src.lean say nothing about this code): " + res["translate_error"],
                    {"translator": "extract/go2lean cmd/composite", "error": res["translate_error"],
                     "kind": "src-untranslatable"}, no_input=True)
        return
    if res["ok"]:
        return
    named = tie.named(res)
    payload0 = {"lean_log": res["log"], "failed": res["failed"], "theorems": res["failed_theorems"],
                "kind": "src-vs-model"}
    lines = [json.dumps({k: v for k, v in c.items() if k not in ("tokens", "intro", "ident", "note")}) for c in cands]
    rc, rows, log = tie.run_lean(R, TIE, PROP, "c04src_search.lean", go2lean_c01.programs().C04_PROGRAM,
                                 stdin="\n".join(lines) + "\n")
    if rc is None:
        R.violation("the Lean translation of compositeSubjectCreator.Execute (Gen/CompositeSrc.lean) or its instantiation "
                    "with the model's steps (Model/AuthnSrc.lean) does not compile: " + log[-600:],
                    dict(payload0, lean_log=log), no_input=True)
        return
    rows = [r for r in rows if "error" not in r]
    R.coverage["src_search"] = {"cases_evaluated": len(cands), "requests_on_which_translation_differs_from_model": len(rows)}
    if not rows:
        R.violation(f"theorems of Props/C04Src.lean no longer check: {named}; on the corpus, the witnesses and the "
                    "small-scope enumeration the translated composite agrees with the model (the proof script does not "
                    "cover this shape of the code, or the difference needs a longer chain)", payload0, no_input=True)
        return
    rows.sort(key=lambda r: (len(r["steps"]), r["i"], r["k"]))
    seen, picked = set(), []
    for r in rows:
        if r["i"] not in seen:
            seen.add(r["i"])
            picked.append(r)
        if len(picked) >= 12:
            break
    r0 = rows[0]
    what = (f"translated compositeSubjectCreator.Execute returns {r0['src']} where the model returns {r0['model']} for "
            f"the chain {r0['steps']} (theorems that no longer check: {named})")
    drift = None
    for r in picked:
        c = cands[r["i"]]
        impl, model = run_pair(exe, [c])
        vs = verdicts(c, impl[0], model[0])
        spec = [v for v in vs if v[1] == "impl-vs-spec"]
        if spec:
            k = spec[0][0] if spec[0][0] is not None else r["k"]
            sc, _ = shrink(exe, c, k, "impl-vs-spec")
            si, sm = run_pair(exe, [sc])
            v2 = [v for v in verdicts(sc, si[0], sm[0]) if v[1] == "impl-vs-spec"] or spec
            R.violation("authentication with fallback violates the property: " + v2[0][2] + " - " + what,
                        dict(payload0, case=sc, request=v2[0][0], impl=si[0], model=vlib.res_of(sm[0]),
                             spec=sm[0].get("spec") if isinstance(sm[0], dict) else None, kind="impl-vs-spec"))
            return
        if drift is None and any(v[1] == "impl-vs-model" for v in vs):
            drift = (c, impl[0], model[0])
    if drift:
        c, i, m = drift
        R.violation(what + "; the real code differs from the model on such a chain too, within the specification",
                    dict(payload0, case=c, impl=i, model=vlib.res_of(m), kind="impl-vs-model"), no_input=True)
    else:
        R.violation(what + f"; on the {len(picked)} smallest such cases the real code answers like the model: the "
                    "translation (its abstraction) and the code disagree", dict(payload0, case=cands[r0["i"]]),
                    no_input=True)
