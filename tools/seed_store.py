#!/usr/bin/env python3
"""Store a seeded breaking change that was confirmed with tools/seed_eval.py under seeded/<name>/.

    python3 tools/seed_store.py <source dir> <name, e.g. C14-c> <round> <caught_by text> [<caught_by text> ...]

The source directory holds patch.diff, demo_test.go and meta.json as delivered by the sub-agent that wrote the change.
"""
import json
import os
import shutil
import sys

ROOT = os.path.dirname(os.path.dirname(os.path.abspath(__file__)))


def main():
    src, name, rnd = sys.argv[1], sys.argv[2], int(sys.argv[3])
    caught = sys.argv[4:]
    dst = os.path.join(ROOT, "seeded", name)
    os.makedirs(dst, exist_ok=True)
    for f in os.listdir(src):
        if f.endswith((".diff", ".go", ".json", ".md", ".txt")):
            shutil.copy(os.path.join(src, f), os.path.join(dst, f))
    with open(os.path.join(dst, "meta.json")) as fh:
        meta = json.load(fh)
    meta["round"] = rnd
    meta["confirmed_by_me"] = {
        "how": "tools/seed_eval.py (scratch worktree of /repo HEAD; demo passes unpatched / fails patched; builds; "
               "existing tests of touched packages pass)", "result": "confirmed"}
    meta["caught_by"] = caught
    with open(os.path.join(dst, "meta.json"), "w") as fh:
        json.dump(meta, fh, indent=1)
        fh.write("\n")
    print("stored", dst)


if __name__ == "__main__":
    main()
