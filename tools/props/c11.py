"""C11 — cached results are reused exactly for requests equal in all they depend on."""
import base64
import copy
import json
import os
import re
import subprocess
from collections import Counter

import c11_bind
import gen_cachekey as g
import vlib

PID = "C11"
KNOWN_OUTPUTS = "C11-endpoint-templates-reading-outputs"


# -----------------------------------------------------------------------------------------------------------------
# regeneration of Gen/CacheKeys.lean

UNBOUND = set()   # key functions of the current source whose writes could not be related to their inputs


def extract(R):
    """the module the extractor generates from the current source (labels = Go expressions); returns (text, error)"""
    exe = os.path.join(R.tmp, "cachekey-extract")
    p = subprocess.run(["go", "build", "-o", exe, "."], cwd=os.path.join(vlib.VERIF, "extract", "cachekey"),
                       env=vlib.go_env(), capture_output=True, text=True)
    if p.returncode != 0:
        return None, "extractor does not build: " + p.stderr[-800:]
    p = subprocess.run([exe, "-repo", vlib.REPO], capture_output=True, text=True)
    err = None
    if p.returncode != 0:
        err = "extractor failed closed: " + p.stderr[-800:]
        if p.returncode != 3 or "end Heimdall.Gen.CacheKeys" not in p.stdout:
            return None, err
    return p.stdout, err


def bind_and_write(R, exe, raw):
    """binds the extracted writes to the inputs of the key functions by evaluating the real functions for the probe
    configurations (tools/c11_bind.py) and writes Gen/CacheKeys.lean; returns the names of the unbound functions"""
    fns = c11_bind.parse_gen(raw)
    probes = g.probe_cases()
    impl = vlib.run_cases([exe], [c for c, _ in probes], env=harness_env(R))
    bound, unbound, order = {}, [], []
    for _, me in probes:
        if me["fn"] not in order:
            order.append(me["fn"])
    for fn in order:
        pr = []
        for (c, me), i in zip(probes, impl):
            if me["fn"] != fn:
                continue
            if not isinstance(i, dict) or len(i.get("keys") or []) != 1 or fn not in fns:
                pr = None
                break
            if "mech" in me:
                env = g.mech_env(me["mech"], 0, me["step"], i.get("srv", g.SRV), {k: v[0] for k, v in (i.get("obs") or {}).items()})
            else:
                env = g.plain_env(fn, me["cfg"], i.get("obs"), i.get("srv", g.SRV))
            r = c11_bind.resolve(env, bound)
            if r is None:
                pr = None
                break
            pr.append((r, bytes.fromhex(i["keys"][0])))
        b = c11_bind.bind(fns[fn], pr) if pr else None
        if b is None:
            unbound.append(fn)
        else:
            bound[fn] = b
    text = c11_bind.rewrite(raw, bound)
    path = os.path.join(vlib.LEAN, "HeimdallModel", "Gen", "CacheKeys.lean")
    with vlib.LeanLock():
        old = open(path).read() if os.path.exists(path) else ""
        if old != text:
            with open(path, "w") as fh:
                fh.write(text)
    R.coverage["generated_key_functions"] = text.count(": List Field := [")
    R.coverage["generated_fields"] = len(re.findall(r"^\s+\.(?:raw|fixed|u64|lp|joined|lpList|mapRaw|lpMap|opt|tag) ", text, re.M))
    R.coverage["key_functions_bound_to_inputs"] = len(bound)
    return unbound


def harness_env(R):
    return dict(os.environ, TMPDIR=R.tmp)


# -----------------------------------------------------------------------------------------------------------------
# stream A: key functions

def plain_cases(rng, n):
    """(case, meta) for directly callable key functions; every second case is a mutation of its predecessor"""
    out = []
    for _ in range(n):
        fn = rng.choice(g.PLAIN)
        cfg = g.gen_plain(rng, fn)
        out.append(({"fam": "cachekey", "op": "key", "fn": fn, "reps": 24, "cfg": cfg}, {"fn": fn, "cfg": cfg, "pair": None}))
        mut = g.mutate_plain(rng, fn, cfg)
        if mut:
            cfg2, what = mut[:2]
            # pair "same": the two configurations differ in nothing the key function may tell apart
            out.append(({"fam": "cachekey", "op": "key", "fn": fn, "reps": 24, "cfg": cfg2},
                        {"fn": fn, "cfg": cfg2, "pair": mut[2] if len(mut) > 2 else True, "what": what}))
    return out


def model_key_cases(metas, impl):
    cases = []
    for me, i in zip(metas, impl):
        if not isinstance(i, dict) or "keys" not in i:
            cases.append({"fam": "cachekey", "op": "key", "fn": "template", "env": {}})
            continue
        if "mech" in me:
            obs = {k: v[0] for k, v in (i.get("obs") or {}).items()}
            env = g.mech_env(me["mech"], me["oi"], me["step"], i.get("srv", g.SRV), obs)
        else:
            env = g.plain_env(me["fn"], me["cfg"], i.get("obs"), i.get("srv", g.SRV))
        cases.append({"fam": "cachekey", "op": "key", "fn": me["fn"], "env": env})
    return cases


def check_keys(R, exe, pairs, stats, label):
    """pairs: list of (harness case, meta). Returns list of (kind, what, payload)."""
    cases = [c for c, _ in pairs]
    metas = [m for _, m in pairs]
    impl = vlib.run_cases([exe], cases, env=harness_env(R))
    model = [vlib.res_of(x) for x in vlib.run_cases(vlib.driver_cmd(), model_key_cases(metas, impl))]
    found = []
    for idx, (c, me, i, mo) in enumerate(zip(cases, metas, impl, model)):
        fn = me["fn"]
        stats["key_cases"] += 1
        stats["key_fn:" + fn] += 1
        if not isinstance(i, dict) or "keys" not in i or not isinstance(mo, dict) or "keys" not in mo:
            found.append(("broken", f"{label}: no result for {fn}: impl {json.dumps(i)[:200]} model {json.dumps(mo)[:200]}",
                          {"case": c, "impl": i, "model": mo}))
            continue
        ik, mk = i["keys"], mo["keys"]
        if "mech" in me and not g.cache_of(me["mech"], me["oi"])[0]:
            stats["key_cache_disabled"] += 1
            if ik:
                found.append(("model", f"{fn} looks the cache up although caching is disabled for the rule",
                              {"case": c, "impl": i, "model": mo}))
            continue
        n_entries = max([len(v) for v in (c["cfg"].get("headers") or {},)] + [0]) if fn == "endpoint" else 0
        if n_entries >= 2:
            stats["endpoint_with_2plus_headers"] += 1
        if len(ik) > 1:
            stats["nondeterministic"] += 1
            found.append(("spec", f"{fn}: {len(ik)} different keys for one configuration over {i.get('n')} evaluations "
                                  f"(key derivation depends on map iteration order)", {"case": c, "impl": i, "model": mo}))
        if fn in UNBOUND or (fn == "endpoint" and UNBOUND & {"apiKey", "basicAuth", "httpMessageSignatures", "clientCredentialsHash"}):
            stats["key_cases_of_unbound_functions"] += 1
        elif not ik or not set(ik) <= set(mk):
            found.append(("model", f"{fn}: key of the implementation differs from SHA-256 of the bytes the extracted "
                                   f"field list writes", {"case": c, "impl": i, "model": mo}))
        if fn == "jwtSigner":
            for how in c["cfg"].get("reloads") or []:
                stats["dim:signer_reload_" + how] += 1
        j = idx - 1 if me.get("pair") else None
        if j is not None and me["pair"] == "same" and isinstance(impl[j], dict) and "keys" in impl[j]:
            stats["key_pairs_equal"] += 1
            if set(ik) != set(impl[j]["keys"]):
                found.append(("spec", f"{fn}: the same configuration gets another key ({me['what']}): identical requests "
                                      f"would no longer be answered from the cache",
                              {"case": c, "other": cases[j], "pair": "same", "impl": i, "impl_other": impl[j], "model": mo}))
        elif j is not None and isinstance(impl[j], dict) and "keys" in impl[j]:
            stats["key_pairs"] += 1
            if set(ik) & set(impl[j]["keys"]):
                stats["ambiguous_pairs"] += 1
                found.append(("spec", f"{fn}: two different configurations get the same key ({me['what']})",
                              {"case": c, "other": cases[j], "impl": i, "impl_other": impl[j], "model": mo}))
    return found


def mech_key_cases(rng, n):
    out = []
    for _ in range(n):
        kind = rng.choice(g.MECHS)
        m, steps = g.gen_history(rng, kind, nsteps=1)
        s = steps[0]
        out.append((g.key_case(m, s.get("override", 0), s, 16),
                    {"fn": kind, "mech": m, "oi": s.get("override", 0), "step": s, "pair": None}))
    return out


# -----------------------------------------------------------------------------------------------------------------
# stream B: histories

OUT = {"ok": "ok", "authentication": "rejected", "authorization": "rejected", "internal": "rejected", "communication": "failed"}


def scopes_of(step):
    tok = g.header_of(step, "X-Token")
    return tok.split("~", 1)[1].split("+") if "~" in tok else []


def level_of(m, step):
    e = g.effective(m, step.get("override", 0))
    vals = {k: g.tpl_render(v, step) for k, v in (e.get("values") or {}).items()}
    mm = re.search(r"lvl([0-9])", g.tpl_render(e["payload"], step, vals))
    return int(mm.group(1)) if mm else 0


def accepts(m, pol, step):
    """would the rule-level validation `pol` accept the response computed for the inputs of `step` (predicted from the
    behaviour of the echo server and of the decoders: JSON numbers are floats, YAML integers are integers, form values
    are lists of strings, text is a string, an empty body is no payload at all)"""
    if m["kind"] == "introspection":
        return all(s in scopes_of(step) for s in pol)
    if m["kind"] == "remoteAuthorizer":
        if not pol:
            return True
        ct = m.get("ct", "json")
        lvl = level_of(m, step)
        if isinstance(pol, int):
            return ct in ("json", "yaml") and lvl >= pol
        if pol == "mod":
            return ct == "yaml" and lvl % 2 == 1
        if pol == "type":
            return ct == "yaml"
        if pol == "idx":
            return ct in ("json", "yaml", "form")
    return True


def predicted_failure(m, step):
    """does the echo server answer 500 (it does when it sees `fail500`)"""
    tok = g.header_of(step, "X-Token")
    if m["kind"] == "introspection":
        return "fail500" in tok
    if m["kind"] == "genericAuthenticator":
        return "fail500" in tok and any(p[0] == "auth" for p in (m.get("payload") or []))
    return False


# sources of a key function that a reload replaces while the mechanism lives (Model/CacheReload.lean: the state)
RELOADABLE = {"jwtFinalizer": ["signer"]}


def driver_run_case(m, steps, impl):
    """the history for the Lean driver: requests and reloads. What a reload replaces (the digest of the signer) is not
    part of a step's own values: it is the state, given for the start of the history and with every step at which the
    history changes the key store (`rotate`, `reload`) — there it is what the harness observed right after the change."""
    srv = impl.get("srv", g.SRV)
    pol_ids = {}
    dsteps = []
    state0 = None
    for i, s in enumerate(steps):
        oi = s.get("override", 0)
        obs = impl["on"][i].get("obs") or {}
        env = g.mech_env(m, oi, s, srv, obs)
        state = {"sub": {lbl: env["sub"].pop(lbl) for lbl in RELOADABLE.get(m["kind"], []) if lbl in env.get("sub", {})}}
        pid = pol_ids.setdefault(g.policy_of(m, oi), len(pol_ids))
        en, ttl = g.cache_of(m, oi)
        dsteps.append({"t": i, "env": env, "policy": pid, "enabled": en, "ttl": ttl})
        if i == 0:
            state0 = state
        elif s.get("rotate") or s.get("reload"):
            dsteps[-1]["reload"] = state
    verdicts = [{"policy": pid, "origin": j, "ok": accepts(m, pol, s)} for pol, pid in pol_ids.items()
                for j, s in enumerate(steps)]
    fails = [j for j, s in enumerate(steps) if predicted_failure(m, s)]
    fn = "clientCredentialsKey" if m["kind"] == "ccFinalizer" else m["kind"]
    return {"fam": "cachekey", "op": "run", "fn": fn, "steps": dsteps, "verdicts": verdicts, "fails": fails,
            "state": state0 or {}}


def judge_history(m, steps, impl, mo):
    """returns list of (kind, what). kind: 'spec' (property fails on the real code), 'model' (implementation differs
    from the model), 'oracle' (the check's own prediction of the echo server is inconsistent)"""
    res = []
    on, off = impl["on"], impl["off"]
    kind = m["kind"]
    compare_echo = kind != "jwtAuthenticator"
    # SPEC 1: transparency — cache on == cache off, step by step
    for i, (a, b) in enumerate(zip(on, off)):
        if OUT.get(a["out"], a["out"]) != OUT.get(b["out"], b["out"]):
            res.append(("spec", f"step {i}: decision with cache {a['out']}, without cache {b['out']}"))
        elif a["out"] == "ok" and compare_echo and a["echo"] != b["echo"]:
            res.append(("spec", f"step {i}: served a result computed for other inputs (with cache {a['echo']}, fresh {b['echo']})"))
        elif a["out"] == "ok" and compare_echo and (a.get("typed") != b.get("typed") or a.get("up") != b.get("up")):
            res.append(("spec", f"step {i}: the result differs from a fresh one in its types or forwarded headers "
                                f"(with cache {a.get('typed')} / {a.get('up')}, fresh {b.get('typed')} / {b.get('up')})"))
    # SPEC 2: reuse — an identical request under the same rule after a successful one causes no remote call
    epoch = g.key_epochs(steps)      # which key the key store of the signer holds
    plain = [{k: v for k, v in s.items() if k not in ("rotate", "reload") and not k.startswith("_")} for s in steps]
    if kind == "jwtFinalizer":
        # the check's own bookkeeping of the key store against what the signer publishes (keyholder.Keys())
        tp = [(r.get("obs") or {}).get("jwk.Thumbprint(crypto.SHA256)") for r in on]
        for j in range(len(steps)):
            for i in range(j):
                if (epoch[i] == epoch[j]) != (tp[i] == tp[j]):
                    res.append(("oracle", f"steps {i} and {j}: key store holds key {epoch[i]} / {epoch[j]} but the signer "
                                          f"publishes {'the same key' if tp[i] == tp[j] else 'different keys'}"))
                    break
    for j in range(len(steps)):
        for i in range(j):
            # the earlier identical request was answered (its uncached evaluation succeeds) under a rule that caches
            if plain[i] == plain[j] and epoch[i] == epoch[j] and off[i]["out"] == "ok" and \
                    g.cache_of(m, steps[i].get("override", 0))[0]:
                if g.cache_of(m, steps[j].get("override", 0))[0] and on[j]["calls"] != 0 and kind != "jwtFinalizer":
                    res.append(("spec", f"step {j} repeats step {i} (answered and cached) but called the remote system again"))
                if kind == "jwtFinalizer" and not on[j]["hit"]:
                    res.append(("spec", f"step {j} repeats step {i} but the token was not taken from the cache"))
                break
    if not isinstance(mo, dict) or "model" not in mo:
        res.append(("model", "no model result: " + json.dumps(mo)[:300]))
        return res
    # model vs implementation (not for a key function that could not be related to its inputs)
    bound = kind not in UNBOUND
    classes = mo["classes"]
    ref = {}
    for i, r in enumerate(off):
        if r["out"] == "ok":
            ref.setdefault(classes[i], r["echo"])
            if compare_echo and ref[classes[i]] != r["echo"]:
                res.append(("oracle", f"steps {classes[i]} and {i} read the same values but fresh results differ"))
    for i, (a, mm, sp) in enumerate(zip(on, mo["model"], mo["spec"])):
        io = OUT.get(a["out"], a["out"])
        en = g.cache_of(m, steps[i].get("override", 0))[0]
        if not bound:
            continue
        if en and a["keys"] != [mm["key"]]:
            res.append(("model", f"step {i}: cache looked up under {a['keys']}, model key {mm['key']}"))
        if a["hit"] != mm["hit"] or (kind != "jwtFinalizer" and a["calls"] != mm["calls"]) or io != mm["out"]:
            res.append(("model", f"step {i}: implementation hit={a['hit']} calls={a['calls']} out={io}, "
                                 f"model hit={mm['hit']} calls={mm['calls']} out={mm['out']}"))
        elif io == "ok" and compare_echo and mm["origin"] is not None and ref.get(mm["origin"]) not in (None, a["echo"]):
            res.append(("model", f"step {i}: result {a['echo']} but the model serves the result of step {mm['origin']}"))
        bo = OUT.get(off[i]["out"], off[i]["out"])
        if bo != sp["out"]:
            res.append(("oracle", f"step {i}: uncached decision {bo}, predicted {sp['out']}"))
    # SPEC 3: requests that differ in what a fresh evaluation reads never share a key
    for j in range(len(steps)):
        for i in range(j):
            if classes[i] != classes[j] and set(on[i]["keys"]) & set(on[j]["keys"]):
                res.append(("spec", f"steps {i} and {j} differ in what the remote call depends on but share a cache key"))
    return res


def run_histories(R, exe, hist, stats):
    """hist: list of (mechanism, steps). Returns list of (index, verdicts, impl, model)."""
    cases = [g.run_case(m, steps) for m, steps in hist]
    impl = vlib.run_cases([exe], cases, env=harness_env(R), timeout=900)
    dcases = []
    for (m, steps), i in zip(hist, impl):
        if isinstance(i, dict) and "on" in i:
            dcases.append(driver_run_case(m, steps, i))
        else:
            dcases.append({"fam": "cachekey", "op": "run", "fn": m["kind"], "steps": []})
    model = vlib.run_cases(vlib.driver_cmd(), dcases)
    out = []
    for idx, ((m, steps), i, mo) in enumerate(zip(hist, impl, model)):
        stats["histories"] += 1
        stats["hist:" + m["kind"]] += 1
        if not isinstance(i, dict) or "on" not in i:
            out.append((idx, [("broken", "harness error: " + json.dumps(i)[:300])], i, mo))
            continue
        stats["steps"] += len(steps)
        stats["hits"] += sum(1 for r in i["on"] if r["hit"])
        stats["remote_calls_saved"] += sum(b["calls"] - a["calls"] for a, b in zip(i["on"], i["off"]))
        stats["rejected"] += sum(1 for r in i["off"] if OUT.get(r["out"]) == "rejected")
        stats["failed"] += sum(1 for r in i["off"] if OUT.get(r["out"]) == "failed")
        stats["rule_overrides_used"] += len({s.get("override", 0) for s in steps}) - 1
        # dimensions of the quantifier actually produced
        if "ct" in m:
            stats["dim:response_" + m["ct"]] += 1
        if m["kind"] == "remoteAuthorizer":
            for pol in {g.policy_of(m, s.get("override", 0)) for s in steps}:
                stats["dim:expression_" + ("none" if not pol else "level" if isinstance(pol, int) else str(pol))] += 1
        for s in steps:
            stats["dim:step_" + s.get("_mut", "targeted")] += 1
            if s.get("rotate"):
                stats["dim:key_store_replaced_mechanism_recreated"] += 1
            if s.get("reload"):
                stats["dim:key_store_reload_in_place_" + s["reload"]] += 1
            if not g.cache_of(m, s.get("override", 0))[0]:
                stats["dim:step_under_rule_with_cache_disabled"] += 1
        if "ep" in m:
            stats["dim:endpoint_headers_%d" % min(len(m["ep"].get("headers") or {}), 4)] += 1
        if "values" in m:
            stats["dim:values_%d" % min(len(m["values"]), 4)] += 1
        if m.get("fwd_resp"):
            stats["dim:forwards_response_headers"] += 1
        if g.cache_of(m, 0)[0] is False and any(g.cache_of(m, k + 1)[0] for k in range(len(m["overrides"]))):
            stats["dim:prototype_disabled_override_enabled"] += 1
        mres = vlib.res_of(mo)
        if isinstance(mo, dict) and "stats" in mo:
            stats["model_hits"] += mo["stats"].get("hits", 0)
            stats["model_reloads"] += mo["stats"].get("reloads", 0)
        v = judge_history(m, steps, i, mres)
        if v:
            out.append((idx, v, i, mres))
    return out


def nontrivial_history(m, steps, impl):
    """at least one cache hit and at least two steps that differ (request or rule)"""
    return isinstance(impl, dict) and any(r["hit"] for r in impl.get("on", [])) and \
        any(a != b for a in steps for b in steps)


def shrink_history(R, exe, m, steps, kinds):
    def fails(sub):
        r = run_histories(R, exe, [(m, sub)], Counter())
        return bool(r) and any(k in kinds for k, _ in r[0][1])
    return vlib.ddmin(steps, fails)


# -----------------------------------------------------------------------------------------------------------------
# targeted histories (boundary shifts, policy changes, forwarded values), also used to search for a replay

def base_step(**kw):
    s = {"headers": {"X-Token": "tokA~s1"}, "cookies": {}, "subject": {"id": "u1", "attrs": {"r": "x"}},
         "outputs": {"o1": "ov"}, "override": 0}
    s.update(kw)
    return s


def targeted():
    ep = {"url": g.SRV + "/authz", "method": "POST"}
    hs = []
    # rule-level values shifted across the key/value boundary, visible to the remote system through a header template
    m = {"kind": "remoteAuthorizer", "id": "m1", "ep": dict(ep, headers={"X-V": [("val", "a"), ("lit", "|"), ("val", "ab")]}),
         "values": {}, "payload": [("lit", "p")], "ttl": "10m", "fwd_resp": [], "expr": None,
         "overrides": [{"values": {"a": [("lit", "bc")]}}, {"values": {"ab": [("lit", "c")]}}]}
    hs.append((m, [base_step(override=1), base_step(override=2)]))
    # payload of one rule continues the forwarded-header list of another
    m = {"kind": "genericContextualizer", "id": "m1", "ep": {"url": g.SRV + "/ctx", "method": "POST"}, "values": {},
         "payload": [("lit", "p")], "ttl": "10m", "fwd_headers": ["X-A"], "fwd_cookies": [],
         "overrides": [{"payload": [("lit", "bp")]}, {"fwd_headers": ["X-Ab"]}]}
    hs.append((m, [base_step(override=1, headers={"X-A": "1", "X-Ab": "2"}),
                   base_step(override=2, headers={"X-A": "1", "X-Ab": "2"})]))
    # rule B demands a scope the token does not have; rule A cached the response
    m = {"kind": "introspection", "id": "m1", "ep": {"url": g.SRV + "/intro", "method": "POST"}, "ttl": "10m",
         "overrides": [{"assertions": {"scopes": ["s1"]}}, {"assertions": {"scopes": ["s2"]}}]}
    hs.append((m, [base_step(override=1), base_step(override=2), base_step(override=1)]))
    # rule B demands a higher level than the cached response has
    m = {"kind": "remoteAuthorizer", "id": "m1", "ep": dict(ep), "values": {}, "payload": [("lit", "lvl2")], "ttl": "10m",
         "fwd_resp": [], "expr": 1, "overrides": [{"expr": 3}]}
    hs.append((m, [base_step(override=0), base_step(override=1), base_step(override=0)]))
    # same credential, other forwarded header / cookie
    m = {"kind": "genericAuthenticator", "id": "m1", "ep": {"url": g.SRV + "/ga", "method": "POST"}, "fwd_headers": ["X-Tenant"],
         "fwd_cookies": ["sid"], "payload": None, "ttl": "10m", "overrides": []}
    hs.append((m, [base_step(headers={"X-Token": "tokA", "X-Tenant": "t1"}, cookies={"sid": "c1"}),
                   base_step(headers={"X-Token": "tokA", "X-Tenant": "t2"}, cookies={"sid": "c1"}),
                   base_step(headers={"X-Token": "tokA", "X-Tenant": "t1"}, cookies={"sid": "c2"}),
                   base_step(headers={"X-Token": "tokA", "X-Tenant": "t1"}, cookies={"sid": "c1"})]))
    m = {"kind": "genericContextualizer", "id": "m1", "ep": {"url": g.SRV + "/ctx", "method": "POST"}, "values": {},
         "payload": [("sid",)], "ttl": "10m", "fwd_headers": ["X-Tenant"], "fwd_cookies": ["sid"], "overrides": []}
    hs.append((m, [base_step(headers={"X-Tenant": "t1"}, cookies={"sid": "c1"}),
                   base_step(headers={"X-Tenant": "t2"}, cookies={"sid": "c1"}),
                   base_step(headers={"X-Tenant": "t1"}, cookies={"sid": "c1"})]))
    # many headers and values: identical requests have to hit
    m = {"kind": "remoteAuthorizer", "id": "m1",
         "ep": dict(ep, headers={"X-A": "1", "X-B": "2", "X-C": "3", "X-D": "4"}),
         "values": {"a": [("lit", "1")], "b": [("sid",)], "c": [("lit", "3")]}, "payload": [("val", "a"), ("val", "b")],
         "ttl": "10m", "fwd_resp": [], "expr": None, "overrides": []}
    hs.append((m, [base_step() for _ in range(6)]))
    m = {"kind": "introspection", "id": "m1", "ep": {"url": g.SRV + "/intro"}, "ttl": "10m", "overrides": []}
    hs.append((m, [base_step() for _ in range(6)]))
    return hs


def policy_matrix():
    """One mechanism used by several rules: the prototype as it is (P), a variant whose rule-level configuration leaves
    key and validation alone (N), a variant with more lenient (L) and one with stricter (S) expressions / assertions.
    Every ordered pair of variants, for a response that satisfies only L, L+P(+N), or all of them; the first variant is
    asked again at the end."""
    hs = []
    for lvl in (1, 2, 3):
        m = {"kind": "remoteAuthorizer", "id": "m1", "ep": {"url": g.SRV + "/authz", "method": "POST"},
             "values": {"a": [("lit", "v")]}, "payload": [("lit", "lvl%d" % lvl)], "ttl": "10m", "fwd_resp": [], "expr": 2,
             "overrides": [{"values": {"a": [("lit", "v")]}}, {"expr": 1}, {"expr": 3}]}
        for x in range(4):
            for y in range(4):
                hs.append((m, [base_step(override=x), base_step(override=y), base_step(override=x)]))
    for tok in ("tokA~s1", "tokA~s1+s2", "tokA~s1+s2+s3"):
        for neutral in ({"allow_fallback_on_error": True}, {"cache_ttl": "7m"}):
            m = {"kind": "introspection", "id": "m1", "ep": {"url": g.SRV + "/intro", "method": "POST"}, "ttl": "10m",
                 "scopes": ["s1", "s2"],
                 "overrides": [neutral, {"assertions": {"scopes": ["s1"]}}, {"assertions": {"scopes": ["s1", "s2", "s3"]}}]}
            for x in range(4):
                for y in range(4):
                    hs.append((m, [base_step(override=x, headers={"X-Token": tok}), base_step(override=y, headers={"X-Token": tok}),
                                   base_step(override=x, headers={"X-Token": tok})]))
    return hs


# -----------------------------------------------------------------------------------------------------------------
# client credentials and the HTTP cache (no rule-level configuration: histories of plain requests)

def aux_histories(rng, n):
    out = []
    for _ in range(n):
        if rng.random() < 0.5:
            steps = []
            pool = [{"token_url": g.SRV + "/token", "client_id": rng.choice(["ab", "a", "c1"]),
                     "client_secret": rng.choice(["c", "bc", "s"]),
                     "scopes": [rng.choice(["a", "b", "ab"]) for _ in range(rng.choice([0, 1, 2]))]} for _ in range(2)]
            pool.append({"token_url": g.SRV + "/token", "client_id": "ab", "client_secret": "c", "scopes": ["a", "b"]})
            pool.append({"token_url": g.SRV + "/token", "client_id": "a", "client_secret": "bc", "scopes": ["ab"]})
            for _ in range(rng.choice([3, 4, 6])):
                steps.append({"cc": copy.deepcopy(rng.choice(pool))})
            out.append(("clientCredentialsKey", steps))
        else:
            steps = []
            vary = rng.random() < 0.2
            cred = rng.choice([None, "hdr", "api_header", "api_cookie", "basic", "auth_hdr"])
            for _ in range(rng.choice([3, 4, 6])):
                s = {"url": g.SRV + "/http/" + rng.choice(["a", "b"]) + ("?vary=1" if vary else ""),
                     "method": rng.choice(["GET", "GET", "GET", "POST", ""])}
                if s["method"] != "GET" and rng.random() < 0.8:
                    s["body"] = rng.choice(["token=t1", "token=t2"])
                if vary:
                    s["headers"] = {"X-Tenant": rng.choice(["t1", "t2"])}
                # what identifies the caller travels outside the Authorization header; the server sends no Vary
                v = rng.choice(["good", "bad"])
                if cred == "hdr":
                    s["headers"] = dict(s.get("headers") or {}, **{"X-Api-Key": v, "X-User": rng.choice(["u1", "u2"])})
                elif cred == "api_header":
                    s["auth"] = {"type": "api_key", "in": "header", "name": "X-Key", "value": v}
                elif cred == "api_cookie":
                    s["auth"] = {"type": "api_key", "in": "cookie", "name": "sid", "value": v}
                elif cred == "basic":
                    s["auth"] = {"type": "basic_auth", "user": "u", "password": v}
                elif cred == "auth_hdr":
                    s["headers"] = dict(s.get("headers") or {}, Authorization="Bearer " + v)
                steps.append(s)
            out.append(("httpCache", steps))
    return out


def aux_case(fn, steps):
    return {"fam": "cachekey", "op": "run", "fn": fn, "steps": steps}


def aux_driver_case(fn, steps, impl):
    srv = impl.get("srv", g.SRV)
    dsteps = []
    for i, s in enumerate(steps):
        if fn == "clientCredentialsKey":
            cc = dict(s["cc"], token_url=s["cc"]["token_url"].replace(g.SRV, srv))
            dsteps.append({"t": i, "env": g.cc_env(cc), "policy": 0, "enabled": True, "ttl": 10 ** 6})
        else:
            method = s["method"] or "POST"
            hdrs = wire_headers(s)
            env = g.plain_env("httpCache", {"method": method, "url": s["url"].replace(g.SRV, srv), "headers": hdrs})
            cacheable = method in ("GET", "HEAD") and not s.get("body")
            # the response of the echo server carries max-age only: not storable for a request with Authorization
            storable = "vary=1" not in s["url"] and "Authorization" not in hdrs
            dsteps.append({"t": i, "env": env, "policy": 0, "enabled": cacheable, "ttl": 10 ** 6 if storable else 0})
    return {"fam": "cachekey", "op": "run", "fn": fn, "steps": dsteps, "verdicts": [],
            "fails": [j for j, r in enumerate(impl["off"]) if r["out"] == "communication"]}


def wire_headers(s):
    """the header fields `Endpoint.CreateRequest` and the authentication strategy put on the request"""
    hdrs = dict(s.get("headers") or {})
    a = s.get("auth")
    if a and a["type"] == "api_key" and a["in"] == "header":
        hdrs[a["name"]] = a["value"]
    elif a and a["type"] == "api_key" and a["in"] == "cookie":
        hdrs["Cookie"] = "%s=%s" % (a["name"], a["value"])
    elif a and a["type"] == "basic_auth":
        hdrs["Authorization"] = "Basic " + base64.b64encode(("%s:%s" % (a["user"], a["password"])).encode()).decode()
    return hdrs


def run_aux(R, exe, hist, stats):
    cases = [aux_case(fn, steps) for fn, steps in hist]
    impl = vlib.run_cases([exe], cases, env=harness_env(R), timeout=900)
    dcases = [aux_driver_case(fn, steps, i) if isinstance(i, dict) and "on" in i else aux_case(fn, [])
              for (fn, steps), i in zip(hist, impl)]
    model = vlib.run_cases(vlib.driver_cmd(), dcases)
    out = []
    for idx, ((fn, steps), i, mo) in enumerate(zip(hist, impl, model)):
        stats["histories"] += 1
        stats["hist:" + fn] += 1
        if not isinstance(i, dict) or "on" not in i:
            out.append((idx, [("broken", "harness error: " + json.dumps(i)[:300])], i, mo))
            continue
        stats["steps"] += len(steps)
        stats["hits"] += sum(1 for r in i["on"] if r["hit"])
        if fn == "httpCache":
            for s in steps:
                a = s.get("auth")
                stats["dim:http_credential_" + (a["type"] + "_" + a.get("in", "") if a else
                                                "header" if "X-Api-Key" in (s.get("headers") or {}) else
                                                "authorization" if "Authorization" in (s.get("headers") or {}) else "none")] += 1
        mres = vlib.res_of(mo)
        v = []
        on, off = i["on"], i["off"]
        for k, (a, b) in enumerate(zip(on, off)):
            if a["out"] != b["out"] or (a["out"] == "ok" and a["echo"] != b["echo"]):
                v.append(("spec", f"step {k}: with cache {a['out']}/{a['echo']}, without cache {b['out']}/{b['echo']} "
                                  f"(a response computed for another request was served)"))
        if isinstance(mres, dict) and "model" in mres:
            for k, (a, mm) in enumerate(zip(on, mres["model"])):
                if fn in UNBOUND:
                    break
                if a["hit"] != mm["hit"] or a["calls"] != mm["calls"]:
                    v.append(("model", f"step {k}: implementation hit={a['hit']} calls={a['calls']}, model hit={mm['hit']} "
                                       f"calls={mm['calls']}"))
                elif a["keys"] and a["keys"] != [mm["key"]]:
                    v.append(("model", f"step {k}: cache looked up under {a['keys']}, model key {mm['key']}"))
            cl = mres["classes"]
            for b in range(len(steps)):
                for a in range(b):
                    if cl[a] != cl[b] and set(on[a]["keys"]) & set(on[b]["keys"]):
                        v.append(("spec", f"steps {a} and {b} are different requests but share a cache key"))
        else:
            v.append(("model", "no model result: " + json.dumps(mres)[:300]))
        if v:
            out.append((idx, v, i, mres))
    return out


# -----------------------------------------------------------------------------------------------------------------
# known finding: endpoint url / header templates of the remote authorizer and the generic contextualizer may read
# `.Outputs`, which is not part of the key

def outputs_probe():
    m = {"kind": "remoteAuthorizer", "id": "m1",
         "ep": {"url": g.SRV + "/authz", "method": "POST", "headers": {"X-O": [("out", "o1")]}},
         "values": {}, "payload": [("lit", "p")], "ttl": "10m", "fwd_resp": [], "expr": None, "overrides": []}
    return m, [base_step(outputs={"o1": "ov"}), base_step(outputs={"o1": "ow"})]


# -----------------------------------------------------------------------------------------------------------------

def pick(bad, hist, n):
    """at most two failing histories per mechanism kind and failure class"""
    out, cnt = [], Counter()
    for b in bad:
        kinds = {k for k, _ in b[1]}
        key = (hist[b[0]][0]["kind"], "spec" if "spec" in kinds else sorted(kinds)[0])
        if cnt[key] < 2 and len(out) < n:
            cnt[key] += 1
            out.append(b)
    return out


def load_corpus():
    plain, hist, aux, known = [], [], [], []
    for c in vlib.load_corpus(PID):
        {"key": plain, "history": hist, "aux": aux, "known": known}.get(c.get("kind"), []).append(c)
    return plain, hist, aux, known


def severity(f):
    kind, what, _ = f
    if kind == "spec":
        if "decision with cache" in what:
            return 0
        if "computed for other inputs" in what or "another request" in what:
            return 1
        if "called the remote system again" in what or "not taken from the cache" in what:
            return 2
        if "different keys for one configuration" in what:
            return 3
        return 4
    return {"model": 5, "oracle": 6, "broken": 7}[kind]


def record(R, found, limit=14):
    """found: list of (kind, what, payload)"""
    n = 0
    seen = set()
    for kind, what, payload in sorted(found, key=severity):
        sig = (kind, re.sub(r"[0-9a-f]{16,}|[0-9]+", "#", what)[:70])
        if sig in seen:
            continue
        seen.add(sig)
        n += 1
        if n > limit:
            break
        payload = dict(payload, kind={"spec": "impl-vs-spec", "model": "impl-vs-model", "oracle": "oracle", "broken": "harness"}[kind])
        R.violation(what, payload, no_input=(kind != "spec"))


def run(R):
    stats = Counter()
    raw, gen_err = extract(R)
    exe = vlib.step_harness(R)
    if exe is None:
        R.violation("harness does not build against /repo (API used by the correspondence check changed)",
                    {"build_log": R.harness_log[-3000:]}, no_input=True)
        return
    UNBOUND.clear()
    if raw is not None:
        UNBOUND.update(bind_and_write(R, exe, raw))
    if UNBOUND & {"endpoint", "subject"}:
        UNBOUND.update(g.MECHS)
    if "clientCredentialsKey" in UNBOUND:
        UNBOUND.add("ccFinalizer")
    lean_ok = vlib.step_lean(R, PID)
    quick = R.tier == "quick"
    found = []
    cplain, chist, caux, cknown = load_corpus()

    # stream A
    pairs = []
    for c in cplain:
        a = ({"fam": "cachekey", "op": "key", "fn": c["fn"], "reps": 40, "cfg": c["cfg"]}, {"fn": c["fn"], "cfg": c["cfg"], "pair": None})
        pairs.append(a)
        if "cfg2" in c:
            pairs.append(({"fam": "cachekey", "op": "key", "fn": c["fn"], "reps": 40, "cfg": c["cfg2"]},
                          {"fn": c["fn"], "cfg": c["cfg2"], "pair": True, "what": c.get("what", "corpus pair")}))
    pairs += plain_cases(R.rng, 1200 if quick else 20000)
    found += check_keys(R, exe, pairs, stats, "key functions")
    mk = mech_key_cases(R.rng, 500 if quick else 10000)
    found += check_keys(R, exe, mk, stats, "mechanisms")

    # stream B
    hist = ([(c["mech"], c["steps"]) for c in chist] or targeted()) + policy_matrix()
    n_t = len(hist)
    for _ in range(800 if quick else 18000):
        hist.append(g.gen_history(R.rng, R.rng.choice(g.MECHS + ["remoteAuthorizer", "introspection", "ccFinalizer",
                                                                 "remoteAuthorizer", "genericContextualizer"])))
    bad = run_histories(R, exe, hist, stats)
    for idx, v, impl, mo in pick(bad, hist, 10):
        m, steps = hist[idx]
        kinds = {k for k, _ in v}
        k0 = "spec" if "spec" in kinds else sorted(kinds)[0]
        small = shrink_history(R, exe, m, steps, {k0}) if k0 in ("spec", "model") else steps
        what = next(w for k, w in v if k == k0)
        r2 = run_histories(R, exe, [(m, small)], Counter())
        if r2:
            what = next((w for k, w in r2[0][1] if k == k0), what)
        found.append((k0, f"{m['kind']}: {what}", {"case": {"kind": "history", "mech": m, "steps": small},
                                                    "harness_case": g.run_case(m, small, trace=True),
                                                    "impl": r2[0][2] if r2 else impl, "model": r2[0][3] if r2 else mo,
                                                    "all": [w for _, w in v][:10]}))
    aux = aux_histories(R.rng, 150 if quick else 4000)
    aux = [(c["fn"], c["steps"]) for c in caux] + aux
    for idx, v, impl, mo in run_aux(R, exe, aux, stats)[:6]:
        fn, steps = aux[idx]
        kinds = {k for k, _ in v}
        k0 = "spec" if "spec" in kinds else sorted(kinds)[0]

        def fails(sub, fn=fn, k0=k0):
            r = run_aux(R, exe, [(fn, sub)], Counter())
            return bool(r) and any(k == k0 for k, _ in r[0][1])
        small = vlib.ddmin(steps, fails) if k0 in ("spec", "model") else steps
        found.append((k0, f"{fn}: " + next(w for k, w in v if k == k0),
                      {"case": {"kind": "aux", "fn": fn, "steps": small}, "harness_case": aux_case(fn, small), "impl": impl,
                       "model": mo}))

    # known finding: re-confirmed on every run, never an alarm
    for c in cknown or [dict(zip(("mech", "steps"), outputs_probe()), id=KNOWN_OUTPUTS)]:
        pr = run_histories(R, exe, [(c["mech"], c["steps"])], Counter())
        if pr and any(k == "spec" for k, _ in pr[0][1]):
            R.known_hits[c["id"]] = R.known_hits.get(c["id"], 0) + 1
            stats["known_finding_reproduced"] += 1

    nontriv = set()
    facts = vlib.res_of(vlib.run_cases(vlib.driver_cmd(), [{"fam": "cachekey", "op": "facts"}])[0])
    R.coverage.update({
        "key_users_domain_separated": bool(isinstance(facts, dict) and facts.get("key_users_domain_separated")),
        "cache_sites_enumerated": facts.get("cache_sites") if isinstance(facts, dict) else None,
        "evaluations": stats["key_cases"] + stats["histories"],
        "rule": "key cases: one configuration of a key function (10 directly called functions, 6 mechanisms executed "
                "through their factories with rule-level overrides) evaluated 16-40 times, compared with SHA-256 of the "
                "bytes the extracted field list writes; every second plain case is a single-component mutation or a "
                "boundary shift of its predecessor and must get another key. Histories: 3-8 requests against one real "
                "mechanism (real in-memory cache, echo server on a loopback port) drawn from a small pool so that "
                "repetitions, single-component variants and rule changes occur, executed with the cache on and off and "
                "against the Lean model; non-trivial = the history contains a cache hit and two different requests or "
                "rules, or (key cases) the configuration has >= 2 map entries or is a mutation pair; distinct by hash",
        "samples": [pairs[len(pairs) - 1][0], g.run_case(*hist[n_t]) if len(hist) > n_t else None],
        "corpus_cases": len(cplain) + len(chist) + len(caux) + len(cknown),
        "stats": {k: v for k, v in sorted(stats.items())},
        "exhaustive": False,
    })
    R.assumptions += [
        "SHA-256 is treated as collision free only where a theorem says so explicitly (hypothesis NoCollisionOn / "
        "disjunct naming the colliding byte strings); no axiom is used",
        "the remote system is a function of the request it receives for the duration of a history (the echo server of the "
        "correspondence run is)",
        "mechanism ids are unique among the mechanisms of one kind (a.id stands for the prototype configuration)",
        "what a fresh evaluation reads (Spec/CacheDeps.lean) is hand-written; the history stream checks it against the "
        "real mechanisms (requests differing in one component, cache on versus off)",
        "endpoint url/header templates of the remote authorizer and generic contextualizer that read .Outputs directly are "
        "outside the proved statement (reported finding, see design/C11.md)",
        "time: fresh / accept of the model are time independent and the real-code histories run with a frozen clock (entries "
        "never expire, responses carry a fixed far expiry); that an entry never outlives the validity of what it holds is "
        "property C10 (Props/C10.lean: c10_ttl_le_remaining, c10_reuse_within_validity, c10_authn_not_accepted_after_expiry, "
        "c10_key_not_used_after_cert_expiry, c10_token_not_handed_out_expired, c10_http_served_only_while_fresh); C11 proves "
        "expiry only in its own store model (c11_reuse: hits before t + ttl)",
        "the serialisation used for caching loses nothing (hypothesis Lossless of c11_transparent; counterexample theorem "
        "c11_lossy_cache_changes_decision); validated on the real mechanisms by comparing the typed result (%#v) and the "
        "upstream headers with the cache on and off for JSON, YAML, form, text and empty responses",
        "cross-user separation of keys in the shared cache is proved under usersSeparated (constants of fixes/C11-9); the "
        "evidence field key_users_domain_separated tells whether the current source satisfies it",
        "decisions of the echo server / decoders / CEL predicted by the check itself (accepts, predicted_failure in "
        "tools/props/c11.py) are cross-checked against the uncached run on every history (kind 'oracle')",
    ]
    # distinct non-trivial inputs
    for (c, me) in pairs + mk:
        cfg = c["cfg"]
        multi = (me["fn"] == "endpoint" and len(cfg.get("headers") or {}) >= 2) or me.get("pair") is not None or \
            ("mech" in me and (len(me["mech"].get("values") or {}) >= 2 or len(me["mech"]["ep"].get("headers") or {}) >= 1
                               if "ep" in me["mech"] else True))
        if multi:
            nontriv.add(vlib.case_hash(c))
    for m, steps in hist:
        if len({json.dumps(s, sort_keys=True) for s in steps}) >= 2:
            nontriv.add(vlib.case_hash({"m": m, "s": steps}))
    R.coverage["distinct_nontrivial"] = len(nontriv)

    record(R, found)
    if UNBOUND:
        R.violation("the writes of these key functions could not be related to their inputs (their field lists stay as "
                    "extracted, the model comparison is skipped for them): " + ", ".join(sorted(UNBOUND)),
                    {"unbound": sorted(UNBOUND)}, no_input=True)
    if gen_err:
        R.violation("cache-key extractor: " + gen_err, {"stderr": gen_err}, no_input=not found)
    if not lean_ok:
        R.violation("theorems / generated obligations of Props/C11.lean no longer check: " + "; ".join(R.lean["failed"])[:600],
                    {"lean_log": R.lean["log"], "failed": R.lean["failed"], "theorems": R.lean.get("failed_theorems")},
                    no_input=not any(k == "spec" for k, _, _ in found))


def replay(R, path):
    with open(path) as fh:
        p = json.load(fh)
    exe = vlib.step_harness(R)
    R.coverage.update({"obligations": 1, "discharged": 1, "checker_cmd": "replay", "trusted_base": []})
    c = p.get("case") or {}
    if p.get("kind") in ("history", "aux", "known", "key"):   # a corpus file
        c = p
        if p["kind"] == "key":
            p = {"case": {"fam": "cachekey", "op": "key", "fn": c["fn"], "reps": 40, "cfg": c["cfg"]}}
            if "cfg2" in c:
                p["other"] = {"fam": "cachekey", "op": "key", "fn": c["fn"], "reps": 40, "cfg": c["cfg2"]}
            c = {}
    stats = Counter()
    if c.get("kind") in ("history", "known"):
        r = run_histories(R, exe, [(c["mech"], c["steps"])], stats)
        print(json.dumps(r, indent=1, default=str)[:6000])
        if r:
            R.violation("replay still fails: " + r[0][1][0][1], {"case": c, "result": r[0][1]})
    elif c.get("kind") == "aux":
        r = run_aux(R, exe, [(c["fn"], c["steps"])], stats)
        print(json.dumps(r, indent=1, default=str)[:6000])
        if r:
            R.violation("replay still fails: " + r[0][1][0][1], {"case": c, "result": r[0][1]})
    else:
        hc = p.get("case")
        pairs = []
        if "other" in p:
            pairs.append((p["other"], {"fn": hc["fn"], "cfg": p["other"]["cfg"], "pair": None}))
        pairs.append((hc, {"fn": hc["fn"], "cfg": hc["cfg"], "pair": (p.get("pair") or True) if pairs else False,
                      "what": "replayed pair"}))
        f = check_keys(R, exe, pairs, stats, "replay")
        print(json.dumps(f, indent=1, default=str)[:6000])
        if f:
            R.violation("replay still fails: " + f[0][1], f[0][2])
