"""C10 — nothing is reused from a cache beyond its validity."""
import collections
import copy
import importlib.util
import json
import os

import gen_validity as gv
import vlib

PID = "C10"
FAMS = ("c10store", "c10mech", "c10http")


GEN_FILE = os.path.join(vlib.LEAN, "HeimdallModel", "Gen", "CacheConsts.lean")


def regenerate(R):
    """Gen/CacheConsts.lean from the current source (leeway and default-TTL constants); fails closed"""
    path = os.path.join(vlib.VERIF, "extract", "validity", "extract.py")
    spec = importlib.util.spec_from_file_location("c10_extract", path)
    mod = importlib.util.module_from_spec(spec)
    spec.loader.exec_module(mod)
    with vlib.LeanLock():
        try:
            mod.regenerate(vlib.REPO, GEN_FILE)
        except mod.ExtractError as e:
            return str(e)
    return None


def harness_env(R):
    env = vlib.go_env()
    env["TMPDIR"] = R.tmp          # key material of the JWT cases is written below R.tmp only
    return env


def run_impl(R, exe, cases):
    return vlib.run_cases([exe], cases, env=harness_env(R), timeout=1500)


def run_model(cases):
    return vlib.run_cases(vlib.driver_cmd(), cases, timeout=1500)


def judge(cases, impl):
    """SPEC oracle on the traces observed on the implementation (Lean: mayReuse / mayServe / mayStore)."""
    idx, jc = [], []
    for n, (c, i) in enumerate(zip(cases, impl)):
        if c["fam"] in ("c10mech", "c10http") and isinstance(i, list):
            idx.append(n)
            jc.append({"fam": "c10judge", "case": c, "obs": i})
    out = run_model(jc)
    res = {}
    for n, o in zip(idx, out):
        o = vlib.res_of(o)
        if isinstance(o, list):
            msgs = [(k, m) for k, ms in enumerate(o) for m in ms]
            if msgs:
                res[n] = msgs
        else:
            res[n] = [(-1, "spec oracle failed on this trace: " + json.dumps(o)[:200])]
    return res


INCONCLUSIVE_LIMIT = 0.02


def inconclusive(i):
    return isinstance(i, dict) and i.get("timing")


def case_inconclusive(c, i):
    return inconclusive(i) or (c["fam"] == "c10store" and isinstance(i, list) and any(inconclusive(x) for x in i))


def differs(i, m):
    return vlib.canon(i) != vlib.canon(vlib.res_of(m))


def shrink(R, exe, case):
    """fewest steps / sessions on which implementation and model still disagree"""
    def one(c):
        i = run_impl(R, exe, [c])[0]
        m = run_model([c])[0]
        return (not inconclusive(i)) and differs(i, m)

    if case["fam"] == "c10store":
        def fails_s(ss):
            return one(dict(case, sessions=ss))
        ss = vlib.ddmin(case["sessions"], fails_s)
        if len(ss) == 1:
            def fails_o(ops):
                return one(dict(case, sessions=[{"ops": ops}]))
            ss = [{"ops": vlib.ddmin(ss[0]["ops"], fails_o)}]
        return dict(case, sessions=ss)

    def fails(steps):
        return one(dict(case, steps=steps))
    steps = case["steps"]
    if len(steps) > 1 and fails(steps):
        steps = vlib.ddmin(steps, fails)
    return dict(case, steps=steps)


REUSE_WORDS = ("reused", "served", "cache used")


def is_reuse(msgs):
    return any(m.startswith(REUSE_WORDS) for _, m in msgs)


def norm_msg(m):
    return "".join(ch for ch in m if not ch.isdigit() and ch != "-")[:60]


def shrink_spec(R, exe, case, want_reuse):
    """smallest history on which the implementation's own trace is rejected by the SPEC (if the original shows an
    actual reuse beyond validity, the shrunk one must still show one)"""
    def fails_case(c):
        i = run_impl(R, exe, [c])
        j = judge([c], i).get(0)
        return bool(j) and (not want_reuse or is_reuse(j))

    def fails(steps):
        return fails_case(dict(case, steps=steps))
    steps = case["steps"]
    if len(steps) > 1:
        steps = vlib.ddmin(steps, fails)
    cur = dict(case, steps=steps)
    # simplifications that keep the failure: default store, no override, no leeway setting, no initial delay
    for simp in (lambda c: dict({k: v for k, v in c.items() if k != "insts"},
                                steps=[{k: v for k, v in st.items() if k != "inst"} for st in c["steps"]],
                                **(c["insts"][0] if c.get("insts") else {})),
                 lambda c: dict(c, store="virtual"),
                 lambda c: {k: v for k, v in c.items() if k != "vl"},
                 lambda c: {k: v for k, v in c.items() if k != "ovr"},
                 lambda c: dict(c, steps=[dict(c["steps"][0], dt=0)] + c["steps"][1:]),
                 lambda c: dict(c, steps=[dict(st, key=0) for st in c["steps"]])):
        cand = simp(copy.deepcopy(cur))
        if cand != cur and fails_case(cand):
            cur = cand
    return cur


def describe_case(c):
    if c["fam"] == "c10mech":
        o = c.get("ovr")
        return (f"{c['mech']} (cache_ttl={c['ttl']}" + (f", rule override={o}" if o is not None else "")
                + (f", validity_leeway={c['vl']}s" if c.get("vl") is not None else "")
                + (f", claims template sets {c['tpl']}" if c.get("tpl") else "")
                + (f", instances={c['insts']}" if c.get("insts") else "") + f", store={c['store']})")
    if c["fam"] == "c10http":
        what = "oauth2 metadata endpoint" if c.get("via") == "metadata" else f"http cache ({c.get('method', 'GET')})"
        conf = f"http_cache={c['hc']}" if "hc" in c else (
            "http_cache not configured" if c.get("via") == "metadata" else f"default_ttl={c.get('dttl')}s")
        return f"{what} ({conf}, store={c['store']})"
    return f"{c['kind']} cache"


def nontrivial(c, m):
    """mech/http: the model run reuses something or refuses to store something that has (no) lifetime left;
    store: a read follows a write of the same key"""
    if c["fam"] == "c10store":
        for s in c["sessions"]:
            seen = set()
            for op in s["ops"]:
                if op["op"] == "set":
                    seen.add(op["k"])
                elif op["op"] == "get" and op["k"] in seen:
                    return True
        return False
    st = m.get("stats", {}).get("outcomes", {}) if isinstance(m, dict) else {}
    return st.get("hits", 0) > 0 or (st.get("fresh_not_stored", 0) > 0 and st.get("stored", 0) > 0)


def cfg_class(c):
    """configured TTL relative to what the remote party reports (input distribution)"""
    if c["fam"] != "c10mech":
        return None
    if c.get("insts"):
        return "several_instances"
    ovr = c.get("ovr")
    cfg = ovr["ttl"] if ovr is not None and ovr.get("ttl") is not None else c["ttl"]
    if cfg is None:
        return "unset"
    if cfg == 0:
        return "zero"
    if cfg < 0:
        return "negative"
    rels = [s.get("exp") for s in c["steps"] if s.get("exp") is not None]
    if not rels:
        return "set_no_expiry_known"
    lee = gv.LEEWAY[c["mech"]]
    return "shorter_than_remaining" if cfg < max(rels) - lee else "longer_than_remaining"


def build_cases(R):
    quick = R.tier == "quick"
    n_mech = 1500 if quick else 90000
    n_http = 700 if quick else 35000
    n_store_mem = 3 if quick else 20
    n_store_redis = 6 if quick else 120
    cases = []
    cases += [gv.gen_mech_case(R.rng) for _ in range(n_mech)]
    cases += [gv.gen_http_case(R.rng) for _ in range(n_http)]
    cases += [gv.gen_store_case(R.rng, "memory", 24) for _ in range(n_store_mem)]
    cases += [gv.gen_store_case(R.rng, "redis", 16) for _ in range(n_store_redis)]
    grid = gv.grid_cases()
    if quick:
        grid = R.rng.sample(grid, min(len(grid), 600))
    return cases + grid


def evidence(R, corpus, cases, impl, model, timing):
    per_fam = collections.Counter(c["fam"] for c in cases)
    per_mech = collections.Counter(c["mech"] for c in cases if c["fam"] == "c10mech")
    per_store = collections.Counter(c.get("store", c.get("kind")) for c in cases)
    outcomes = collections.Counter()
    rem = collections.Counter()
    life = collections.Counter()
    reqkinds = collections.Counter()
    settings = collections.Counter()
    tpl = collections.Counter(c.get("tpl", "none") for c in cases if c.get("mech") == "jwtfin")
    vls = collections.Counter(("negative" if v < 0 else "positive") for c in cases if c["fam"] == "c10mech"
                              for v in [c.get("vl")] + [i.get("vl") for i in c.get("insts", [])] if v is not None)
    chains = collections.Counter()
    cfgc = collections.Counter()
    nontriv = set()
    requests = 0
    for c, m in zip(cases, model):
        if nontrivial(c, m):
            nontriv.add(vlib.case_hash(c))
        k = cfg_class(c)
        if k:
            cfgc[k] += 1
        if isinstance(m, dict) and "stats" in m:
            st = m["stats"]
            for a, b in st.get("outcomes", {}).items():
                outcomes[a] += b
            rem.update(st.get("rem", []))
            life.update(st.get("lifetime", []))
            reqkinds.update(st.get("requests", []))
            if "settings" in st:
                settings[("metadata:" if c.get("via") == "metadata" else "endpoint:") + st["settings"]] += 1
            chains.update(st.get("chains", []))
        if "steps" in c:
            requests += len(c["steps"])
        else:
            requests += sum(len(s["ops"]) for s in c["sessions"])
    samples = []
    for fam in FAMS:
        for c in cases[len(corpus):]:
            if c["fam"] == fam:
                samples.append(c if fam != "c10store" else dict(c, sessions=c["sessions"][:2]))
                break
    R.coverage.update({
        "evaluations": len(cases), "distinct_nontrivial": len(nontriv),
        "rule": "histories of requests over simulated time (2-8 requests, 3 cache entries, time steps aimed at the end "
                "of the TTL and at the expiry, remaining lifetimes around every boundary: absent / long expired / "
                "inside the validity leeway / inside the cache leeway / just outside / far; JWKs with x5c chains of 1-3 "
                "certificates issued on the fly, every element with its own NotAfter (CAs outliving / not outliving "
                "the key's own certificate, around the TTL, inside the leeway, expired); cache_ttl unset / 0 / "
                "negative / shorter / longer, with and without a rule-level override) run against the real mechanisms "
                "created from configuration, the real endpoint client with the HTTP response cache (Cache-Control / "
                "Expires / Date combinations, default_ttl 0 / negative / positive) and operation sequences against the "
                "real in-memory and Redis caches; compared step by step with the Lean model and judged by the Lean "
                "SPEC. non-trivial = the history contains a reuse from the cache, or both a stored and a "
                "deliberately-not-stored fresh answer (store sessions: a read after a write of the same key); "
                "distinct by hash of the case",
        "requests_or_operations": requests,
        "cases_per_family": dict(per_fam), "cases_per_mechanism": dict(per_mech), "cases_per_store": dict(per_store),
        "model_outcomes": dict(outcomes), "remaining_lifetime_classes": dict(rem),
        "http_freshness_lifetime_classes": dict(life), "configured_ttl_classes": dict(cfgc),
        "jwk_x5c_chain_classes": dict(chains), "http_request_kinds": dict(reqkinds),
        "http_cache_settings": dict(settings), "jwt_finalizer_claims_template": dict(tpl),
        "validity_leeway_settings": dict(vls),
        "corpus_cases": len(corpus), "inconclusive_timing": sum(timing.values()),
        "inconclusive_timing_by_family": dict(timing),
        "samples": samples, "exhaustive": False,
    })
    R.assumptions += [
        "time is simulated: the mechanisms relate time.Now() to expiry values handed out by the remote party, so a "
        "later request is modelled as a request now against a cache whose clock was advanced (virtual cache with the "
        "semantics of the in-memory cache, miniredis FastForward for Redis) and a remote party answering relative to "
        "now; documents sitting in the virtual cache are aged with the simulated time (exp/iat/nbf moved into the "
        "past), so the re-validation the introspection authenticator performs on a cache hit sees a token as old as "
        "it would be - this aging is not done for the Redis store; the real in-memory cache is driven on the wall "
        "clock in scenarios without time steps and in tick-aligned store sessions only (timed histories never run "
        "against it)",
        "which requests share a cache entry (cache keys) is the subject of C11: the harness maps the key chosen by "
        "the code to the logical entry of the scenario step",
        "whole-second granularity: TTLs handed to the cache are compared rounded up to seconds; requests happen "
        "strictly inside a second (same-second guard re-runs a case otherwise)",
        "HTTP: the response delay of RFC 7234 4.2.3 is taken as zero; heuristic freshness is never used (a response "
        "without explicit expiration time gets default_ttl only); request Cache-Control directives other than "
        "no-store are not generated",
        "validity_leeway >= 0 (a negative value is refused by the configuration of the two caching authenticators; "
        "hypothesis of the theorems)",
        "rueidis client-side caching is disabled in the Redis cases (as in heimdall's own tests); miniredis stands in "
        "for Redis",
        "the leeway and default-TTL constants are read from the source by the go/ast extractor (extract/validity, "
        "fails closed) into Gen/CacheConsts.lean; the theorems only need their signs, which the kernel "
        "re-checks on every run",
        "pquerna/cachecontrol, ttlcache, rueidis, go-jose, x509 are exercised as they are, their part of the behaviour "
        "is validated by the correspondence only",
    ]


def report(R, exe, cases, impl, model, lean_ok):
    timing = collections.Counter()
    bad = []
    for n, (c, i, m) in enumerate(zip(cases, impl, model)):
        if case_inconclusive(c, i):
            timing[c["fam"] + "/" + c.get("store", c.get("kind", ""))] += 1
            continue
        if differs(i, m):
            bad.append(n)
    spec_bad = judge(cases, impl)
    seen = set()
    # 1. implementation traces rejected by the SPEC: the property fails on the real code.
    #    One report per (family, mechanism, kind of failure); actual reuses first, smallest histories first.
    groups = {}
    said = set()
    for n in sorted(spec_bad):
        c = cases[n]
        for k, m in spec_bad[n]:
            sig = (c["fam"], c.get("mech"), norm_msg(m))
            best = groups.get(sig)
            size = len(c.get("steps", []))
            if best is None or size < best[1]:
                groups[sig] = (n, size, m.startswith(REUSE_WORDS))
    order = sorted(groups.items(), key=lambda kv: (not kv[1][2], kv[0]))
    for sig, (n, _, reuse) in order[:14]:
        seen.add(sig[:2])
        c = cases[n]
        sc = shrink_spec(R, exe, c, reuse)
        si = run_impl(R, exe, [sc])[0]
        sj = judge([sc], [si]).get(0)
        if not sj:
            sc, si, sj = c, impl[n], spec_bad[n]
        sm = vlib.res_of(run_model([sc])[0])
        pick = [x for x in sj if x[1].startswith(REUSE_WORDS)] or sj
        step, msg = pick[0]
        if (describe_case(sc), msg) in said:
            continue
        said.add((describe_case(sc), msg))
        R.violation(f"{describe_case(sc)}: request #{step}: {msg}",
                    {"case": sc, "impl": si, "model": sm, "spec_verdict": [list(x) for x in sj],
                     "kind": "impl-vs-spec"})
    # 2. implementation differs from the model the theorems are about
    done = 0
    for n in bad:
        if n in spec_bad:
            continue
        c = cases[n]
        sig = (c["fam"], c.get("mech", c.get("kind")))
        if sig in seen or done >= 6:
            continue
        seen.add(sig)
        done += 1
        sc = shrink(R, exe, c)
        si = run_impl(R, exe, [sc])[0]
        sm = vlib.res_of(run_model([sc])[0])
        sj = judge([sc], [si]).get(0)
        what = f"{describe_case(sc)}: implementation {json.dumps(si)[:300]} differs from the proved model {json.dumps(sm)[:300]}"
        if sc["fam"] == "c10store":
            # for a store the model *is* the property (expiry enforced, non-positive TTL never stored)
            R.violation(what, {"case": sc, "impl": si, "model": sm, "kind": "impl-vs-model"})
        elif sj:
            R.violation(f"{describe_case(sc)}: request #{sj[0][0]}: {sj[0][1]}",
                        {"case": sc, "impl": si, "model": sm, "spec_verdict": [list(x) for x in sj],
                         "kind": "impl-vs-spec"})
        else:
            R.violation(what + " (no reuse beyond validity found on this input: the theorems no longer speak about "
                        "this code)", {"case": sc, "impl": si, "model": sm, "kind": "impl-vs-model"}, no_input=True)
    if not lean_ok:
        R.violation("theorems of Props/C10.lean no longer check: " + "; ".join(R.lean["failed"])[:600],
                    {"lean_log": R.lean["log"], "failed": R.lean["failed"],
                     "theorems": R.lean.get("failed_theorems")}, no_input=True)
    return timing


def rerun_inconclusive(R, exe, cases, impl):
    """cases that could not be placed inside their second / tick are tried once more, one after another"""
    idx = [n for n, (c, i) in enumerate(zip(cases, impl)) if case_inconclusive(c, i)]
    if not idx:
        return 0
    again = run_impl(R, exe, [cases[n] for n in idx])
    for n, i in zip(idx, again):
        impl[n] = i
    return len(idx)


def run(R):
    gen_err = regenerate(R)
    if gen_err:
        # a stub with the constants of the last successful extraction is in place: everything still builds, only
        # c10_constants_read_from_source fails; the correspondence run goes on with those constants
        R.violation("the cache constants can no longer be read from the source (extractor fails closed): " + gen_err,
                    {"extractor": "extract/validity (go/ast)", "error": gen_err}, no_input=True)
    lean_ok = vlib.step_lean(R, PID)
    exe = vlib.step_harness(R)
    if exe is None:
        R.violation("harness does not build against /repo (API used by the correspondence check changed)",
                    {"build_log": R.harness_log[-3000:]}, no_input=True)
        return
    if not os.path.exists(vlib.driver_cmd()[0]):
        R.violation("Lean driver does not build", {"lean_log": R.lean["log"]}, no_input=True)
        return
    corpus = vlib.load_corpus(PID)
    cases = corpus + build_cases(R)
    impl = run_impl(R, exe, cases)
    retried = rerun_inconclusive(R, exe, cases, impl)
    model = run_model(cases)
    timing = report(R, exe, cases, impl, model, lean_ok or bool(gen_err))
    evidence(R, corpus, cases, impl, model, timing)
    R.coverage["inconclusive_retried"] = retried
    # coverage must not silently evaporate on a loaded machine
    per_class = collections.Counter(c["fam"] + "/" + c.get("store", c.get("kind", "")) for c in cases)
    starved = {k: f"{v} of {per_class[k]}" for k, v in timing.items()
               if per_class[k] >= 20 and v > INCONCLUSIVE_LIMIT * per_class[k] or per_class[k] < 20 and v == per_class[k]}
    if starved:
        R.violation("too many cases could not be placed inside their second / tick even when re-run one by one "
                    f"(limit {int(INCONCLUSIVE_LIMIT * 100)} % per family and store): {starved}; the run says nothing "
                    "about these classes", {"inconclusive": starved}, no_input=True)


def replay(R, path):
    with open(path) as fh:
        p = json.load(fh)
    exe = vlib.step_harness(R)
    c = p["case"] if "case" in p else p
    i = run_impl(R, exe, [c])[0]
    m = vlib.res_of(run_model([c])[0])
    j = judge([c], [i]).get(0, [])
    print("impl :", json.dumps(i))
    print("model:", json.dumps(m))
    print("spec :", json.dumps(j))
    R.coverage.update({"obligations": 1, "discharged": 1, "checker_cmd": "replay", "trusted_base": []})
    if j:
        R.violation(f"replay: request #{j[0][0]}: {j[0][1]}", {"case": c, "impl": i, "model": m, "spec_verdict": j})
    elif vlib.canon(i) != vlib.canon(m):
        R.violation("replay still differs from the model", {"case": c, "impl": i, "model": m},
                    no_input=c.get("fam") != "c10store")
