"""C10 — nothing is reused from a cache beyond its validity."""
import collections
import copy
import importlib.util
import json
import os
import re
import subprocess

import gen_validity as gv
import go2lean_tie as tie
import vlib

PID = "C10"
FAMS = ("c10store", "c10mech", "c10http")


GEN_FILE = os.path.join(vlib.LEAN, "HeimdallModel", "Gen", "CacheConsts.lean")


def regenerate(R):
    """Gen/CacheConsts.lean from the current source (leeway and default-TTL constants); fails closed"""
    path = os.path.join(vlib.VERIF, "extract", "validity", "extract.py")
    spec = importlib.util.spec_from_file_location("c10_extract", path)
    mod = importlib.util.module_from_spec(spec)
    spec.loader.exec_module(mod)
    with vlib.LeanLock():
        try:
            mod.regenerate(vlib.REPO, GEN_FILE)
        except mod.ExtractError as e:
            return str(e)
    return None


# ---------------------------------------------------------------------------------------------------------------
# the TTL functions translated from the source (Gen/CacheTTLSrc.lean, Props/C10Src.lean); shared machinery:
# tools/go2lean_tie.py

SRC_TIE = tie.Tie(
    cmd="cachettl", gen_module="HeimdallModel.Gen.CacheTTLSrc", stub_namespace="Heimdall.Validity.Src",
    what="the TTL functions",
    trusted="Go -> Lean translator extract/go2lean (go/ast, fails closed outside its subset; regenerates "
            "Gen/CacheTTLSrc.lean from the whole bodies of getCacheTTL / isCacheEnabled on every run): trusted to keep the "
            "meaning of the statements it translates; its table of atoms (cmd/cachettl/main.go) says which expressions read "
            "the remote party's answer and the clock")
SRC_PROP = tie.Prop("HeimdallModel.Props.C10Src", "Heimdall.Props.C10", always=("HeimdallModel.Spec.CacheTTLBound",))


def _src_mod():
    path = os.path.join(vlib.VERIF, "extract", "go2lean", "cachettl.py")
    spec = importlib.util.spec_from_file_location("c10_go2lean", path)
    mod = importlib.util.module_from_spec(spec)
    spec.loader.exec_module(mod)
    return mod


def step_lean_src(R):
    """Gen/CacheTTLSrc.lean: getCacheTTL / isCacheEnabled of the current source translated to Lean (fails closed: a stub
    without definitions is written, Props/C10Src.lean stops building); builds Props/C10Src.lean (equality of the
    translated functions with the model, for all inputs) and audits the axioms of its theorems. Returns (ok,
    translation error)"""
    res = tie.step(R, SRC_TIE, SRC_PROP)
    R.lean_src = res
    return res["ok"], res["translate_error"]


def spec_verdicts(R, points):
    """`ttlSpecVerdict` (Spec/CacheTTLBound.lean) on TTL values: a list of failed clauses per point"""
    mod = _src_mod()
    rc, rows, log = tie.run_lean(R, SRC_TIE, SRC_PROP, "c10src_verdict.lean", mod.verdict_program(points))
    return rows if rc == 0 and len(rows) == len(points) else None


def src_case(mech, cfg, rem, ttl):
    """the point (configured TTL, remaining lifetime) as a history for the real mechanism: the first request stores,
    the second one asks again at the last instant the entry is alive"""
    dt = ttl if ttl and ttl > 0 else 1
    s0, s1 = {"dt": 0, "key": 0}, {"dt": dt, "key": 0}
    if mech in gv.EXPIRING:
        s0["exp"], s1["exp"] = rem, 100000
    return {"fam": "c10mech", "mech": mech, "store": "virtual", "ttl": cfg, "steps": [s0, s1]}


def run_point(R, exe, case):
    for _ in range(4):
        i = run_impl(R, exe, [case])[0]
        if not inconclusive(i):
            return i
    return i


def src_search(R, exe):
    """Props/C10Src.lean no longer builds: find an input on which the translated function breaks the specification
    (or at least differs from the model) by evaluating both on a boundary grid in Lean, and confirm it on the real
    code through the c10mech family"""
    mod = _src_mod()
    failed = R.lean_src.get("failed_theorems") or []
    named = tie.named(R.lean_src)
    payload0 = {"lean_log": R.lean_src["log"], "failed": R.lean_src["failed"], "theorems": failed,
                "kind": "src-vs-model"}
    rc, rows, log = tie.run_lean(R, SRC_TIE, SRC_PROP, "c10src_grid.lean", mod.grid_program())
    if rc is None:
        R.violation("the Lean translation of the TTL functions (Gen/CacheTTLSrc.lean) does not compile: "
                    + "; ".join(sorted(set(re.findall(r"error: ([^\n]+)", log)))[:4])[:500],
                    dict(payload0, lean_log=log), no_input=True)
        return
    R.coverage["src_grid"] = {"points": len(mod.CFGS) * (len(mod.REMS) * len(mod.NOWS) * 5 + 9),
                              "differing_or_failing": len(rows)}
    if rc != 0:
        R.violation(f"theorems of Props/C10Src.lean no longer check ({named}) and the grid evaluation failed",
                    dict(payload0, grid_log=log), no_input=True)
        return
    if not rows:
        R.violation(f"theorems of Props/C10Src.lean no longer check: {named}; the translated functions agree with the "
                    "model and satisfy the specification on the whole boundary grid (the proof script does not "
                    "cover this shape of the code, or the difference lies outside the grid)", payload0, no_input=True)
        return
    reported = 0
    for mech in mod.MECHS:
        mine = [r for r in rows if r["mech"] == mech]
        if not mine:
            continue

        def weight(r):
            bad = bool(r.get("spec")) or r.get("spec_ok") is False or not r["defined"]
            cfg = r["case_ttl"]
            # `expires_in: 0` = no expiry information; the JWT finalizer refuses a `ttl` of a second or less
            unusable = (mech == "clientcreds" and r.get("rem") == 0) or (mech == "jwtfin" and cfg is not None and cfg < 2)
            return (not bad, unusable, r.get("now", 0) != 0, r["fn"] != "ttl", cfg is None, abs(cfg or 0) > 400,
                    abs((r.get("rem") or 0) - 20), abs(cfg or 0))

        r = sorted(mine, key=weight)[0]
        ns, _, kind = mod.MECHS[mech]
        known = kind != "site" and r["fn"] == "ttl"
        where = (f"{mech} (cache_ttl={r['case_ttl']}" + (f", remaining lifetime {r['rem']} s" if known else "")
                 + (", no session lifespan" if mech == "generic" and r.get("session") is False else "") + ")")
        fn = f"{ns}." + {("ttl", False): "getCacheTTL", ("ttl", True): "cacheWrite / cacheWriteTTL",
                         ("enabled", False): "isCacheEnabled" if kind == "ptr" else "cacheRead",
                         ("enabled", True): "cacheRead"}[(r["fn"], kind == "site")]
        spec_bad = bool(r.get("spec")) or r.get("spec_ok") is False or not r["defined"]
        if not r["defined"]:
            verdict = ["the Go function dereferences nil / reads an absent value on this input"]
        elif r["fn"] == "ttl":
            verdict = r["spec"]
        else:
            verdict = [] if r["spec_ok"] else [f"the cache is consulted although cache_ttl={r['case_ttl']}"]
        case = src_case(mech, r["case_ttl"], r.get("rem"), r["src"] if r["fn"] == "ttl" else 0)
        impl = run_point(R, exe, case)
        model = vlib.res_of(run_model([case])[0])
        payload = dict(payload0, case=case, impl=impl, model=model, src_point=r, translated_function=fn,
                       kind="src-vs-spec" if spec_bad else "src-vs-model")
        ok_trace = isinstance(impl, list) and impl and isinstance(impl[0], dict)
        seen_ttl = (impl[0].get("set") or 0) if ok_trace else None
        seen_gets = impl[0].get("gets") if ok_trace else None
        confirmed = []
        if ok_trace and r["fn"] == "ttl":
            v = spec_verdicts(R, [{"mech": mech, "cfg": r["cfg"], "rem": r.get("rem"), "ttl": seen_ttl}])
            if v and v[0]:
                confirmed = [f"the real code hands ttl {seen_ttl} to the cache: " + m for m in v[0]]
        elif ok_trace and r["fn"] == "enabled" and not r["spec_ok"] and seen_gets:
            confirmed = [f"the real code reads the cache ({seen_gets}x) although cache_ttl={r['case_ttl']}"]
        elif not ok_trace and not r["defined"]:
            confirmed = ["the real code fails on this input: " + json.dumps(impl)[:200]]
        judged = judge([case], [impl]).get(0) if ok_trace else None
        if judged:
            confirmed += [f"request #{k}: {m}" for k, m in judged]
            payload["spec_verdict"] = [list(x) for x in judged]
        payload["src_spec_verdict"] = verdict
        payload["confirmed_on_real_code"] = confirmed
        reported += 1
        if confirmed:
            R.violation(f"{where}: translated source {fn} = {json.dumps(r['src'])}, model {json.dumps(r['model'])}: "
                        + "; ".join(confirmed)[:500] + f" (theorems that no longer check: {named})", payload)
        elif spec_bad:
            R.violation(f"{where}: the translated source {fn} = {json.dumps(r['src'])} breaks the specification ("
                        + "; ".join(verdict)[:300] + f") but this could not be confirmed on the real code at this "
                        f"input (observed ttl={seen_ttl}, cache reads={seen_gets}): a parameter of the translation "
                        "that is independent there (e.g. whether a cache key was computed) may be tied to the others "
                        f"in the code; the theorems {named} no longer check", payload, no_input=True)
        else:
            R.violation(f"{where}: the translated source {fn} = {json.dumps(r['src'])} differs from the proved model "
                        f"({json.dumps(r['model'])}; real code: ttl={seen_ttl}) but stays within the specification "
                        f"(ttlWithinSpec holds on the whole grid for this mechanism): the theorems {named} no longer "
                        "speak about this code", payload, no_input=True)
    if not reported:
        R.violation(f"theorems of Props/C10Src.lean no longer check: {named}", payload0, no_input=True)


def harness_env(R):
    env = vlib.go_env()
    env["TMPDIR"] = R.tmp          # key material of the JWT cases is written below R.tmp only
    return env


def run_impl(R, exe, cases):
    return vlib.run_cases([exe], cases, env=harness_env(R), timeout=1500)


def run_model(cases):
    return vlib.run_cases(vlib.driver_cmd(), cases, timeout=1500)


def judge(cases, impl):
    """SPEC oracle on the traces observed on the implementation (Lean: mayReuse / mayServe / mayStore)."""
    idx, jc = [], []
    for n, (c, i) in enumerate(zip(cases, impl)):
        if c["fam"] in ("c10mech", "c10http") and isinstance(i, list):
            idx.append(n)
            jc.append({"fam": "c10judge", "case": c, "obs": i})
    out = run_model(jc)
    res = {}
    for n, o in zip(idx, out):
        o = vlib.res_of(o)
        if isinstance(o, list):
            msgs = [(k, m) for k, ms in enumerate(o) for m in ms]
            if msgs:
                res[n] = msgs
        else:
            res[n] = [(-1, "spec oracle failed on this trace: " + json.dumps(o)[:200])]
    return res


INCONCLUSIVE_LIMIT = 0.02


def inconclusive(i):
    return isinstance(i, dict) and i.get("timing")


def case_inconclusive(c, i):
    return inconclusive(i) or (c["fam"] == "c10store" and isinstance(i, list) and any(inconclusive(x) for x in i))


def differs(i, m):
    return vlib.canon(i) != vlib.canon(vlib.res_of(m))


def shrink(R, exe, case):
    """fewest steps / sessions on which implementation and model still disagree"""
    def one(c):
        i = run_impl(R, exe, [c])[0]
        m = run_model([c])[0]
        return (not inconclusive(i)) and differs(i, m)

    if case["fam"] == "c10store":
        def fails_s(ss):
            return one(dict(case, sessions=ss))
        ss = vlib.ddmin(case["sessions"], fails_s)
        if len(ss) == 1:
            def fails_o(ops):
                return one(dict(case, sessions=[{"ops": ops}]))
            ss = [{"ops": vlib.ddmin(ss[0]["ops"], fails_o)}]
        return dict(case, sessions=ss)

    def fails(steps):
        return one(dict(case, steps=steps))
    steps = case["steps"]
    if len(steps) > 1 and fails(steps):
        steps = vlib.ddmin(steps, fails)
    return dict(case, steps=steps)


REUSE_WORDS = ("reused", "served", "cache used")


def is_reuse(msgs):
    return any(m.startswith(REUSE_WORDS) for _, m in msgs)


def norm_msg(m):
    return "".join(ch for ch in m if not ch.isdigit() and ch != "-")[:60]


def shrink_spec(R, exe, case, want_reuse):
    """smallest history on which the implementation's own trace is rejected by the SPEC (if the original shows an
    actual reuse beyond validity, the shrunk one must still show one)"""
    def fails_case(c):
        i = run_impl(R, exe, [c])
        j = judge([c], i).get(0)
        return bool(j) and (not want_reuse or is_reuse(j))

    def fails(steps):
        return fails_case(dict(case, steps=steps))
    steps = case["steps"]
    if len(steps) > 1:
        steps = vlib.ddmin(steps, fails)
    cur = dict(case, steps=steps)
    # simplifications that keep the failure: default store, no override, no leeway setting, no initial delay
    for simp in (lambda c: dict({k: v for k, v in c.items() if k != "insts"},
                                steps=[{k: v for k, v in st.items() if k != "inst"} for st in c["steps"]],
                                **(c["insts"][0] if c.get("insts") else {})),
                 lambda c: dict(c, store="virtual"),
                 lambda c: {k: v for k, v in c.items() if k != "vl"},
                 lambda c: {k: v for k, v in c.items() if k != "ovr"},
                 lambda c: dict(c, steps=[dict(c["steps"][0], dt=0)] + c["steps"][1:]),
                 lambda c: dict(c, steps=[dict(st, key=0) for st in c["steps"]])):
        cand = simp(copy.deepcopy(cur))
        if cand != cur and fails_case(cand):
            cur = cand
    return cur


def describe_case(c):
    if c["fam"] == "c10mech":
        o = c.get("ovr")
        return (f"{c['mech']} (cache_ttl={c['ttl']}" + (f", rule override={o}" if o is not None else "")
                + (f", validity_leeway={c['vl']}s" if c.get("vl") is not None else "")
                + (f", claims template sets {c['tpl']}" if c.get("tpl") else "")
                + (f", instances={c['insts']}" if c.get("insts") else "") + f", store={c['store']})")
    if c["fam"] == "c10http":
        what = "oauth2 metadata endpoint" if c.get("via") == "metadata" else f"http cache ({c.get('method', 'GET')})"
        conf = f"http_cache={c['hc']}" if "hc" in c else (
            "http_cache not configured" if c.get("via") == "metadata" else f"default_ttl={c.get('dttl')}s")
        return f"{what} ({conf}, store={c['store']})"
    return f"{c['kind']} cache"


def nontrivial(c, m):
    """mech/http: the model run reuses something or refuses to store something that has (no) lifetime left;
    store: a read follows a write of the same key"""
    if c["fam"] == "c10store":
        for s in c["sessions"]:
            seen = set()
            for op in s["ops"]:
                if op["op"] == "set":
                    seen.add(op["k"])
                elif op["op"] == "get" and op["k"] in seen:
                    return True
        return False
    st = m.get("stats", {}).get("outcomes", {}) if isinstance(m, dict) else {}
    return st.get("hits", 0) > 0 or (st.get("fresh_not_stored", 0) > 0 and st.get("stored", 0) > 0)


def cfg_class(c):
    """configured TTL relative to what the remote party reports (input distribution)"""
    if c["fam"] != "c10mech":
        return None
    if c.get("insts"):
        return "several_instances"
    ovr = c.get("ovr")
    cfg = ovr["ttl"] if ovr is not None and ovr.get("ttl") is not None else c["ttl"]
    if cfg is None:
        return "unset"
    if cfg == 0:
        return "zero"
    if cfg < 0:
        return "negative"
    rels = [s.get("exp") for s in c["steps"] if s.get("exp") is not None]
    if not rels:
        return "set_no_expiry_known"
    lee = gv.LEEWAY[c["mech"]]
    return "shorter_than_remaining" if cfg < max(rels) - lee else "longer_than_remaining"


def build_cases(R):
    quick = R.tier == "quick"
    n_mech = 1500 if quick else 90000
    n_http = 700 if quick else 35000
    n_store_mem = 3 if quick else 20
    n_store_redis = 6 if quick else 120
    cases = []
    cases += [gv.gen_mech_case(R.rng) for _ in range(n_mech)]
    cases += [gv.gen_http_case(R.rng) for _ in range(n_http)]
    cases += [gv.gen_store_case(R.rng, "memory", 24) for _ in range(n_store_mem)]
    cases += [gv.gen_store_case(R.rng, "redis", 16) for _ in range(n_store_redis)]
    grid = gv.grid_cases()
    hgrid = gv.http_grid_cases()
    if quick:
        grid = R.rng.sample(grid, min(len(grid), 600))
        hgrid = R.rng.sample(hgrid, min(len(hgrid), 500))
    return cases + grid + hgrid


def evidence(R, corpus, cases, impl, model, timing):
    per_fam = collections.Counter(c["fam"] for c in cases)
    per_mech = collections.Counter(c["mech"] for c in cases if c["fam"] == "c10mech")
    per_store = collections.Counter(c.get("store", c.get("kind")) for c in cases)
    outcomes = collections.Counter()
    rem = collections.Counter()
    life = collections.Counter()
    reqkinds = collections.Counter()
    settings = collections.Counter()
    tpl = collections.Counter(c.get("tpl", "none") for c in cases if c.get("mech") == "jwtfin")
    vls = collections.Counter(("negative" if v < 0 else "positive") for c in cases if c["fam"] == "c10mech"
                              for v in [c.get("vl")] + [i.get("vl") for i in c.get("insts", [])] if v is not None)
    chains = collections.Counter()
    cfgc = collections.Counter()
    nontriv = set()
    requests = 0
    for c, m in zip(cases, model):
        if nontrivial(c, m):
            nontriv.add(vlib.case_hash(c))
        k = cfg_class(c)
        if k:
            cfgc[k] += 1
        if isinstance(m, dict) and "stats" in m:
            st = m["stats"]
            for a, b in st.get("outcomes", {}).items():
                outcomes[a] += b
            rem.update(st.get("rem", []))
            life.update(st.get("lifetime", []))
            reqkinds.update(st.get("requests", []))
            if "settings" in st:
                settings[("metadata:" if c.get("via") == "metadata" else "endpoint:") + st["settings"]] += 1
            chains.update(st.get("chains", []))
        if "steps" in c:
            requests += len(c["steps"])
        else:
            requests += sum(len(s["ops"]) for s in c["sessions"])
    samples = []
    for fam in FAMS:
        for c in cases[len(corpus):]:
            if c["fam"] == fam:
                samples.append(c if fam != "c10store" else dict(c, sessions=c["sessions"][:2]))
                break
    R.coverage.update({
        "evaluations": len(cases), "distinct_nontrivial": len(nontriv),
        "rule": "histories of requests over simulated time (2-8 requests, 3 cache entries, time steps aimed at the end "
                "of the TTL and at the expiry, remaining lifetimes around every boundary: absent / long expired / "
                "inside the validity leeway / inside the cache leeway / just outside / far; JWKs with x5c chains of 1-3 "
                "certificates issued on the fly, every element with its own NotAfter (CAs outliving / not outliving "
                "the key's own certificate, around the TTL, inside the leeway, expired); cache_ttl unset / 0 / "
                "negative / shorter / longer, with and without a rule-level override) run against the real mechanisms "
                "created from configuration, the real endpoint client with the HTTP response cache (Cache-Control / "
                "Expires / Date combinations, default_ttl 0 / negative / positive) and operation sequences against the "
                "real in-memory and Redis caches; compared step by step with the Lean model and judged by the Lean "
                "SPEC. non-trivial = the history contains a reuse from the cache, or both a stored and a "
                "deliberately-not-stored fresh answer (store sessions: a read after a write of the same key); "
                "distinct by hash of the case",
        "requests_or_operations": requests,
        "cases_per_family": dict(per_fam), "cases_per_mechanism": dict(per_mech), "cases_per_store": dict(per_store),
        "model_outcomes": dict(outcomes), "remaining_lifetime_classes": dict(rem),
        "http_freshness_lifetime_classes": dict(life), "configured_ttl_classes": dict(cfgc),
        "jwk_x5c_chain_classes": dict(chains), "http_request_kinds": dict(reqkinds),
        "http_cache_settings": dict(settings), "jwt_finalizer_claims_template": dict(tpl),
        "validity_leeway_settings": dict(vls),
        "corpus_cases": len(corpus), "inconclusive_timing": sum(timing.values()),
        "inconclusive_timing_by_family": dict(timing),
        "samples": samples, "exhaustive": False,
    })
    R.assumptions += [
        "time is simulated: the mechanisms relate time.Now() to expiry values handed out by the remote party, so a "
        "later request is modelled as a request now against a cache whose clock was advanced (virtual cache with the "
        "semantics of the in-memory cache, miniredis FastForward for Redis) and a remote party answering relative to "
        "now; documents sitting in the virtual cache are aged with the simulated time (exp/iat/nbf moved into the "
        "past), so the re-validation the introspection authenticator performs on a cache hit sees a token as old as "
        "it would be - this aging is not done for the Redis store; the real in-memory cache is driven on the wall "
        "clock in scenarios without time steps and in tick-aligned store sessions only (timed histories never run "
        "against it)",
        "which requests share a cache entry (cache keys) is the subject of C11: the harness maps the key chosen by "
        "the code to the logical entry of the scenario step",
        "whole-second granularity: TTLs handed to the cache are compared rounded up to seconds; requests happen "
        "strictly inside a second (same-second guard re-runs a case otherwise)",
        "HTTP: the response delay of RFC 7234 4.2.3 is taken as zero; heuristic freshness is never used (a response "
        "without explicit expiration time gets default_ttl only); request Cache-Control directives other than "
        "no-store are not generated",
        "validity_leeway >= 0 (a negative value is refused by the configuration of the two caching authenticators; "
        "hypothesis of the theorems)",
        "rueidis client-side caching is disabled in the Redis cases (as in heimdall's own tests); miniredis stands in "
        "for Redis",
        "the leeway and default-TTL constants are read from the source by the go/ast extractor (extract/validity, "
        "fails closed) into Gen/CacheConsts.lean; the theorems only need their signs, which the kernel "
        "re-checks on every run",
        "pquerna/cachecontrol, ttlcache, rueidis, go-jose, x509 are exercised as they are, their part of the behaviour "
        "is validated by the correspondence only",
        "translated source (Gen/CacheTTLSrc.lean): durations are whole seconds (time.Second = 1; the translator refuses "
        "code in which a duration meets a bare number or a sub-second unit) - sound for the property because the "
        "theorems c10_src_*_within_spec keep every TTL at least one second below the remaining lifetime computed from "
        "truncated Unix() values; every time.Now() inside one call of getCacheTTL is the same instant `now`; the "
        "object handed to getCacheTTL is not nil unless the code itself tests it; integers do not overflow; which Go "
        "expression reads the expiry / the configured TTL / the clock is a table in extract/go2lean/cmd/cachettl (an "
        "expression outside the table or the supported subset aborts the translation); the TTL expressions of the JWT "
        "finalizer, the remote authorizer and the generic contextualizer are translated as the condition and the ttl "
        "argument of their cache write only, the rest of those functions is covered by the correspondence run",
    ]


def report(R, exe, cases, impl, model, lean_ok):
    timing = collections.Counter()
    bad = []
    for n, (c, i, m) in enumerate(zip(cases, impl, model)):
        if case_inconclusive(c, i):
            timing[c["fam"] + "/" + c.get("store", c.get("kind", ""))] += 1
            continue
        if differs(i, m):
            bad.append(n)
    spec_bad = judge(cases, impl)
    seen = set()
    # 1. implementation traces rejected by the SPEC: the property fails on the real code.
    #    One report per (family, mechanism, kind of failure); actual reuses first, smallest histories first.
    groups = {}
    said = set()
    for n in sorted(spec_bad):
        c = cases[n]
        for k, m in spec_bad[n]:
            sig = (c["fam"], c.get("mech"), norm_msg(m))
            best = groups.get(sig)
            size = len(c.get("steps", []))
            if best is None or size < best[1]:
                groups[sig] = (n, size, m.startswith(REUSE_WORDS))
    order = sorted(groups.items(), key=lambda kv: (not kv[1][2], kv[0]))
    for sig, (n, _, reuse) in order[:14]:
        seen.add(sig[:2])
        c = cases[n]
        sc = shrink_spec(R, exe, c, reuse)
        si = run_impl(R, exe, [sc])[0]
        sj = judge([sc], [si]).get(0)
        if not sj:
            sc, si, sj = c, impl[n], spec_bad[n]
        sm = vlib.res_of(run_model([sc])[0])
        pick = [x for x in sj if x[1].startswith(REUSE_WORDS)] or sj
        step, msg = pick[0]
        if (describe_case(sc), msg) in said:
            continue
        said.add((describe_case(sc), msg))
        R.violation(f"{describe_case(sc)}: request #{step}: {msg}",
                    {"case": sc, "impl": si, "model": sm, "spec_verdict": [list(x) for x in sj],
                     "kind": "impl-vs-spec"})
    # 2. implementation differs from the model the theorems are about
    done = 0
    for n in bad:
        if n in spec_bad:
            continue
        c = cases[n]
        sig = (c["fam"], c.get("mech", c.get("kind")))
        if sig in seen or done >= 6:
            continue
        seen.add(sig)
        done += 1
        sc = shrink(R, exe, c)
        si = run_impl(R, exe, [sc])[0]
        sm = vlib.res_of(run_model([sc])[0])
        sj = judge([sc], [si]).get(0)
        what = f"{describe_case(sc)}: implementation {json.dumps(si)[:300]} differs from the proved model {json.dumps(sm)[:300]}"
        if sc["fam"] == "c10store":
            # for a store the model *is* the property (expiry enforced, non-positive TTL never stored)
            R.violation(what, {"case": sc, "impl": si, "model": sm, "kind": "impl-vs-model"})
        elif sj:
            R.violation(f"{describe_case(sc)}: request #{sj[0][0]}: {sj[0][1]}",
                        {"case": sc, "impl": si, "model": sm, "spec_verdict": [list(x) for x in sj],
                         "kind": "impl-vs-spec"})
        else:
            R.violation(what + " (no reuse beyond validity found on this input: the theorems no longer speak about "
                        "this code)", {"case": sc, "impl": si, "model": sm, "kind": "impl-vs-model"}, no_input=True)
    if not lean_ok:
        R.violation("theorems of Props/C10.lean no longer check: " + "; ".join(R.lean["failed"])[:600],
                    {"lean_log": R.lean["log"], "failed": R.lean["failed"],
                     "theorems": R.lean.get("failed_theorems")}, no_input=True)
    return timing


def rerun_inconclusive(R, exe, cases, impl):
    """cases that could not be placed inside their second / tick are tried once more, one after another"""
    idx = [n for n, (c, i) in enumerate(zip(cases, impl)) if case_inconclusive(c, i)]
    if not idx:
        return 0
    again = run_impl(R, exe, [cases[n] for n in idx])
    for n, i in zip(idx, again):
        impl[n] = i
    return len(idx)


def run(R):
    gen_err = regenerate(R)
    if gen_err:
        # a stub with the constants of the last successful extraction is in place: everything still builds, only
        # c10_constants_read_from_source fails; the correspondence run goes on with those constants
        R.violation("the cache constants can no longer be read from the source (extractor fails closed): " + gen_err,
                    {"extractor": "extract/validity (go/ast)", "error": gen_err}, no_input=True)
    lean_ok = vlib.step_lean(R, PID)
    src_ok, src_err = step_lean_src(R)
    exe = vlib.step_harness(R)
    if exe is None:
        R.violation("harness does not build against /repo (API used by the correspondence check changed)",
                    {"build_log": R.harness_log[-3000:]}, no_input=True)
        return
    if not os.path.exists(vlib.driver_cmd()[0]):
        R.violation("Lean driver does not build", {"lean_log": R.lean["log"]}, no_input=True)
        return
    corpus = vlib.load_corpus(PID)
    cases = corpus + build_cases(R)
    impl = run_impl(R, exe, cases)
    retried = rerun_inconclusive(R, exe, cases, impl)
    model = run_model(cases)
    timing = report(R, exe, cases, impl, model, lean_ok or bool(gen_err))
    if src_err:
        # the tie between the source and the model through the translated functions is broken; whether the change
        # matters is left to the correspondence run above
        R.violation("the TTL functions of the source can no longer be translated to Lean (extract/go2lean fails closed; "
                    "the theorems c10_src_* of Props/C10Src.lean say nothing about this code): " + src_err,
                    {"translator": "extract/go2lean (go/ast)", "error": src_err, "kind": "src-untranslatable"},
                    no_input=True)
    elif not src_ok:
        src_search(R, exe)
    tie.restore(SRC_TIE)
    # the replay file carries the first violation: concrete inputs first
    R.violations.sort(key=lambda v: v[2])
    evidence(R, corpus, cases, impl, model, timing)
    R.coverage["inconclusive_retried"] = retried
    # coverage must not silently evaporate on a loaded machine
    per_class = collections.Counter(c["fam"] + "/" + c.get("store", c.get("kind", "")) for c in cases)
    starved = {k: f"{v} of {per_class[k]}" for k, v in timing.items()
               if per_class[k] >= 20 and v > INCONCLUSIVE_LIMIT * per_class[k] or per_class[k] < 20 and v == per_class[k]}
    if starved:
        R.violation("too many cases could not be placed inside their second / tick even when re-run one by one "
                    f"(limit {int(INCONCLUSIVE_LIMIT * 100)} % per family and store): {starved}; the run says nothing "
                    "about these classes", {"inconclusive": starved}, no_input=True)


def replay(R, path):
    with open(path) as fh:
        p = json.load(fh)
    exe = vlib.step_harness(R)
    c = p["case"] if "case" in p else p
    i = run_impl(R, exe, [c])[0]
    m = vlib.res_of(run_model([c])[0])
    j = judge([c], [i]).get(0, [])
    print("impl :", json.dumps(i))
    print("model:", json.dumps(m))
    print("spec :", json.dumps(j))
    R.coverage.update({"obligations": 1, "discharged": 1, "checker_cmd": "replay", "trusted_base": []})
    pt = p.get("src_point") if isinstance(p, dict) else None
    if pt and isinstance(i, list) and i and isinstance(i[0], dict):
        # a point found through the translated source: the specification of the TTL on what the real code does there
        if pt["fn"] == "ttl":
            seen = i[0].get("set") or 0
            v = spec_verdicts(R, [{"mech": pt["mech"], "cfg": pt["cfg"], "rem": pt.get("rem"), "ttl": seen}])
            print("ttl  :", seen, json.dumps(v[0] if v else None))
            if v and v[0]:
                R.violation(f"replay: {describe_case(c)}: the real code hands ttl {seen} to the cache: "
                            + "; ".join(v[0]), {"case": c, "impl": i, "model": m, "src_point": pt})
                return
        elif i[0].get("gets") and pt["cfg"] is not None and pt["cfg"] <= 0:
            R.violation(f"replay: {describe_case(c)}: the real code reads the cache although cache_ttl={pt['cfg']}",
                        {"case": c, "impl": i, "model": m, "src_point": pt})
            return
    if j:
        R.violation(f"replay: request #{j[0][0]}: {j[0][1]}", {"case": c, "impl": i, "model": m, "spec_verdict": j})
    elif vlib.canon(i) != vlib.canon(m):
        R.violation("replay still differs from the model", {"case": c, "impl": i, "model": m},
                    no_input=c.get("fam") != "c10store")
