"""C15 — proxy mode forwards exactly the rewritten request, pipeline headers win.

Three artefacts are compared on every case (one raw client request + rule + pipeline result + trusted-proxy list):
  impl   the real proxy service / rule / reverse proxy, observed by a raw upstream test server (Go harness `proxyfwd`)
  model  `Heimdall.ProxyFwd.forward` (Lean driver), the function the theorems of Props/C15.lean are about
  spec   `Heimdall.ProxyFwd.Spec.violations` evaluated by the Lean driver on what the *implementation* forwarded
"""
import collections
import concurrent.futures
import copy
import json
import os
import shutil
import subprocess
import time

import gen_proxyfwd
import vlib

PID = "C15"
FLAVOURS = [None, None, "url", "headers", "reject"]

# clauses of the specification the implementation is known not to meet (design/C15.md, proposed known_findings entries)
DEVIATIONS = {
    "known-deviation: every value the pipeline produced under one name is forwarded": "C15-pipeline-second-value",
    "known-deviation: a header the pipeline produced under the name of the continued forwarding header is forwarded":
        "C15-pipeline-forwarded-overwritten",
    "known-deviation: X-Forwarded-For / Forwarded extended by the peer address whatever the Host of the request "
    "contains": "C15-forwarded-host-injection",
}


DRIVER = None
IMPL_PROCESSES = 4


def driver_cmd():
    return DRIVER or vlib.driver_cmd()


def pin_driver(R):
    """The Lean project is shared: another check may relink `driver` while this one runs (the file is absent for a
    moment). Work with a private copy of the executable this run has just built."""
    global DRIVER
    src = vlib.driver_cmd()[0]
    dst = os.path.join(R.tmp, "driver")
    for _ in range(60):
        try:
            shutil.copy2(src, dst)
            # a copy taken while the linker was still writing would not run
            if os.access(dst, os.X_OK) and subprocess.run([dst], input="", capture_output=True, text=True,
                                                          timeout=60).returncode == 0:
                DRIVER = [dst]
                return
        except (OSError, subprocess.SubprocessError):
            pass
        time.sleep(1)


# the clause that is the property's own sentence ("every header produced by the pipeline replaces any same-named header
# sent by the client"): reported in preference to the stricter clauses it implies, so that a shrunk replay still shows
# the client's value arriving at the upstream
CLIENT_VALUE = ("headers: no value the client sent reaches the upstream under a name the pipeline produced, whatever "
                "the pipeline rendered")


def gen_cases(R, n):
    return [gen_proxyfwd.gen_case(R.rng, R.rng.choice(FLAVOURS)) for _ in range(n)]


def evaluate(exe, cases):
    """-> list of (impl, model_res, model_stats, spec_violations, spec_applicable)"""
    # the model does not depend on what the implementation answers: both run side by side; a large batch is spread
    # over several harness processes (each starts its own proxy services and upstream listeners on ports of its own)
    k = IMPL_PROCESSES if len(cases) >= 400 else 1
    size = (len(cases) + k - 1) // k or 1
    parts = [cases[j:j + size] for j in range(0, len(cases), size)]
    with concurrent.futures.ThreadPoolExecutor(max_workers=len(parts) + 1) as pool:
        fmodel = pool.submit(vlib.run_cases, driver_cmd(), cases)
        impl = [r for part in pool.map(lambda p: vlib.run_cases([exe], p), parts) for r in part]
        model = fmodel.result()
    obs = [dict(c, obs=i) for c, i in zip(cases, impl)]
    spec = vlib.run_cases(driver_cmd(), obs)
    out = []
    for i, m, s in zip(impl, model, spec):
        mres = vlib.res_of(m)
        mstats = m.get("stats", {}) if isinstance(m, dict) else {}
        sres = vlib.res_of(s)
        if not isinstance(sres, list):
            sres = ["oracle could not read the observation: " + json.dumps(s)[:200]]
        sapp = s.get("stats", {}).get("applicable", []) if isinstance(s, dict) else []
        out.append((i, mres, mstats, sres, sapp))
    return out


def impl_broken(i):
    return (not isinstance(i, dict)) or any(k in i for k in ("crash", "panic", "harness_error", "unparsable"))


def signature(ev):
    """None if the case is fine; ("skip", why) / ("known", ids) if it does not count against the code;
    else a hashable description of what is wrong"""
    i, mres, mstats, sres, _ = ev
    if impl_broken(i):
        return ("harness", tuple(sorted(k for k in i if k in ("crash", "panic", "harness_error", "unparsable")))
                if isinstance(i, dict) else "?")
    if isinstance(i, dict) and "load" in i:
        return ("skip", "rule configuration rejected by heimdall: " + str(i["load"]))
    if isinstance(mres, dict) and mres.get("unmodelled"):
        return ("unmodelled", "the model declines the case")
    real = [v for v in sres if v not in DEVIATIONS]
    if real:
        return ("spec", CLIENT_VALUE if CLIENT_VALUE in real else real[0])
    if vlib.canon(i) != vlib.canon(mres):
        return ("model", diff_field(i, mres))
    if sres:
        return ("known", tuple(sorted(DEVIATIONS[v] for v in sres)))
    return None


def is_failure(sig):
    return sig is not None and sig[0] not in ("skip", "known")


def diff_field(i, m):
    if not isinstance(i, dict) or not isinstance(m, dict):
        return "shape"
    for k in ("status", "hits", "relayed"):
        if i.get(k) != m.get(k):
            return k
    iu, mu = i.get("up") or {}, m.get("up") or {}
    for k in ("tls", "dial", "method", "target", "host", "headers", "body", "proto"):
        if iu.get(k) != mu.get(k):
            return "up." + k
    return "other"


# ---------------------------------------------------------------------------------------------------------------
# shrinking

def _variants(c):
    """smaller / simpler neighbours of a case, most aggressive first"""
    out = []

    def v(f):
        d = copy.deepcopy(c)
        f(d)
        if d != c:
            out.append(d)

    for key in ("headers",):
        n = len(c["req"][key])
        if n:
            v(lambda d: d["req"].__setitem__("headers", []))
            for k in range(n):
                v(lambda d, k=k: d["req"]["headers"].pop(k))
    # the template sources / finalizer indices of real finalizers run parallel to the headers and cookies
    def drop(d, what, par, k=None):
        for f in (what,) + par:
            if f in d["pipe"]:
                if k is None:
                    d["pipe"][f] = []
                elif k < len(d["pipe"][f]):
                    d["pipe"][f].pop(k)

    if c["pipe"]["headers"]:
        v(lambda d: drop(d, "headers", ("tmpl", "fin")))
        for k in range(len(c["pipe"]["headers"])):
            v(lambda d, k=k: drop(d, "headers", ("tmpl", "fin"), k))
    if c["pipe"]["cookies"]:
        v(lambda d: drop(d, "cookies", ("ctmpl",)))
        for k in range(len(c["pipe"]["cookies"])):
            v(lambda d, k=k: drop(d, "cookies", ("ctmpl",), k))
    if c["pipe"].get("fin"):
        v(lambda d: d["pipe"].__setitem__("fin", list(range(len(d["pipe"]["headers"])))))
    v(lambda d: d["req"].__setitem__("body", ""))
    v(lambda d: d["req"].__setitem__("chunked", False))
    v(lambda d: d["pipe"].__setitem__("read_body", False))
    v(lambda d: d["pipe"].__setitem__("scripted", True))
    v(lambda d: d["req"].__setitem__("method", "GET"))
    v(lambda d: d["req"].__setitem__("host", "example.com"))
    v(lambda d: d["rule"].__setitem__("rewrite", None))
    if c["rule"]["rewrite"]:
        for f, e in (("scheme", ""), ("strip", ""), ("add", ""), ("strip_q", [])):
            v(lambda d, f=f, e=e: d["rule"]["rewrite"].__setitem__(f, e))
        for k in range(len(c["rule"]["rewrite"]["strip_q"])):
            v(lambda d, k=k: d["rule"]["rewrite"]["strip_q"].pop(k))
    v(lambda d: d["rule"].__setitem__("host", "ip"))
    v(lambda d: d["rule"].__setitem__("slashes", "no_decode"))
    v(lambda d: (d.__setitem__("trusted", None), d.__setitem__("peer", "127.0.0.1")))
    v(lambda d: d.__setitem__("tls", False))
    t = c["req"]["target"]
    if "?" in t:
        p, q = t.split("?", 1)
        v(lambda d: d["req"].__setitem__("target", p))
        parts = q.split("&")
        for k in range(len(parts)):
            v(lambda d, k=k: d["req"].__setitem__("target", p + "?" + "&".join(parts[:k] + parts[k + 1:])))
    else:
        p, q = t, None
    segs = p.split("/")[1:]
    for k in range(len(segs)):
        np_ = "/" + "/".join(segs[:k] + segs[k + 1:])
        v(lambda d, np_=np_: d["req"].__setitem__("target", np_ + ("" if q is None else "?" + q)))
    # single characters of the path (an escape %XX counts as one unit)
    i = 1
    while i < len(p):
        w = 3 if p[i] == "%" and i + 2 < len(p) else 1
        np_ = p[:i] + p[i + w:]
        v(lambda d, np_=np_: d["req"].__setitem__("target", np_ + ("" if q is None else "?" + q)))
        i += w
    for k, h in enumerate(c["req"]["headers"]):
        if len(h[1]) > 1:
            v(lambda d, k=k: d["req"]["headers"][k].__setitem__(1, "v"))
    for k, h in enumerate(c["pipe"]["headers"]):
        if len(h[1]) > 1 and h[1].strip(" \t"):
            def simpler(d, k=k):
                d["pipe"]["headers"][k][1] = "p"
                if k < len(d["pipe"].get("tmpl", [])):
                    d["pipe"]["tmpl"][k] = "p"
            v(simpler)
    return out


def shrink(exe, case, sig, budget=10):
    cur = case
    for _ in range(budget):
        cands = _variants(cur)[:80]
        if not cands:
            break
        evs = evaluate(exe, cands)
        nxt = None
        for cand, ev in zip(cands, evs):
            if signature(ev) == sig:
                nxt = cand
                break
        if nxt is None:
            break
        cur = nxt
    return cur


def nontrivial(st):
    return st.get("outcome") in ("http", "https") and (
        st.get("escapes", 0) > 0 or st.get("stripHits", 0) > 0 or st.get("add", 0) > 0 or st.get("stripQHits", 0) > 0
        or st.get("collide", 0) > 0 or st.get("clientFwdHeaders", 0) > 0 or st.get("hopByHop", 0) > 0
        or st.get("emptyReplacesClient", 0) > 0
        or st.get("forwardedUri", 0) > 0 or st.get("listenerTLS", 0) > 0)


# ---------------------------------------------------------------------------------------------------------------

def run(R):
    phases = {}
    t0 = time.time()
    lean_ok = vlib.step_lean(R, PID)
    pin_driver(R)
    phases["lean"] = round(time.time() - t0, 1)
    t0 = time.time()
    exe = vlib.step_harness(R)
    phases["harness_build"] = round(time.time() - t0, 1)
    if exe is None:
        R.violation("harness does not build against /repo (API used by the correspondence check changed)",
                    {"build_log": R.harness_log[-3000:]}, no_input=True)
        return
    corpus = vlib.load_corpus(PID)
    n = 9000 if R.tier == "quick" else 160000
    streams = [("corpus", corpus)]
    if R.tier == "thorough":
        streams.append(("small-scope", gen_proxyfwd.small_scope_cases()))
    chunk = 20000
    remaining = n
    while remaining > 0:
        k = min(chunk, remaining)
        streams.append(("random", gen_cases(R, k)))
        remaining -= k

    t0 = time.time()
    dist = collections.Counter()
    outcomes = collections.Counter()
    slashes = collections.Counter()
    applicable = collections.Counter()
    skipped = collections.Counter()
    known = collections.Counter()
    nontriv = set()
    total = 0
    unmodelled = []
    failures = {}           # signature -> (case, evaluation)
    nfail = 0
    sample = None
    for label, cases in streams:
        if not cases:
            continue
        evs = evaluate(exe, cases)
        for c, ev in zip(cases, evs):
            total += 1
            i, mres, st, sres, sapp = ev
            outcomes[st.get("outcome", "?")] += 1
            slashes[st.get("slashes", "?")] += 1
            for k, v in st.items():
                if isinstance(v, int) and v > 0:
                    dist[k] += 1
            for a in sapp:
                applicable[a.split(":")[0] + (":" + a.split(":")[1][:40] if a.startswith("known-deviation") else "")
                           if ":" in a else a] += 1
            sig = signature(ev)
            if sig is not None and sig[0] == "skip":
                skipped[sig[1]] += 1
                continue
            if sig is not None and sig[0] == "unmodelled":
                unmodelled.append(c)
                continue
            if sig is not None and sig[0] == "known":
                for fid in sig[1]:
                    known[fid] += 1
                    R.known_hits[fid] = R.known_hits.get(fid, 0) + 1
                sig = None
            if nontrivial(st):
                nontriv.add(vlib.case_hash(c))
                if sample is None and label == "random":
                    sample = c
            if sig is not None:
                nfail += 1
                failures.setdefault(sig, (c, ev))
        if len(failures) >= 6:
            break

    phases["cases"] = round(time.time() - t0, 1)
    # a failure counts only if a fresh process reproduces it (the loopback network of the sandbox is shared)
    flaky = []
    for sig, (c, ev) in list(failures.items()):
        again = signature(evaluate(exe, [c])[0])
        if again != sig:
            flaky.append({"signature": list(sig), "second_run": list(again) if again else None, "case": c,
                          "impl_first_run": ev[0]})
            del failures[sig]

    R.coverage.update({
        "evaluations": total, "distinct_nontrivial": len(nontriv),
        "rule": "one raw HTTP/1.1 request (request target with arbitrary percent-escapes / raw octets / repeated, encoded, "
                "malformed query pairs; header lines in random casing and multiplicity incl. the seven forwarding headers, "
                "Connection lists and hop-by-hop headers; any method token; binary / chunked bodies up to 70 kB) sent from a "
                "chosen loopback peer address over a plain or TLS listener to the real proxy service configured with a "
                "trusted-proxy list, a rule with allow_encoded_slashes / forward_to.host / rewrite and a pipeline of real "
                "header/cookie finalizers obtained from the real mechanism factory and configured in the rule with templates "
                "over the subject's attributes and the request that render to ordinary, empty, blank and blank-padded values "
                "and to joined lists (or a scripted finalizer) whose header names collide with the client's in any casing "
                "(User-Agent, Accept-Encoding, Cookie, Host included); a decoy listener stands behind Host values; "
                "the request read by a raw upstream test server is compared with the Lean model and judged by the Lean "
                "specification. non-trivial = the request was forwarded AND (its path contains escapes, or a prefix was "
                "stripped/added, or a listed query parameter was present, or a pipeline header (possibly rendered empty) collided "
                "with a client header, or the client sent forwarding / hop-by-hop headers, or the listener is TLS); distinct "
                "by hash of the case; "
                "cases heimdall rejects at rule load time are skipped and counted, cases in a recorded deviation class are "
                "counted as known findings when implementation = model",
        "outcomes": dict(outcomes), "allow_encoded_slashes": dict(slashes),
        "cases_with_feature": dict(dist), "spec_clause_applicable": dict(applicable),
        "unmodelled_cases": len(unmodelled), "skipped_cases": dict(skipped), "known_deviation_cases": dict(known),
        "corpus_cases": len(corpus), "failing_cases": nfail, "not_reproduced": len(flaky), "not_reproduced_samples": flaky[:3],
        "samples": [sample if sample is not None else (corpus[0] if corpus else None)],
        "exhaustive": False, "phase_seconds": phases,
    })
    if R.tier == "thorough":
        R.coverage["small_scope"] = ("every escape %00..%FF (both hex cases) and every raw octet 0x21..0xFF except DEL as one "
                                     "unit of a path x 3 encoded-slash settings x {no rewrite, strip+add prefix}")
    R.assumptions += [
        "Go's net/http server (request parsing, canonical header names), httputil.ReverseProxy (hop-by-hop and forwarding "
        "headers removed before Rewrite) and http.Transport (request line, header order, User-Agent, Accept-Encoding, "
        "framing) are modelled as observed, not verified; protocol upgrades that are accepted (101), trailers, HTTP/2, "
        "CONNECT, request targets not in origin form, header names/values the HTTP client refuses and cookie names/values "
        "that need sanitising are outside the generated space",
        "tracing is not initialised in the harness: the otelhttp transport does not touch Traceparent/Tracestate/Baggage "
        "(production sets a propagator that overwrites them)",
        "the pipeline is represented by what it produced (AddHeaderForUpstream / AddCookieForUpstream calls in order): for the "
        "real header and cookie finalizers that is one call per configured name with the value its template renders to; "
        "the rendered value is known by construction of the template (tools/gen_proxyfwd.py Templates: constants, "
        "subject attributes read plainly / under `with` / with `default` / between trim markers, the subject id, "
        "`join` and `range` over list attributes, `.Request.Header`), Go's text/template and sprig are not modelled; "
        "a template source that is the empty string (heimdall answers 500) and rendered values containing CR/LF "
        "(refused by the HTTP client, 502) are outside the generated space, as is a pipeline Host of blanks only",
        "X-Forwarded-Uri values of trusted peers are modelled for origin-form values without fragment only",
        "Content-Length / Transfer-Encoding lines are not compared (the body is compared as bytes)",
    ]

    if unmodelled:
        R.violation(f"{len(unmodelled)} generated case(s) lie outside the modelled input space: the generator and the model "
                    "no longer agree on the space, the cases were not judged", {"case": unmodelled[0]}, no_input=True)
    order = {"spec": 0, "model": 1, "harness": 2}
    for sig, (c, ev) in sorted(failures.items(),
                               key=lambda kv: (order.get(kv[0][0], 3), kv[0][1] != CLIENT_VALUE))[:3]:
        sc = shrink(exe, c, sig)
        i, mres, st, sres, _ = evaluate(exe, [sc])[0]
        payload = {"case": sc, "impl": i, "model": mres, "spec_violations": sres, "kind": sig[0], "original_case": c}
        if sig[0] == "spec":
            R.violation("the forwarded request violates the specification: " + "; ".join(sres)[:400], payload)
        elif sig[0] == "model":
            R.violation(f"implementation differs from the proved model in {sig[1]} (the specification's clauses hold on "
                        "this input: the tie between theorems and code is broken)", payload, no_input=True)
        else:
            R.violation(f"harness could not run the case: {sig[1]}", payload, no_input=True)
    if not lean_ok:
        R.violation("theorems of Props/C15.lean no longer check: " + "; ".join(R.lean["failed"])[:600],
                    {"lean_log": R.lean["log"], "failed": R.lean["failed"],
                     "theorems": R.lean.get("failed_theorems")}, no_input=True)


def replay(R, path):
    with open(path) as fh:
        p = json.load(fh)
    pin_driver(R)
    exe = vlib.step_harness(R)
    c = p["case"]
    i, mres, st, sres, _ = evaluate(exe, [c])[0]
    print("impl :", json.dumps(i))
    print("model:", json.dumps(mres))
    print("spec :", json.dumps(sres))
    R.coverage.update({"obligations": 1, "discharged": 1, "checker_cmd": "replay", "trusted_base": []})
    sig = signature((i, mres, st, sres, []))
    if is_failure(sig) or (sig is not None and sig[0] == "unmodelled"):
        R.violation("replay still fails: " + (("; ".join(sres)) if sres else str(sig)),
                    {"case": c, "impl": i, "model": mres, "spec_violations": sres})
