"""C18 — rule providers converge to the latest valid content of their sources."""
import json
import os
import subprocess
import threading
import time

import gen_prov
import go2lean_c18
import vlib

PID = "C18"
WORKERS = max(2, min(12, (os.cpu_count() or 4) - 2))

BUDGET = {
    # kind: (quick, thorough)
    "fs": (1500, 30000),
    "fslive": (200, 3000),
    "fsduring": (60, 600),       # kind "fslive" with rule files replaced while Start is in its initial load
    "http": (1200, 20000),
    "blob": (400, 4000),
    "k8s": (48, 400),
}


KIND_COST = {"k8s": 0, "blob": 1, "fslive": 2, "http": 3, "fs": 4}      # expensive kinds are started first


def run_parallel(cmd, cases):
    """WORKERS harness processes, each fed one case at a time from a common queue (the providers under test do real
    I/O, the S3 client retries closed connections with back-off and the kubernetes informer sleeps between a broken
    watch and the next list, so cases differ in cost by three orders of magnitude); results in input order.
    A process that dies on a case yields {"crash": ...} for it and is replaced."""
    if not cases:
        return []
    order = sorted(range(len(cases)), key=lambda i: (KIND_COST.get(cases[i].get("kind"), 5), i))
    out = [None] * len(cases)
    lock = threading.Lock()
    pos = [0]

    def take():
        with lock:
            if pos[0] >= len(order):
                return None
            pos[0] += 1
            return order[pos[0] - 1]

    def worker():
        proc = None
        while True:
            i = take()
            if i is None:
                break
            if proc is None or proc.poll() is not None:
                proc = subprocess.Popen(cmd, stdin=subprocess.PIPE, stdout=subprocess.PIPE, stderr=subprocess.PIPE,
                                        text=True)
            try:
                proc.stdin.write(json.dumps(cases[i], separators=(",", ":")) + "\n")
                proc.stdin.flush()
                line = proc.stdout.readline()
            except (BrokenPipeError, OSError):
                line = ""
            if not line.strip():
                proc.kill()
                err = proc.stderr.read()[-2000:] if proc.stderr else ""
                out[i] = {"crash": err, "rc": proc.wait()}
                proc = None
                continue
            try:
                out[i] = json.loads(line)
            except ValueError:
                out[i] = {"unparsable": line[:500]}
        if proc is not None:
            proc.stdin.close()
            proc.wait()

    threads = [threading.Thread(target=worker) for _ in range(min(WORKERS, len(cases)))]
    for t in threads:
        t.start()
    for t in threads:
        t.join()
    return out


def gen_cases(R):
    cases = []
    for kind, (q, t) in BUDGET.items():
        n = q if R.tier == "quick" else t
        for _ in range(n):
            if kind == "blob" and R.tier == "thorough":
                cases.append(gen_prov.gen_blob(R.rng, netfail=0.004))
            elif kind == "k8s" and R.tier == "thorough":
                cases.append(gen_prov.gen_k8s(R.rng, relists=R.rng.choice([1, 1, 2])))
            else:
                cases.append(gen_prov.gen_case(R.rng, kind))
    return cases


def usable(x):
    return isinstance(x, dict) and "steps" in x


def differs(i, m):
    return vlib.canon(i) != vlib.canon(vlib.res_of(m))


def first_diff(case, i, m):
    """(index or 'start', step input, impl value, model value)"""
    m = vlib.res_of(m)
    if not usable(i) or not usable(m):
        return None, None, i, m
    if "start" in m and vlib.canon(i.get("start")) != vlib.canon(m["start"]):
        return "start", dict({"init": case.get("init"), "start": case.get("start")},
                             **({"during": case["during"]} if case.get("during") else {})), i.get("start"), m["start"]
    for k, (a, b) in enumerate(zip(i["steps"], m["steps"])):
        if vlib.canon(a) != vlib.canon(b):
            return k, case["steps"][k], a, b
    return len(min(i["steps"], m["steps"], key=len)), None, None, None


CUT_HOW = {"short": "Content-Length announces the whole document, connection closed after a part of it",
           "chunk": "chunked transfer broken off inside a chunk",
           "chunkend": "chunked transfer without the terminating chunk",
           "over": "more bytes sent than Content-Length announces"}


def cut_in_force(case, k):
    """the transport damage step k of the history is subject to: (spec, source) or None"""
    if not isinstance(k, int) or k >= len(case.get("steps", [])):
        return None
    step = case["steps"][k]
    if isinstance(step.get("resp"), dict) and step["resp"].get("st") == "cut":
        return step["resp"], "s%d" % step.get("k", 0)
    state = {}
    for st in case["steps"][:k + 1]:
        for b in st.get("set", []) or []:
            state[b["k"]] = b["blob"]
    polled = step.get("b", 0)
    for key, spec in sorted(state.items()):
        if spec.get("st") == "cut" and key // 4 == polled and "set" in step and not step.get("fail"):
            return spec, "s%d" % key
    return None


def explain(case, i, m):
    k, step, a, b = first_diff(case, i, m)
    kind = case.get("kind")
    if step is None:
        return f"{kind} provider: implementation {json.dumps(a)[:300]} vs proved model {json.dumps(b)[:300]}"
    what = []
    cut = cut_in_force(case, k)
    if cut is not None and cut[0].get("how") != "over" and isinstance(a, dict) and isinstance(b, dict):
        lost = [x for x in (b.get("active") or []) if x[0] == cut[1] and x not in (a.get("active") or [])]
        deleted = [c for c in (a.get("calls") or []) if c[0] == "deleted" and c[1] == cut[1]]
        if lost or deleted:
            what.append(f"a partially received version of {cut[1]} ({'GET of the listed object: ' if kind == 'blob' else ''}"
                        f"status 200, {CUT_HOW.get(cut[0].get('how'), '')}"
                        f"{', reset' if cut[0].get('rst') else ''}) is content that cannot be used, not a missing source: "
                        f"the version loaded before has to stay active ({'c18_partial_blob_keeps_previous' if kind == 'blob' else 'c18_partial_response_keeps_previous'}), but "
                        + (f"the processor was called with {json.dumps(deleted[0])} and " if deleted else "")
                        + f"the active rule set {json.dumps(lost[0] if lost else cut[1])} is lost")
    if isinstance(a, dict) and isinstance(b, dict):
        twice = [x for x in (a.get("active") or []) if len(x[1]) > 1]
        if twice and not [x for x in (b.get("active") or []) if len(x[1]) > 1]:
            what.append(("rule files were replaced while Start was inside a processor call of its initial load "
                         f"({json.dumps(case['during'])[:160]}): " if k == "start" and case.get("during") else "")
                        + f"more than one rule set is active for one source ({json.dumps(twice)}): a version that is "
                        "not the latest valid content stays loaded next to it (c18_fs_start_under_changes_no_duplicate, "
                        "c18_repository_is_book)")
        shared = sorted({x[0] for x in (a.get("active") or []) + (a.get("book") or []) if "|" in str(x[0])} |
                        {x[1] for x in (a.get("calls") or []) if "|" in str(x[1])})
        if shared:
            what.append("different configured sources share one source id / state key (" + ", ".join(shared)
                        + "): their rule sets replace and delete each other")
        if a.get("panic") and not b.get("panic"):
            what.append("the notification handler panicked")
        if vlib.canon(a.get("calls")) != vlib.canon(b.get("calls")):
            what.append(f"processor calls {json.dumps(a.get('calls'))} instead of {json.dumps(b.get('calls'))}")
        if vlib.canon(a.get("active")) != vlib.canon(b.get("active")):
            what.append(f"active rule sets {json.dumps(a.get('active'))} instead of {json.dumps(b.get('active'))}")
        if vlib.canon(a.get("served")) != vlib.canon(b.get("served")):
            what.append(f"requests are answered by {json.dumps(a.get('served'))} instead of {json.dumps(b.get('served'))}")
        if vlib.canon(a.get("book")) != vlib.canon(b.get("book")):
            what.append(f"remembered hashes {json.dumps(a.get('book'))} instead of {json.dumps(b.get('book'))}")
        if a.get("err") != b.get("err"):
            what.append(f"error reported: {a.get('err')} instead of {b.get('err')}")
    return (f"{kind} provider does not follow its sources: after step {k} {json.dumps(step)[:200]}: "
            + "; ".join(what)[:1100])


def shrink(exe, case):
    def fails(c):
        i = vlib.run_cases([exe], [c], timeout=300)[0]
        m = vlib.run_cases(vlib.driver_cmd(), [c])[0]
        return usable(i) and usable(vlib.res_of(m)) and differs(i, m)

    if not fails(case):
        return case
    cur = dict(case)
    if cur.get("init"):
        cur["init"] = vlib.ddmin(cur["init"], lambda x: fails(dict(cur, init=x)))
        if len(cur["init"]) == 1 and fails(dict(cur, init=[])):
            cur["init"] = []
    if len(cur["steps"]) > 1:
        cur["steps"] = vlib.ddmin(cur["steps"], lambda x: fails(dict(cur, steps=x)))
        if len(cur["steps"]) == 1 and fails(dict(cur, steps=[])):
            cur["steps"] = []
    if len(cur.get("during") or []) > 1:
        cur["during"] = vlib.ddmin(cur["during"], lambda x: fails(dict(cur, during=x)))
    # fewer blobs per poll / objects per list
    for idx, st in enumerate(list(cur["steps"])):
        for key in ("set", "objs"):
            if isinstance(st.get(key), list) and len(st[key]) > 1:
                def f(items, idx=idx, key=key):
                    steps = list(cur["steps"])
                    steps[idx] = dict(steps[idx], **{key: items})
                    return fails(dict(cur, steps=steps))
                small = vlib.ddmin(st[key], f)
                steps = list(cur["steps"])
                steps[idx] = dict(st, **{key: small})
                cur["steps"] = steps
    return cur


def spec_mismatch(i, m):
    """impl vs SPEC: after every step, the rule sets active in the real repository are exactly the latest valid
    content of each source (one rule set per source). Returns the first step where that fails."""
    spec = m.get("spec") if isinstance(m, dict) else None
    if spec is None or not usable(i):
        return None
    if isinstance(i.get("start"), dict) and i["start"].get("err"):
        return None        # Start failed: heimdall does not come up
    if isinstance(i.get("start"), dict) and "spec_start" in m:
        # after Start (and, where files were replaced meanwhile, after everything notified has been handled): one rule
        # set per source, the latest valid content the provider was shown - no second version next to it
        if "spec_start_disk" in m:
            # files were replaced during Start: per source the version the load was shown or, if the provider noticed
            # the change, the latest valid content on disk - one of them, once
            shown, disk, got = (dict((s, vs) for s, vs in x) for x in (m["spec_start"], m["spec_start_disk"],
                                                                       i["start"].get("active") or []))
            for s in sorted(set(shown) | set(disk) | set(got)):
                if got.get(s) not in (shown.get(s), disk.get(s)):
                    return "start", [[s, got.get(s, [])]], [[s, shown.get(s, [])], "or", [s, disk.get(s, [])]]
            if got != shown:
                return None     # it noticed changes the model does not show it: the oracle below does not apply
        else:
            for key in ("active", "served"):
                want = m["spec_start"] if key == "active" else served_of(m["spec_start"])
                if vlib.canon(i["start"].get(key)) != vlib.canon(want):
                    return "start", i["start"].get(key), want
    for k, (a, want) in enumerate(zip(i["steps"], spec)):
        if vlib.canon(a.get("active")) != vlib.canon(want):
            return k, a.get("active"), want
        if "served" in a:
            # ... and they are what requests are really answered with (FindRule on the path of every content)
            exp = served_of(want)
            if vlib.canon(a["served"]) != vlib.canon(exp):
                return k, a["served"], exp
    return None


def served_of(want):
    exp = sorted(([path_of(int(vs[0][1:])), s, vs[0]] for s, vs in want if len(vs) == 1), key=lambda x: x[0])
    return [["/c%d" % p, s, v] for p, s, v in exp]


def path_of(v):
    return v % 500 if v < 1000 else v


def note_cut(outcomes, prov, spec, loaded):
    """distribution of the transport-level damage: how, where, and whether a rule set was loaded that could be lost"""
    where = {"": "at 0" if spec.get("at", 0) == 0 else "near the start", "mid": "around the middle",
             "end": "one byte short" if spec.get("at", 0) == 0 else "last bytes missing"}[spec.get("rel", "")]
    for key in (f"cut:{prov} {spec.get('how')}" + (" reset" if spec.get("rst") else ""), f"cut:{prov} {where}",
                f"cut:{prov} while a rule set is loaded" if loaded else f"cut:{prov} while nothing is loaded"):
        outcomes[key] = outcomes.get(key, 0) + 1


def tally(cases, model):
    st = {"steps": 0, "created": 0, "updated": 0, "deleted": 0, "refused_calls": 0, "steps_without_call": 0,
          "steps_without_call_while_loaded": 0, "polls_with_2plus_calls": 0, "relists": 0,
          "calls_refused_by_the_repository": 0, "refused_then_later_deleted_or_updated": 0}
    by_kind = {}
    outcomes = {}
    nontrivial = set()
    for c, m in zip(cases, model):
        r = vlib.res_of(m)
        by_kind[c["kind"]] = by_kind.get(c["kind"], 0) + 1
        if any(f["file"].get("link") for f in c.get("init", []) if "file" in f):
            outcomes["config:symlink present at start"] = outcomes.get("config:symlink present at start", 0) + 1
        if c.get("during"):
            outcomes["config:files replaced during the initial load"] = \
                outcomes.get("config:files replaced during the initial load", 0) + 1
            for d in c["during"]:
                key = "during-start:" + d["file"]["st"] + (" (link)" if d["file"].get("link") else "")
                outcomes[key] = outcomes.get(key, 0) + 1
        if len(c.get("buckets", [])) >= 2:
            outcomes["config:blob 2+ buckets"] = outcomes.get("config:blob 2+ buckets", 0) + 1
            pairs = [(b.get("name"), b.get("prefix", "")) for b in c["buckets"]]
            if len(set(pairs)) < len(pairs):
                outcomes["config:blob buckets differing in the url query only"] = \
                    outcomes.get("config:blob buckets differing in the url query only", 0) + 1
        if c.get("endpoints"):
            outcomes["config:http endpoints sharing the path"] = outcomes.get("config:http endpoints sharing the path", 0) + 1
        if not usable(r):
            continue
        kinds = set()
        refused_srcs = set()
        quiet_loaded = False
        for s, o in zip(c["steps"], r["steps"]):
            st["steps"] += 1
            for key in ("file", "resp"):
                if key in s:
                    outcomes[s[key].get("st")] = outcomes.get(s[key].get("st"), 0) + 1
                    if s[key].get("st") == "cut":
                        note_cut(outcomes, "http", s[key], bool(o.get("active")))
                    if s[key].get("link"):
                        lk = "symlink:" + {"missing": "dangling", "dir": "to a directory"}.get(s[key].get("st"), "to a file")
                        outcomes[lk] = outcomes.get(lk, 0) + 1
            for b in s.get("set", []):
                outcomes["blob:" + b["blob"]["st"]] = outcomes.get("blob:" + b["blob"]["st"], 0) + 1
                if b["blob"]["st"] == "cut":
                    note_cut(outcomes, "blob", b["blob"], any(a[0] == "s%d" % b["k"] for a in o.get("active", [])))
            if s.get("fail"):
                outcomes["poll:" + s["fail"]] = outcomes.get("poll:" + s["fail"], 0) + 1
            if s.get("ev"):
                outcomes["k8s:" + s["ev"]] = outcomes.get("k8s:" + s["ev"], 0) + 1
            if s.get("do"):
                outcomes["file-op:" + s["do"]] = outcomes.get("file-op:" + s["do"], 0) + 1
            if s.get("ev") == "relist":
                st["relists"] += 1
            calls = o.get("calls", [])
            if len(calls) >= 2:
                st["polls_with_2plus_calls"] += 1
            if not calls:
                st["steps_without_call"] += 1
                if o.get("active"):
                    st["steps_without_call_while_loaded"] += 1
                    quiet_loaded = True
            scripted = {"s%d" % x for x in s.get("rej", [])}
            spec_bad = json.dumps(s).find('"bad"') >= 0
            for call in calls:
                if call[3] != "ok" and not spec_bad and call[1].split("u")[0] not in scripted and call[1] not in scripted:
                    st["calls_refused_by_the_repository"] += 1
                    refused_srcs.add(call[1])
                elif call[3] == "ok" and call[1] in refused_srcs and call[0] in ("deleted", "updated"):
                    st["refused_then_later_deleted_or_updated"] += 1
                    refused_srcs.discard(call[1])
            for call in calls:
                if call[3] == "ok":
                    st[call[0]] += 1
                    kinds.add(call[0])
                else:
                    st["refused_calls"] += 1
        if {"updated", "deleted"} <= kinds and quiet_loaded:
            nontrivial.add(vlib.case_hash(c))
    return st, by_kind, outcomes, nontrivial


def run(R):
    try:
        _run(R)
    finally:
        go2lean_c18.report(R)


def _run(R):
    t0 = time.time()
    lean_ok = vlib.step_lean(R, PID)
    go2lean_c18.step(R)
    t1 = time.time()
    exe = vlib.step_harness(R)
    t2 = time.time()
    if exe is None:
        R.violation("harness does not build against /repo (provider API used by the correspondence check changed)",
                    {"build_log": R.harness_log[-3000:]}, no_input=True)
        return
    corpus = vlib.load_corpus(PID)
    cases = corpus + gen_cases(R)
    impl = run_parallel([exe], cases)
    t3 = time.time()
    model = vlib.run_cases(vlib.driver_cmd(), cases)
    t4 = time.time()
    R.coverage["wall_breakdown_s"] = {"lean_theorems_and_audit": round(t1 - t0, 1), "harness_build": round(t2 - t1, 1),
                                      "implementation_runs": round(t3 - t2, 1), "model_runs": round(t4 - t3, 1)}
    bad = []
    harness_errors = []
    for c, i, m in zip(cases, impl, model):
        if not usable(i):
            harness_errors.append((c, i, m))
        elif differs(i, m):
            bad.append((c, i, m))
    # Every provider runs on its own goroutines against real files / sockets: on a busy machine a step can be observed
    # before the provider got to it (S3 client retrying with back-off, fsnotify batching). A disagreement therefore
    # counts only if it shows again when the history is run alone; a defect of the code is deterministic here.
    flaky = 0

    def confirmed(c, i, m, pred):
        nonlocal flaky
        for _ in range(2):
            i2 = vlib.run_cases([exe], [c], timeout=600)[0]
            if pred(i2):
                return i2
        flaky += 1
        return None

    kept = []
    for c, i, m in harness_errors:
        i2 = confirmed(c, i, m, lambda x: not usable(x))
        if i2 is not None:
            kept.append((c, i2, m))
    harness_errors = kept
    kept = []
    for c, i, m in bad[:40]:
        i2 = confirmed(c, i, m, lambda x, m=m: usable(x) and differs(x, m))
        if i2 is not None:
            kept.append((c, i2, m))
    bad = kept + bad[40:]
    for n, (c, i, m) in enumerate(zip(cases, impl, model)):
        # the SPEC oracle below judges the confirmed observation
        for c2, i2, _ in bad:
            if c2 is c:
                impl[n] = i2
    R.coverage["disagreements_not_reproduced_alone"] = flaky
    # impl vs SPEC on the same runs
    spec_bad = []
    spec_checked = 0
    for c, i, m in zip(cases, impl, model):
        if isinstance(m, dict) and "spec" in m and usable(i):
            spec_checked += 1
            sm = spec_mismatch(i, m)
            if sm is not None and not any(c is x[0] for x in bad):
                i2 = confirmed(c, i, m, lambda x, m=m: usable(x) and spec_mismatch(x, m) is not None)
                if i2 is None:
                    continue
                i, sm = i2, spec_mismatch(i2, m)
            if sm is not None:
                spec_bad.append((c, i, m, sm))
    st, by_kind, outcomes, nontrivial = tally(cases, model)
    R.coverage.update({
        "evaluations": len(cases), "distinct_nontrivial": len(nontrivial),
        "rule": "random histories of rule-set sources per provider: file_system (notifications with any op bits handed "
                "to ruleSetsChanged over real files, and real file operations observed through fsnotify; directory "
                "entries are regular files, sub directories or symbolic links to a file / a directory / nothing, "
                "present at start, created, re-pointed and removed; rule files replaced, emptied, removed or added while "
                "Start is held inside the first processor call of its initial load - the file being loaded, files "
                "not yet opened, files opened already -, then a notification for the changed file), "
                "http_endpoint (1-3 endpoints, also same path on two hosts or differing in the query only; httptest servers: valid yaml/json, empty, unparsable, unknown content type, 4xx/5xx, "
                "closed connection, cancelled poll, and transport-level damage of an otherwise valid 200 answer: "
                "Content-Length announced and the connection closed / reset after k bytes (k = 0, near the start, "
                "around the middle, the last bytes or byte missing), chunked transfer broken off inside a chunk or "
                "before the terminating chunk, more bytes sent than announced), cloud_blob (S3 fake: blobs "
                "appearing/changing/emptied/broken/removed, GET of a listed object broken off mid-body at the same "
                "offsets, unreachable bucket, single-blob urls), kubernetes (real informer over a scripted "
                "list/watch: add/modify/delete, status-only updates, class changes, broken watch with missed "
                "deletions and re-created resources); each step may have the rule-set processor refuse the calls "
                "of some sources, and file_system / http_endpoint histories contain well-formed contents the REAL "
                "repository refuses (path expression owned by another source) followed by removals and valid updates; the real providers with a recording processor in front of the real processor, "
                "rule factory and repository are compared step by step (calls with results, active rule sets, "
                "rule answering a request for the path of every content (FindRule), remembered hashes) with the Lean "
                "model, and the active rule sets and answering rules with the SPEC (latest valid content). Non-trivial = history with at least one accepted update, one accepted deletion and one "
                "step without any call while rule sets were loaded; distinct by hash of the case",
        "cases_by_provider": by_kind, "input_mix": outcomes, "corpus_cases": len(corpus),
        "spec_oracle_comparisons": spec_checked, "harness_errors": len(harness_errors),
        "samples": [cases[len(corpus)]] + [c for c in cases[len(corpus):] if c["kind"] == "k8s"][:1],
        "exhaustive": False,
    })
    R.coverage.update(st)
    R.assumptions += [
        "a content is identified with its digest: SHA-256 (file_system, http_endpoint) and the MD5 reported by the "
        "blob store are assumed collision free, and a blob store that reports no MD5 at all is out of scope "
        "(cloud_blob would then never notice a change)",
        "notification delivery is trusted: fsnotify / the scheduler / the informer deliver at least one notification "
        "after the last change of a source; the informer (client-go) is run for real but not modelled beyond its "
        "documented delta semantics",
        "the rule-set processor is modelled by accept/refuse and the list of loaded rule sets (C06 proves the "
        "repository behind it); a rule set refused for its own rules is treated like a refused call",
        "communication errors of http_endpoint and cloud_blob (no answer at all, an answer with another status) are "
        "taken for 'source gone' as the code does (the property allows keep or unload); heimdall's documentation "
        "promises 'preserved', see design/C18.md. A 200 answer / a listed object whose body arrives incompletely is "
        "NOT in this class: it is an invalid new version and has to leave the loaded one active "
        "(c18_partial_response_keeps_previous, c18_partial_blob_keeps_previous)",
        "'more bytes sent than announced' hands the client a clean prefix; the generator cuts block-style YAML "
        "documents only where the prefix is no rule set (measured over every offset: every proper non-empty prefix "
        "up to the last three bytes), JSON documents anywhere; a prefix of length 0 is an empty answer",
        "provider models describe /repo with fixes/C18-1..5 applied",
    ]
    for c, i, m in harness_errors[:3]:
        R.violation(f"{c.get('kind')} provider could not be driven: {json.dumps(i)[:400]}",
                    {"case": c, "impl": i, "model": vlib.res_of(m), "kind": "harness"}, no_input=False)
    ncorpus = len(corpus)
    corpus_bad = [x for x in bad if any(x[0] is c for c in cases[:ncorpus])]
    fresh_bad = [x for x in bad if not any(x[0] is c for c in cases[:ncorpus])]
    per_kind = {}
    reported = 0
    for c, i, m in corpus_bad + fresh_bad:
        fresh = not any(c is x for x in cases[:ncorpus])
        if reported >= 16 or (fresh and per_kind.get(c["kind"], 0) >= 2):
            continue
        per_kind[c["kind"]] = per_kind.get(c["kind"], 0) + (1 if fresh else 0)
        key = (c["kind"],)
        sc = shrink(exe, c) if fresh else c
        si = vlib.run_cases([exe], [sc], timeout=300)[0]
        sm = vlib.run_cases(vlib.driver_cmd(), [sc])[0]
        if not (usable(si) and differs(si, sm)):
            sc, si, sm = c, i, m
        reported += 1
        spec_fail = spec_mismatch(si, sm) if isinstance(sm, dict) else None
        what = explain(sc, si, sm)
        if spec_fail is not None:
            what += (f" -- property violated: after step {spec_fail[0]} active {json.dumps(spec_fail[1])}, latest "
                     f"valid content {json.dumps(spec_fail[2])}")
        R.violation(what, {"case": sc, "impl": si, "model": vlib.res_of(sm), "spec": sm.get("spec") if isinstance(sm, dict) else None,
                           "kind": "impl-vs-model", "provider": key[0]}, no_input=False)
    if not bad:
        for c, i, m, smm in spec_bad[:3]:
            R.violation(f"{c['kind']} provider: active rule sets {json.dumps(smm[1])} after step {smm[0]} are not the "
                        f"latest valid content {json.dumps(smm[2])}",
                        {"case": c, "impl": i, "spec": m.get("spec"), "kind": "impl-vs-spec"}, no_input=False)
    R.coverage["disagreements_checked"] = len(bad) + len(spec_bad) + len(harness_errors)
    if not lean_ok:
        R.violation("theorems of Props/C18.lean no longer check: " + "; ".join(R.lean["failed"])[:600],
                    {"lean_log": R.lean["log"], "failed": R.lean["failed"],
                     "theorems": R.lean.get("failed_theorems")}, no_input=True)


def replay(R, path):
    with open(path) as fh:
        p = json.load(fh)
    exe = vlib.step_harness(R)
    c = p["case"] if "case" in p else p
    i = vlib.run_cases([exe], [c], timeout=300)[0]
    m = vlib.run_cases(vlib.driver_cmd(), [c])[0]
    print("impl :", json.dumps(i))
    print("model:", json.dumps(vlib.res_of(m)))
    print("spec :", json.dumps(m.get("spec") if isinstance(m, dict) else None))
    R.coverage.update({"obligations": 1, "discharged": 1, "checker_cmd": "replay", "trusted_base": []})
    if not usable(i) or differs(i, m):
        R.violation("replay still differs: " + explain(c, i, m), {"case": c, "impl": i, "model": vlib.res_of(m)})
