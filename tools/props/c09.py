"""C09 — forwarded headers from untrusted peers never influence a decision.

Steps of a run
 1. regenerate lean/HeimdallModel/Gen/ReqView.lean from the current sources (extract/reqview, go/ast, fails closed);
 2. lake build Props/C09.lean (theorems + `decide` obligations over the regenerated tables) and axiom audit;
 3. build the overlay harness (real decision / proxy services, real rules and mechanisms, real upstream);
 4. correspondence: corpus, cases aimed at every header name the source mentions, (thorough) every subset of the
    family, seeded random requests in-process and over real TCP connections from loopback source addresses, and a
    high-volume stream on the trust decision alone; implementation and Lean model must agree on status, matched rule,
    request view, headers shown to mechanisms and forwarded headers received by the upstream;
 5. a disagreement is shrunk and reported with the aspect of the property it breaks.
"""
import copy
import itertools
import json
import os
import re
import subprocess

import gen_fwd
import vlib

PID = "C09"
GEN_FILE = os.path.join(vlib.LEAN, "HeimdallModel", "Gen", "ReqView.lean")
EXTRACTOR = os.path.join(vlib.VERIF, "extract", "reqview")


# ---------------------------------------------------------------------------------------------------------------
# regenerated facts

def regenerate(R):
    """-> (ok, tables | error text)"""
    if os.path.exists(GEN_FILE):
        os.remove(GEN_FILE)
    p = subprocess.run(["go", "run", ".", vlib.REPO], cwd=EXTRACTOR, env=vlib.go_env(), capture_output=True,
                       text=True, timeout=600)
    if p.returncode != 0:
        # keep the Lean project well-formed: an empty table file makes every obligation about it fail
        with open(GEN_FILE, "w") as fh:
            fh.write("/-! extraction FAILED (fail closed): " + p.stderr.strip().replace("-/", "- /")[:400] + " -/\n"
                     "namespace Heimdall.Gen.ReqView\n"
                     + "".join(f"def {n} : List String := []\n" for n in
                               ("stripSet", "readSet", "mentioned", "dynamicReaders", "outDel", "outSet",
                                "chainDecision", "chainProxy"))
                     + "end Heimdall.Gen.ReqView\n")
        return False, (p.stderr or p.stdout)[-2000:]
    with open(GEN_FILE, "w") as fh:
        fh.write(p.stdout)
    tables = {}
    for m in re.finditer(r"^def (\w+) : List String := (\[.*\])$", p.stdout, re.M):
        tables[m.group(1)] = json.loads(m.group(2))
    return True, tables


# ---------------------------------------------------------------------------------------------------------------
# cases

ATTACK = {"method": "DELETE", "proto": "https", "host": "trusted.example.com", "uri": "/admin/secret?role=admin",
          "ip": "10.0.0.1", "fwd": "for=10.0.0.1;proto=https;host=trusted.example.com"}


def base_case(mode, trusted, remote, headers, method="GET", path="/x/public", query="a=1", host="svc.local", tls=False):
    return {"fam": "fwd", "op": "req", "mode": mode, "trusted": trusted, "remote": remote, "tls": tls, "method": method,
            "host": host, "esc_path": path, "raw_query": query, "target": path + ("?" + query if query else ""),
            "headers": headers}


def targeted_cases(tables):
    """requests built around every header name the source mentions (and the near misses of the generator): one name at
    a time with every kind of value an attacker would try, from an unlisted and from a listed peer, both services"""
    names = sorted(set(tables.get("readSet", [])) | set(tables.get("mentioned", [])) | set(tables.get("stripSet", []))
                   | set(gen_fwd.FAMILY) | set(gen_fwd.NEAR_MISS))
    cases = []
    for name in names:
        for val in ATTACK.values():
            for spelled in (name, name.lower(), name.upper()):
                for mode in ("decision", "proxy"):
                    if spelled != name and mode == "proxy":
                        continue
                    cases.append(base_case(mode, ["192.0.2.0/24"], "203.0.113.7:4711", [[spelled, val]]))
                    if spelled == name and not (name == "X-Forwarded-Method" and val != ATTACK["method"]):
                        # (a listed peer announcing something that is not a method token makes the proxy fail with 502)
                        cases.append(base_case(mode, ["203.0.113.0/24"], "203.0.113.7:4711", [[spelled, val]]))
    return cases


def small_scope_cases():
    """every subset of the seven family headers x {unlisted, listed peer} x both services x three spellings"""
    vals = {"Forwarded": "for=10.9.8.7;proto=https", "X-Forwarded-For": "10.9.8.7, 10.9.8.6", "X-Forwarded-Proto": "https",
            "X-Forwarded-Host": "trusted.example.com", "X-Forwarded-Uri": "/m/zz?b=2&a=1", "X-Forwarded-Path": "/admin/x",
            "X-Forwarded-Method": "DELETE"}
    cases = []
    for k in range(len(gen_fwd.FAMILY) + 1):
        for sub in itertools.combinations(gen_fwd.FAMILY, k):
            for spell in (str, str.lower, str.upper):
                hs = [[spell(n), vals[n]] for n in sub] + [["Accept", "*/*"]]
                for mode in ("decision", "proxy"):
                    for trusted in (["198.51.100.0/24"], ["203.0.113.7"]):
                        cases.append(base_case(mode, trusted, "203.0.113.7:4711", copy.deepcopy(hs), path="/h/y/z",
                                               tls=(k % 2 == 0)))
    return cases


def fill_uri_tables(exe, cases, setup):
    vals = sorted({v for c in cases if c.get("op") == "req" for v in gen_fwd.uri_values_of(c)})
    out = vlib.run_cases([exe], [setup, {"fam": "fwd", "op": "uri", "vals": vals}])
    if len(out) < 2 or not isinstance(out[1], list):
        raise RuntimeError("harness cannot evaluate net/url: " + json.dumps(out)[:500])
    tab = {row[0]: row for row in out[1]}
    for c in cases:
        if c.get("op") == "req":
            c["uri_tab"] = [tab[v] for v in dict.fromkeys(gen_fwd.uri_values_of(c))]
    return out[0]


# ---------------------------------------------------------------------------------------------------------------
# comparing, explaining, shrinking

def agree(i, m):
    return vlib.canon(i) == vlib.canon(vlib.res_of(m))


def skipped(i):
    return isinstance(i, dict) and "skip" in i


def explain(case, i, m):
    """which part of the property a disagreement breaks"""
    m = vlib.res_of(m)
    if not isinstance(i, dict) or not isinstance(m, dict):
        return "implementation and model give incomparable answers"
    if case.get("op") == "trust":
        did = {True: "keeps the forwarded headers", False: "deletes the forwarded headers"}.get(
            i.get("trusted"), f"keeps only {i.get('kept')} of the forwarded headers")
        return (f"trust decision differs: trusted_proxies={case['trusted']} peer {case['remote']!r}: the middleware "
                f"{did}, the peer is {'listed' if m.get('trusted') else 'not listed'}")
    for key in ("harness_error", "panic", "crash"):
        if key in i:
            return f"implementation side failed ({key}): {str(i[key])[:200]}"
    parts = []
    if i.get("status") != m.get("status"):
        parts.append(f"status {i.get('status')} instead of {m.get('status')}")
    iv, mv = i.get("view") or {}, m.get("view") or {}
    comp = [k for k in ("method", "scheme", "host", "rawpath", "query", "ips") if iv.get(k) != mv.get(k)]
    if comp:
        parts.append("request view differs in " + ", ".join(f"{k} ({iv.get(k)!r} instead of {mv.get(k)!r})" for k in comp))
    if i.get("rule") != m.get("rule"):
        parts.append(f"matched rule {i.get('rule')} instead of {m.get('rule')}")
    if i.get("hdrs") != m.get("hdrs") or i.get("xfm") != m.get("xfm"):
        ih = {k for k, _ in (i.get("hdrs") or [])}
        mh = {k for k, _ in (m.get("hdrs") or [])}
        parts.append(f"headers shown to mechanisms differ (only implementation: {sorted(ih - mh)}, only model: "
                     f"{sorted(mh - ih)})" if ih != mh else "values of headers shown to mechanisms differ")
    if i.get("up") != m.get("up"):
        parts.append(f"upstream received {json.dumps(i.get('up'))} instead of {json.dumps(m.get('up'))}")
    if i.get("path_ok") is False:
        parts.append("URL.Path is not the unescaped URL.RawPath")
    return "; ".join(parts) or "answers differ"


def run_pair(exe, setup, case):
    i = vlib.run_cases([exe], [setup, case])
    i = i[1] if len(i) > 1 else {"crash": "no answer"}
    m = vlib.run_cases(vlib.driver_cmd(), [case])[0]
    return i, m


def rule_differs(i, m):
    m = vlib.res_of(m)
    return isinstance(i, dict) and isinstance(m, dict) and i.get("rule") != m.get("rule")


def shrink(exe, setup, case, keep_rule_difference=False):
    def fails(c):
        i, m = run_pair(exe, setup, c)
        return not skipped(i) and not agree(i, m) and (not keep_rule_difference or rule_differs(i, m))

    cur = copy.deepcopy(case)
    if cur.get("op") == "req":
        if len(cur["headers"]) > 1:
            keep_conn = [h for h in cur["headers"] if h[0] == "Connection"] if cur.get("tcp_from") else []
            rest = [h for h in cur["headers"] if h not in keep_conn]
            hs = vlib.ddmin(rest, lambda hs: fails(dict(cur, headers=hs + keep_conn)))
            if fails(dict(cur, headers=hs + keep_conn)):
                cur["headers"] = hs + keep_conn
        if not cur.get("tcp_from"):
            for field, simple in (("tls", False), ("method", "GET"), ("host", "svc.local")):
                cand = dict(cur, **{field: simple})
                if cur[field] != simple and fails(cand):
                    cur = cand
            cand = dict(cur, esc_path="/x/public", raw_query="", target="/x/public")
            if fails(cand):
                cur = cand
    if isinstance(cur.get("trusted"), list) and len(cur["trusted"]) > 1:
        ts = vlib.ddmin(cur["trusted"], lambda ts: fails(dict(cur, trusted=ts)))
        if fails(dict(cur, trusted=ts)):
            cur["trusted"] = ts
    if cur.get("op") == "req":
        vals = list(dict.fromkeys(gen_fwd.uri_values_of(cur)))
        cur["uri_tab"] = [row for row in cur.get("uri_tab", []) if row[0] in vals]
    return cur


def failed_theorems(log):
    """names of the theorems of Props/C09.lean in which the build log reports an error"""
    path = os.path.join(vlib.LEAN, "HeimdallModel", "Props", "C09.lean")
    with open(path) as fh:
        lines = fh.read().splitlines()
    names = []
    for m in re.finditer(r"Props/C09\.lean:(\d+):\d+", log):
        ln = int(m.group(1))
        for k in range(min(ln, len(lines)) - 1, -1, -1):
            t = re.match(r"\s*(?:theorem|example|instance)\s*([^\s:(]*)", lines[k])
            if t:
                name = t.group(1) or f"example at line {k + 1}"
                if name not in names:
                    names.append(name)
                break
    return names


# ---------------------------------------------------------------------------------------------------------------

def run(R):
    gen_ok, tables = regenerate(R)
    lean_ok = vlib.step_lean(R, PID)
    if not lean_ok:
        with vlib.LeanLock():
            vlib.lake(["build", "driver"])
    exe = vlib.step_harness(R)
    if exe is None:
        R.violation("harness does not build against /repo (API used by the correspondence check changed)",
                    {"build_log": R.harness_log[-3000:]}, no_input=True)
        return
    if not os.path.exists(vlib.driver_cmd()[0]):
        R.violation("Lean driver does not build", {"lean_log": R.lean["log"]}, no_input=True)
        return
    setup = {"fam": "fwd", "op": "setup", "tmp": os.path.join(R.tmp, "fwd")}
    first = vlib.run_cases([exe], [setup])
    info = first[0] if first else {}
    if not (isinstance(info, dict) and info.get("ok")):
        R.violation("decision/proxy service cannot be assembled from configuration and rule files",
                    {"setup": info}, no_input=True)
        return
    if info.get("cfg_decision") != ["192.0.2.1", "198.51.100.0/24"] or \
            info.get("cfg_proxy") != ["2001:db8::/32", "not-an-ip"]:
        R.violation("trusted_proxies of the configuration file do not reach the service configuration",
                    {"case": {"serve.decision.trusted_proxies": ["192.0.2.1", "198.51.100.0/24"],
                              "serve.proxy.trusted_proxies": ["2001:db8::/32", "not-an-ip"]},
                     "impl": info, "model": "lists as written"})

    quick = R.tier == "quick"
    corpus = vlib.load_corpus(PID)
    n_req, n_tcp, n_trust = (6000, 300, 12000) if quick else (150000, 4800, 300000)
    tgt = targeted_cases(tables if gen_ok else {})
    block = 12      # requests per generated service instance
    rnd = [c for _ in range(n_req // block) for c in gen_fwd.gen_req_block(R.rng, block)]
    tcp = [c for _ in range(n_tcp // block) for c in
           gen_fwd.gen_req_block(R.rng, block, tcp=True, ipv6_ok=bool(info.get("ipv6")))]
    trust = [gen_fwd.gen_trust_case(R.rng) for _ in range(n_trust)]
    small = [] if quick else small_scope_cases()
    cases = corpus + tgt + small + rnd + tcp + trust
    fill_uri_tables(exe, cases, setup)

    impl = vlib.run_cases([exe], [setup] + cases, timeout=1500)[1:]
    model = vlib.run_cases(vlib.driver_cmd(), cases, timeout=1500)

    bad = []
    nontriv = set()
    dist = {"req_cases": 0, "trust_cases": 0, "tcp_cases": 0, "tcp_skipped": 0, "unlisted_peer_with_family_headers": 0,
            "listed_peer_with_family_headers": 0, "listed_peer_without": 0, "unlisted_peer_without": 0,
            "matched_rule_would_differ_if_headers_were_honoured_or_ignored": 0, "status_404": 0,
            "unparsable_peer_address": 0, "trust_true": 0, "trust_false": 0,
            "trust_unpatched_code_would_differ": 0, "invalid_entries_seen": 0, "decision": 0, "proxy": 0}
    overridden = {}
    fam_names = {}
    rules = {}
    for c, i, m in zip(cases, impl, model):
        st = m.get("stats", {}) if isinstance(m, dict) else {}
        if c["op"] == "req":
            dist["req_cases"] += 1
            dist[c["mode"]] += 1
            if c.get("tcp_from"):
                dist["tcp_cases"] += 1
            fam = st.get("family_lines", 0) > 0
            tr = bool(st.get("trusted"))
            dist[("listed" if tr else "unlisted") + "_peer_" + ("with_family_headers" if fam else "without")] += 1
            if st.get("rule_differs_from_actual"):
                dist["matched_rule_would_differ_if_headers_were_honoured_or_ignored"] += 1
            if st.get("rule") == "none":
                dist["status_404"] += 1
            if not st.get("peer_parsable", True):
                dist["unparsable_peer_address"] += 1
            for o in st.get("overridden", []):
                overridden[o] = overridden.get(o, 0) + 1
            for n in st.get("family_names", []):
                fam_names[n] = fam_names.get(n, 0) + 1
            rules[st.get("rule", "?")] = rules.get(st.get("rule", "?"), 0) + 1
            if fam:
                nontriv.add(vlib.case_hash({k: v for k, v in c.items() if k != "uri_tab"}))
        else:
            dist["trust_cases"] += 1
            dist["trust_true" if st.get("trusted") else "trust_false"] += 1
            if st.get("unpatched") != st.get("trusted"):
                dist["trust_unpatched_code_would_differ"] += 1
            dist["invalid_entries_seen"] += st.get("entries", 0) - st.get("entries_valid", 0)
            if st.get("entries_valid", 0) > 0:
                nontriv.add(vlib.case_hash(c))
        if skipped(i):
            dist["tcp_skipped"] += 1
            continue
        if not agree(i, m):
            bad.append((c, i, m))

    R.coverage.update({
        "evaluations": len(cases), "distinct_nontrivial": len(nontriv),
        "rule": "one HTTP request (raw bytes parsed by net/http; in-process with a chosen RemoteAddr, or over a real TCP "
                "connection from a 127.x.y.z / ::1 source address) through the real decision or proxy service built for a "
                "generated trusted_proxies list, compared with the Lean model on status, matched rule, request view, headers "
                "shown to mechanisms and forwarded headers received by the real upstream; plus the trust decision of the "
                "real middleware alone. Non-trivial = request with at least one header line of the forwarded family "
                "(any spelling), resp. trust case with at least one valid entry; distinct by hash of the case",
        "distribution": dist, "view_components_overridden_by_listed_peers": overridden,
        "family_header_occurrences": fam_names, "matched_rules": rules,
        "corpus_cases": len(corpus), "targeted_cases": len(tgt), "small_scope_cases": len(small),
        "generated_tables": tables if gen_ok else {"extraction_failed": str(tables)[:500]},
        "samples": [{k: v for k, v in rnd[0].items()}, trust[0]],
        "exhaustive": False,
    })
    if small:
        R.coverage["small_scope"] = "all 128 subsets of the forwarded family x 3 spellings x {unlisted, listed} x {decision, proxy}"
    R.assumptions += [
        "url.Parse / URL.EscapedPath / Query().Encode() on X-Forwarded-Uri is a parameter of the model (theorems hold for "
        "every such function); the correspondence run instantiates it with the graph of the real net/url",
        "net/http's request reader (header canonicalisation, value trimming), httputil.ReverseProxy's removal of "
        "Forwarded/X-Forwarded-For/-Host/-Proto from the outgoing request and Go's net.ParseIP/ParseCIDR/SplitHostPort are "
        "re-modelled in Lean and validated by the correspondence run only",
        "header values are ASCII; header names are valid tokens (others are rejected by net/http before any handler runs)",
        "URL.Path is not part of the model: the harness checks with the real net/url that it is the unescaped URL.RawPath",
        "the model skips trusted_proxies entries that are not IP addresses (fixes/C09-1.patch, in /repo as 7f0f8a0); on a "
        "tree without that fix the check reports the violation with a replay",
        "hop-by-hop header handling and pipeline headers of the proxy are outside this model (C15)",
    ]

    seen = set()
    for c, i, m in bad:
        what = explain(c, i, m)
        sig = re.sub(r"'[^']*'|\"[^\"]*\"|\[[^\]]*\]", "_", what)[:80]
        if sig in seen or len(seen) >= 6:
            continue
        seen.add(sig)
        sc = shrink(exe, setup, c, keep_rule_difference=rule_differs(i, m))   # keep "another rule is matched" visible
        si, sm = run_pair(exe, setup, sc)
        alone = not skipped(si) and not agree(si, sm)
        if not alone:
            # differs inside the stream only: the answer depends on earlier requests to the same service instance
            sc, si, sm = c, i, m
        st = sm.get("stats", {}) if isinstance(sm, dict) else {}
        if sc.get("op") == "req":
            who = "listed (trusted)" if st.get("trusted") else "NOT listed in trusted_proxies"
            what = f"{sc['mode']} service, peer {sc['remote']!r} {who} by {sc.get('trusted')}: " + explain(sc, si, sm)
        else:
            what = explain(sc, si, sm)
        if not alone:
            what += " [only within the request stream of this run, not when the request is sent alone]"
        R.violation(what, {"case": sc, "impl": si, "model": vlib.res_of(sm), "kind": "impl-vs-model(=spec)",
                           "disagreeing_cases_in_this_run": len(bad)}, no_input=not alone)
    if not gen_ok:
        R.violation("fact extractor does not recognise the source any more (fails closed): " + str(tables)[-300:],
                    {"extractor": str(tables)}, no_input=not bad)
    if not lean_ok:
        R.violation("theorems / generated obligations of Props/C09.lean no longer check: "
                    + (", ".join(failed_theorems(R.lean["log"])) or "; ".join(R.lean["failed"]))[:600],
                    {"lean_log": R.lean["log"], "failed": R.lean["failed"], "theorems": R.lean.get("failed_theorems"),
                     "generated_tables": tables if gen_ok else None}, no_input=not bad)


def replay(R, path):
    with open(path) as fh:
        p = json.load(fh)
    c = p["case"] if "case" in p else p
    exe = vlib.step_harness(R)
    if exe is None:
        R.violation("harness does not build", {"build_log": R.harness_log[-3000:]}, no_input=True)
        return
    setup = {"fam": "fwd", "op": "setup", "tmp": os.path.join(R.tmp, "fwd")}
    if c.get("op") == "req":
        fill_uri_tables(exe, [c], setup)
    i, m = run_pair(exe, setup, c)
    print("case :", json.dumps(c))
    print("impl :", json.dumps(i))
    print("model:", json.dumps(vlib.res_of(m)))
    R.coverage.update({"obligations": 1, "discharged": 1, "checker_cmd": "replay", "trusted_base": []})
    if not agree(i, m):
        R.violation("replay still differs: " + explain(c, i, m), {"case": c, "impl": i, "model": vlib.res_of(m)})
