"""C09 — forwarded headers from untrusted peers never influence a decision.

Steps of a run
 1. build the overlay harness (real decision / proxy services, real rules and mechanisms, real upstream);
 2. facts about the current code, written to lean/HeimdallModel/Gen/ReqView.lean:
    * MEASURED on the running services (so that code motion, helpers, constants, inverted conditions or slices helpers
      cannot break the tie): which header names are deleted for an unlisted peer (each candidate alone and all
      together, both services) and which names influence the request view / the forwarded headers sent upstream for a
      listed peer (each candidate alone with every kind of value, both services);
    * a shape-independent syntactic inventory (extract/reqview, go/ast with constants resolved): every string that
      looks like a forwarding header name and every such name a header map is asked for — these are also the
      candidates of the measurement;
 3. lake build Props/C09.lean (theorems + `decide` obligations over these tables) and axiom audit;
 4. correspondence: corpus, cases aimed at every candidate name, (thorough) every subset of the family, seeded random
    requests in-process and over real TCP connections from loopback source addresses, listed and unlisted peers served
    IN PARALLEL by one service instance (4+4 goroutines), and a high-volume stream on the trust decision alone;
    implementation and Lean model must agree on status, matched rule, request view, headers shown to mechanisms and
    forwarded headers received by the upstream;
 5. a disagreement is shrunk — to a single request, or, if it only shows after earlier requests, to a short request
    sequence replayed in a fresh process — and reported with the aspect of the property it breaks.
"""
import copy
import itertools
import json
import os
import re
import subprocess

import gen_fwd
import go2lean_c09
import vlib

PID = "C09"
GEN_FILE = os.path.join(vlib.LEAN, "HeimdallModel", "Gen", "ReqView.lean")
EXTRACTOR = os.path.join(vlib.VERIF, "extract", "reqview")


# ---------------------------------------------------------------------------------------------------------------
# facts about the current code

TABLES = ("stripDecision", "stripProxy", "readDecision", "readProxy", "mentioned", "astReads", "dynamicReaders",
          "candidates")


def ast_facts():
    """-> (ok, {"mentioned", "astReads", "dynamicReaders"} | error text)"""
    p = subprocess.run(["go", "run", ".", vlib.REPO], cwd=EXTRACTOR, env=vlib.go_env(), capture_output=True,
                       text=True, timeout=600)
    if p.returncode != 0:
        return False, (p.stderr or p.stdout)[-2000:]
    try:
        return True, json.loads(p.stdout)
    except Exception:
        return False, p.stdout[-2000:]


PROBE_VALUES = ["DELETE", "https", "probe.example.com", "/x/probe?p=1", "198.51.100.99",
                "for=198.51.100.99;proto=https;host=probe.example.com"]
UNLISTED = (["192.0.2.0/24"], "203.0.113.7:4711")
LISTED = (["203.0.113.0/24"], "203.0.113.7:4711")


def harmless_value(name):
    return "/x/probe" if re.search(r"uri|url|path", name, re.I) else "GET"


def measure_facts(exe, setup, candidates):
    """run the real services: -> tables stripDecision/stripProxy/readDecision/readProxy (sorted name lists)"""
    probes = []     # (kind, mode, name | None, case)
    for mode in ("decision", "proxy"):
        for n in candidates:
            probes.append(("strip1", mode, n, base_case(mode, *UNLISTED, [[n, harmless_value(n)]])))
        probes.append(("stripall", mode, None,
                       base_case(mode, *UNLISTED, [[n, harmless_value(n)] for n in candidates])))
        probes.append(("base", mode, None, base_case(mode, *LISTED, [])))
        for n in candidates:
            for v in PROBE_VALUES:
                probes.append(("read", mode, n, base_case(mode, *LISTED, [[n, v]])))
    out = vlib.run_cases([exe], [setup] + [p[3] for p in probes], timeout=600)[1:]

    def shown(o):
        return {k for k, _ in o.get("hdrs", [])} if isinstance(o, dict) and o.get("status") == 200 else None

    def observable(o):
        if not isinstance(o, dict):
            return "?"
        up = o.get("up") or {}
        return vlib.canon([o.get("status"), o.get("rule"), o.get("view"), up.get("method"), up.get("uri"), up.get("fwd")])

    tables = {}
    for mode, tag in (("decision", "Decision"), ("proxy", "Proxy")):
        all_shown = None
        kept, read = set(), set()
        base = None
        for (kind, m, n, _), o in zip(probes, out):
            if m != mode:
                continue
            if kind == "strip1":
                sh = shown(o)
                if sh is None or n in sh:
                    kept.add(n)
            elif kind == "stripall":
                all_shown = shown(o)
            elif kind == "base":
                base = observable(o)
            elif kind == "read" and observable(o) != base:
                read.add(n)
        for n in candidates:
            if all_shown is None or n in all_shown:
                kept.add(n)
        tables["strip" + tag] = sorted(set(candidates) - kept)
        tables["read" + tag] = sorted(read)
    return tables, [p[3] for p in probes]


def write_gen(tables, note=""):
    with open(GEN_FILE, "w") as fh:
        fh.write("/-! GENERATED by tools/props/c09.py on every check run from the current heimdall sources "
                 "(measured on the running services + extract/reqview) — do not edit. " + note.replace("-/", "- /") + " -/\n"
                 "namespace Heimdall.Gen.ReqView\n\n"
                 "/-- names deleted for an unlisted peer, measured through the decision service -/\n"
                 f"def stripDecision : List String := {json.dumps(tables.get('stripDecision', []))}\n"
                 "/-- … through the proxy service -/\n"
                 f"def stripProxy : List String := {json.dumps(tables.get('stripProxy', []))}\n"
                 "/-- names that change the request view for a listed peer, measured through the decision service -/\n"
                 f"def readDecision : List String := {json.dumps(tables.get('readDecision', []))}\n"
                 "/-- names that change the view or the forwarded headers sent upstream, through the proxy service -/\n"
                 f"def readProxy : List String := {json.dumps(tables.get('readProxy', []))}\n"
                 "/-- every string literal / constant of the packages that looks like a forwarding header name -/\n"
                 f"def mentioned : List String := {json.dumps(tables.get('mentioned', []))}\n"
                 "/-- every such name a header map is asked for (literal or package constant) -/\n"
                 f"def astReads : List String := {json.dumps(tables.get('astReads', []))}\n"
                 "/-- functions asking a request header map for a computed name (informational) -/\n"
                 f"def dynamicReaders : List String := {json.dumps(tables.get('dynamicReaders', []))}\n"
                 "/-- the names whose influence was measured (informational) -/\n"
                 f"def candidates : List String := {json.dumps(tables.get('candidates', []))}\n"
                 "\nend Heimdall.Gen.ReqView\n")


# ---------------------------------------------------------------------------------------------------------------
# cases

ATTACK = {"method": "DELETE", "proto": "https", "host": "trusted.example.com", "uri": "/admin/secret?role=admin",
          "ip": "10.0.0.1", "fwd": "for=10.0.0.1;proto=https;host=trusted.example.com"}


def base_case(mode, trusted, remote, headers, method="GET", path="/x/public", query="a=1", host="svc.local", tls=False):
    return {"fam": "fwd", "op": "req", "mode": mode, "trusted": trusted, "remote": remote, "tls": tls, "method": method,
            "host": host, "raw_path": "", "esc_path": path, "raw_query": query, "target": path + ("?" + query if query else ""),
            "headers": headers}


def canon_key(name):
    """textproto.CanonicalMIMEHeaderKey for token names"""
    out, up = [], True
    for ch in name:
        out.append(ch.upper() if up else ch.lower())
        up = ch == "-"
    return "".join(out)


def candidate_names(ast):
    return sorted({canon_key(n) for n in set(ast.get("mentioned", [])) | set(ast.get("astReads", []))
                   | set(gen_fwd.FAMILY) | set(gen_fwd.NEAR_MISS)})


def comparable(case):
    """fact probes that the model can follow (a listed peer announcing something that is not a method token makes the
    proxy answer 502 before anything can be observed)"""
    return not (case["mode"] == "proxy" and case["trusted"] == LISTED[0] and
                any(k.lower() == "x-forwarded-method" and not re.fullmatch(r"[A-Za-z]+", v) for k, v in case["headers"]))


def targeted_cases(names):
    """requests built around every candidate header name: one name at a time with every kind of value an attacker
    would try, from an unlisted and from a listed peer, both services"""
    cases = []
    for name in names:
        for val in ATTACK.values():
            for spelled in (name, name.lower(), name.upper()):
                for mode in ("decision", "proxy"):
                    if spelled != name and mode == "proxy":
                        continue
                    cases.append(base_case(mode, ["192.0.2.0/24"], "203.0.113.7:4711", [[spelled, val]]))
                    if spelled == name and not (name == "X-Forwarded-Method" and val != ATTACK["method"]):
                        # (a listed peer announcing something that is not a method token makes the proxy fail with 502)
                        cases.append(base_case(mode, ["203.0.113.0/24"], "203.0.113.7:4711", [[spelled, val]]))
    return cases


def parallel_cases(rng, n, rounds):
    """one service instance, 4 goroutines of a listed peer and 4 of an unlisted one, all carrying forwarded headers"""
    cases = []
    for k in range(n):
        mode = "decision" if k % 4 != 3 else "proxy"
        listed = "10.%d.%d.%d" % (rng.randrange(256), rng.randrange(256), rng.randrange(1, 255))
        other = "172.%d.%d.%d" % (16 + rng.randrange(16), rng.randrange(256), rng.randrange(1, 255))
        trusted = [listed] if k % 2 == 0 else [listed + "/31", "not-an-ip"]
        workers = []
        for w in range(8):
            ip = listed if w % 2 == 0 else other
            c = base_case(mode, trusted, "%s:%d" % (ip, 1024 + w), gen_fwd.headers_of(rng), path="/m/par/%d" % w,
                          query="w=%d" % w)
            if not any(h[0].lower() in ("forwarded", "x-forwarded-for", "x-forwarded-host", "x-forwarded-proto") for h in c["headers"]):
                c["headers"].append(["X-Forwarded-Host", "trusted.example.com"])
            # keep the proxy happy: a listed peer must announce a method token
            c["headers"] = [h for h in c["headers"] if h[0].lower() != "x-forwarded-method"] + [["X-Forwarded-Method", "DELETE"]]
            workers.append(c)
        cases.append({"fam": "fwd", "op": "par", "mode": mode, "trusted": trusted, "rounds": rounds if mode == "decision" else rounds // 4,
                      "workers": workers})
    return cases


def pair_sequences():
    """an unlisted peer sending one family header, then another one: every ordered pair, in one process"""
    vals = {"Forwarded": "for=10.9.8.7;proto=https", "X-Forwarded-For": "10.9.8.7", "X-Forwarded-Proto": "https",
            "X-Forwarded-Host": "trusted.example.com", "X-Forwarded-Uri": "/admin/zz", "X-Forwarded-Path": "/admin/x",
            "X-Forwarded-Method": "DELETE"}
    cases = []
    for a in gen_fwd.FAMILY:
        subs = [base_case("decision", [], "203.0.113.7:4711", [[a, vals[a]]], path="/h/seq")]
        subs += [base_case("proxy" if i % 2 else "decision", [], "203.0.113.8:4711", [[b, vals[b]]], path="/m/seq")
                 for i, b in enumerate(gen_fwd.FAMILY) if b != a]
        cases.append({"fam": "fwd", "op": "seq", "cases": subs})
    return cases


def req_parts(case):
    """the single requests a case consists of"""
    if case.get("op") == "req":
        return [case]
    if case.get("op") == "seq":
        return case["cases"]
    if case.get("op") == "par":
        return case["workers"]
    return []


def small_scope_cases():
    """every subset of the seven family headers x {unlisted, listed peer} x both services x three spellings"""
    vals = {"Forwarded": "for=10.9.8.7;proto=https", "X-Forwarded-For": "10.9.8.7, 10.9.8.6", "X-Forwarded-Proto": "https",
            "X-Forwarded-Host": "trusted.example.com", "X-Forwarded-Uri": "/m/zz?b=2&a=1", "X-Forwarded-Path": "/admin/x",
            "X-Forwarded-Method": "DELETE"}
    cases = []
    for k in range(len(gen_fwd.FAMILY) + 1):
        for sub in itertools.combinations(gen_fwd.FAMILY, k):
            for spell in (str, str.lower, str.upper):
                hs = [[spell(n), vals[n]] for n in sub] + [["Accept", "*/*"]]
                for mode in ("decision", "proxy"):
                    for trusted in (["198.51.100.0/24"], ["203.0.113.7"]):
                        cases.append(base_case(mode, trusted, "203.0.113.7:4711", copy.deepcopy(hs), path="/h/y/z",
                                               tls=(k % 2 == 0)))
    return cases


def fill_uri_tables(exe, cases, setup):
    """net/url is a parameter of the model: ask the real one what it makes of every X-Forwarded-Uri value (url.Parse) and
    of every request target (url.ParseRequestURI, as the request reader does) and put the answers into the cases"""
    parts = [p for c in cases for p in req_parts(c)]
    vals = sorted({v for p in parts for v in gen_fwd.uri_values_of(p)})
    targets = sorted({p["target"] for p in parts})
    out = vlib.run_cases([exe], [setup, {"fam": "fwd", "op": "uri", "vals": vals},
                                 {"fam": "fwd", "op": "uri", "vals": targets, "request_target": True}])
    if len(out) < 3 or not isinstance(out[1], list) or not isinstance(out[2], list):
        raise RuntimeError("harness cannot evaluate net/url: " + json.dumps(out)[:500])
    tab = {row[0]: row for row in out[1]}
    ttab = {row[0]: row for row in out[2]}
    for p in parts:
        p["uri_tab"] = [tab[v] for v in dict.fromkeys(gen_fwd.uri_values_of(p))]
        row = ttab[p["target"]]
        if not row[1]:
            raise RuntimeError("generated request target is not accepted by net/url: " + p["target"])
        p["raw_path"], p["esc_path"], p["raw_query"] = row[2], row[3], row[4]
    return out[0]


# ---------------------------------------------------------------------------------------------------------------
# comparing, explaining, shrinking

def agree(i, m):
    return vlib.canon(i) == vlib.canon(vlib.res_of(m))


def skipped(i):
    return isinstance(i, dict) and "skip" in i


def who(case, m):
    st = m.get("stats", {}) if isinstance(m, dict) else {}
    listed = "listed (trusted)" if st.get("trusted") else "NOT listed in trusted_proxies"
    return f"{case['mode']} service, peer {case['remote']!r} {listed} by {case.get('trusted')}: "


def explain(case, i, m):
    """which part of the property a disagreement breaks"""
    m = vlib.res_of(m)
    if case.get("op") == "seq" and isinstance(i, list) and isinstance(m, list):
        for k, (sub, si, sm) in enumerate(zip(case["cases"], i, m)):
            if vlib.canon(si) != vlib.canon(sm):
                sub_m = vlib.run_cases(vlib.driver_cmd(), [sub])[0]
                return (f"request {k + 1} of a sequence of {len(case['cases'])} requests in one process"
                        + (" (it is answered correctly when sent first): " if k else ": ")
                        + who(sub, sub_m) + explain(sub, si, sm))
        return "sequence answers differ"
    if case.get("op") == "par" and isinstance(i, list) and isinstance(m, list):
        for k, (sub, si, sm) in enumerate(zip(case["workers"], i, m)):
            for ans in (si if isinstance(si, list) else [si]):
                if not sm or vlib.canon(ans) != vlib.canon(sm[0]):
                    sub_m = vlib.run_cases(vlib.driver_cmd(), [sub])[0]
                    n = len(si) if isinstance(si, list) else 1
                    return (f"{len(case['workers'])} peers served in parallel by one service instance, worker {k + 1} got "
                            + (f"{n} different answers to the same request, one of them wrong: " if n > 1 else "a wrong answer: ")
                            + who(sub, sub_m) + explain(sub, ans, sm[0] if sm else {}))
        return "parallel answers differ"
    if not isinstance(i, dict) or not isinstance(m, dict):
        return "implementation and model give incomparable answers"
    if case.get("op") == "trust":
        did = {True: "keeps the forwarded headers", False: "deletes the forwarded headers"}.get(
            i.get("trusted"), f"keeps only {i.get('kept')} of the forwarded headers")
        return (f"trust decision differs: trusted_proxies={case['trusted']} peer {case['remote']!r}: the middleware "
                f"{did}, the peer is {'listed' if m.get('trusted') else 'not listed'}")
    for key in ("harness_error", "panic", "crash"):
        if key in i:
            return f"implementation side failed ({key}): {str(i[key])[:200]}"
    parts = []
    if i.get("status") != m.get("status"):
        parts.append(f"status {i.get('status')} instead of {m.get('status')}")
    iv, mv = i.get("view") or {}, m.get("view") or {}
    comp = [k for k in ("method", "scheme", "host", "rawpath", "query", "ips") if iv.get(k) != mv.get(k)]
    if comp:
        parts.append("request view differs in " + ", ".join(f"{k} ({iv.get(k)!r} instead of {mv.get(k)!r})" for k in comp))
    if i.get("rule") != m.get("rule"):
        parts.append(f"matched rule {i.get('rule')} instead of {m.get('rule')}")
    if i.get("hdrs") != m.get("hdrs") or i.get("xfm") != m.get("xfm"):
        ih = {k for k, _ in (i.get("hdrs") or [])}
        mh = {k for k, _ in (m.get("hdrs") or [])}
        parts.append(f"headers shown to mechanisms differ (only implementation: {sorted(ih - mh)}, only model: "
                     f"{sorted(mh - ih)})" if ih != mh else "values of headers shown to mechanisms differ")
    if i.get("up") != m.get("up"):
        parts.append(f"upstream received {json.dumps(i.get('up'))} instead of {json.dumps(m.get('up'))}")
    if i.get("path_ok") is False:
        parts.append("URL.Path is not the unescaped URL.RawPath")
    return "; ".join(parts) or "answers differ"


def run_pair(exe, setup, case):
    i = vlib.run_cases([exe], [setup, case])
    i = i[1] if len(i) > 1 else {"crash": "no answer"}
    m = vlib.run_cases(vlib.driver_cmd(), [case])[0]
    return i, m


def rule_differs(i, m):
    m = vlib.res_of(m)
    return isinstance(i, dict) and isinstance(m, dict) and i.get("rule") != m.get("rule")


def shrink(exe, setup, case, keep_rule_difference=False):
    def fails(c):
        i, m = run_pair(exe, setup, c)
        if isinstance(i, dict) and ("harness_error" in i or "crash" in i):
            return False        # the simplification made the case ill-formed
        return not skipped(i) and not agree(i, m) and (not keep_rule_difference or rule_differs(i, m))

    cur = copy.deepcopy(case)
    if cur.get("op") == "seq":
        subs = vlib.ddmin(cur["cases"], lambda ss: fails(dict(cur, cases=ss)))
        if fails(dict(cur, cases=subs)):
            cur["cases"] = subs
        return cur["cases"][0] if len(cur["cases"]) == 1 else cur
    if cur.get("op") == "par":
        return cur
    if cur.get("op") == "req":
        if len(cur["headers"]) > 1:
            keep_conn = [h for h in cur["headers"] if h[0] == "Connection"] if cur.get("tcp_from") else []
            rest = [h for h in cur["headers"] if h not in keep_conn]
            hs = vlib.ddmin(rest, lambda hs: fails(dict(cur, headers=hs + keep_conn)))
            if fails(dict(cur, headers=hs + keep_conn)):
                cur["headers"] = hs + keep_conn
        if not cur.get("tcp_from"):
            for field, simple in (("tls", False), ("method", "GET"), ("host", "svc.local")):
                cand = dict(cur, **{field: simple})
                if cur[field] != simple and fails(cand):
                    cur = cand
            cand = dict(cur, esc_path="/x/public", raw_path="", raw_query="", target="/x/public")
            if fails(cand):
                cur = cand
    if isinstance(cur.get("trusted"), list) and len(cur["trusted"]) > 1:
        ts = vlib.ddmin(cur["trusted"], lambda ts: fails(dict(cur, trusted=ts)))
        if fails(dict(cur, trusted=ts)):
            cur["trusted"] = ts
    if cur.get("op") == "req":
        vals = list(dict.fromkeys(gen_fwd.uri_values_of(cur)))
        cur["uri_tab"] = [row for row in cur.get("uri_tab", []) if row[0] in vals]
    return cur


def sequence_for(exe, setup, stream, k, window=300):
    """the request stream[k] is answered wrongly only after earlier requests: find a short sequence of earlier
    requests + that request which shows it in a fresh process; None if there is none among the last `window`"""
    target = stream[k]
    before = [p for c in stream[:k] for p in req_parts(c) if c.get("op") in ("req", "seq") and not p.get("tcp_from")]
    before = before[-window:]

    def last_wrong(prefix):
        c = {"fam": "fwd", "op": "seq", "cases": prefix + [target]}
        i, m = run_pair(exe, setup, c)
        m = vlib.res_of(m)
        return isinstance(i, list) and isinstance(m, list) and len(i) == len(m) and len(i) > 0 and \
            vlib.canon(i[-1]) != vlib.canon(m[-1])

    if not last_wrong(before):
        return None
    prefix = vlib.ddmin(before, last_wrong) if len(before) > 1 else before
    if not last_wrong(prefix):
        prefix = before
    return {"fam": "fwd", "op": "seq", "cases": prefix + [target]}


def failed_theorems(log):
    """names of the theorems of Props/C09.lean in which the build log reports an error"""
    path = os.path.join(vlib.LEAN, "HeimdallModel", "Props", "C09.lean")
    with open(path) as fh:
        lines = fh.read().splitlines()
    names = []
    for m in re.finditer(r"Props/C09\.lean:(\d+):\d+", log):
        ln = int(m.group(1))
        for k in range(min(ln, len(lines)) - 1, -1, -1):
            t = re.match(r"\s*(?:theorem|example|instance)\s*([^\s:(]*)", lines[k])
            if t:
                name = t.group(1) or f"example at line {k + 1}"
                if name not in names:
                    names.append(name)
                break
    return names


# ---------------------------------------------------------------------------------------------------------------

def run(R):
    exe = vlib.step_harness(R)
    if exe is None:
        R.violation("harness does not build against /repo (API used by the correspondence check changed)",
                    {"build_log": R.harness_log[-3000:]}, no_input=True)
        R.coverage.update({"obligations": 1, "discharged": 0, "checker_cmd": "lake build", "trusted_base": []})
        return
    setup = {"fam": "fwd", "op": "setup", "tmp": os.path.join(R.tmp, "fwd")}
    first = vlib.run_cases([exe], [setup])
    info = first[0] if first else {}
    if not (isinstance(info, dict) and info.get("ok")):
        R.violation("decision/proxy service cannot be assembled from configuration and rule files",
                    {"setup": info}, no_input=True)
        R.coverage.update({"obligations": 1, "discharged": 0, "checker_cmd": "lake build", "trusted_base": []})
        return
    if info.get("cfg_decision") != ["192.0.2.1", "198.51.100.0/24"] or \
            info.get("cfg_proxy") != ["2001:db8::/32", "not-an-ip"]:
        R.violation("trusted_proxies of the configuration file do not reach the service configuration",
                    {"case": {"serve.decision.trusted_proxies": ["192.0.2.1", "198.51.100.0/24"],
                              "serve.proxy.trusted_proxies": ["2001:db8::/32", "not-an-ip"]},
                     "impl": info, "model": "lists as written"})

    # facts about the current code: syntactic inventory + measurement on the running services
    ast_ok, ast = ast_facts()
    names = candidate_names(ast if ast_ok else {})
    measured, probes = measure_facts(exe, setup, names)
    tables = dict(measured, candidates=names, **(ast if ast_ok else {}))
    if os.path.exists(GEN_FILE):
        os.remove(GEN_FILE)
    write_gen(tables, "" if ast_ok else "syntactic inventory FAILED: " + str(ast)[:300])

    lean_ok = vlib.step_lean(R, PID)
    go2lean_c09.step(R)
    if not lean_ok:
        with vlib.LeanLock():
            vlib.lake(["build", "driver"])
    if not os.path.exists(vlib.driver_cmd()[0]):
        R.violation("Lean driver does not build", {"lean_log": R.lean["log"]}, no_input=True)
        return

    quick = R.tier == "quick"
    corpus = vlib.load_corpus(PID)
    n_req, n_tcp, n_trust = (6000, 300, 12000) if quick else (150000, 4800, 300000)
    n_par, rounds = (8, 1500) if quick else (48, 4000)
    tgt = targeted_cases(names)
    seqs = pair_sequences()
    block = 12      # requests per generated service instance
    rnd = [c for _ in range(n_req // block) for c in gen_fwd.gen_req_block(R.rng, block)]
    tcp = [c for _ in range(n_tcp // block) for c in
           gen_fwd.gen_req_block(R.rng, block, tcp=True, ipv6_ok=bool(info.get("ipv6")))]
    trust = [gen_fwd.gen_trust_case(R.rng) for _ in range(n_trust)]
    small = [] if quick else small_scope_cases()
    par = parallel_cases(R.rng, n_par, rounds)
    cases = corpus + seqs + [p for p in probes if comparable(p)] + tgt + small + rnd + tcp + par + trust
    fill_uri_tables(exe, cases, setup)

    impl = vlib.run_cases([exe], [setup] + cases, timeout=2400)[1:]
    model = vlib.run_cases(vlib.driver_cmd(), cases, timeout=2400)

    bad = []
    nontriv = set()
    dist = {"req_cases": 0, "trust_cases": 0, "tcp_cases": 0, "tcp_skipped": 0, "unlisted_peer_with_family_headers": 0,
            "listed_peer_with_family_headers": 0, "listed_peer_without": 0, "unlisted_peer_without": 0,
            "matched_rule_would_differ_if_headers_were_honoured_or_ignored": 0, "status_404": 0,
            "unparsable_peer_address": 0, "trust_true": 0, "trust_false": 0,
            "trust_unpatched_code_would_differ": 0, "invalid_entries_seen": 0, "decision": 0, "proxy": 0,
            "path_spelling_as_received_differs_from_go_encoding": 0, "query_taken_from_x_forwarded_uri_as_received": 0,
            "sequence_cases": 0, "requests_in_sequences": 0, "parallel_cases": 0, "parallel_requests_served": 0,
            "parallel_workers_listed": 0, "parallel_workers_unlisted": 0}
    overridden = {}
    fam_names = {}
    rules = {}
    for idx, (c, i, m) in enumerate(zip(cases, impl, model)):
        st = m.get("stats", {}) if isinstance(m, dict) else {}
        if c["op"] == "req":
            dist["req_cases"] += 1
            dist[c["mode"]] += 1
            if c.get("tcp_from"):
                dist["tcp_cases"] += 1
            fam = st.get("family_lines", 0) > 0
            tr = bool(st.get("trusted"))
            dist[("listed" if tr else "unlisted") + "_peer_" + ("with_family_headers" if fam else "without")] += 1
            if st.get("rule_differs_from_actual"):
                dist["matched_rule_would_differ_if_headers_were_honoured_or_ignored"] += 1
            if st.get("rule") == "none":
                dist["status_404"] += 1
            if st.get("received_path_differs_from_go_encoding"):
                dist["path_spelling_as_received_differs_from_go_encoding"] += 1
            if st.get("query_from_header"):
                dist["query_taken_from_x_forwarded_uri_as_received"] += 1
            if not st.get("peer_parsable", True):
                dist["unparsable_peer_address"] += 1
            for o in st.get("overridden", []):
                overridden[o] = overridden.get(o, 0) + 1
            for n in st.get("family_names", []):
                fam_names[n] = fam_names.get(n, 0) + 1
            rules[st.get("rule", "?")] = rules.get(st.get("rule", "?"), 0) + 1
            if fam:
                nontriv.add(vlib.case_hash({k: v for k, v in c.items() if k != "uri_tab"}))
        elif c["op"] == "seq":
            dist["sequence_cases"] += 1
            dist["requests_in_sequences"] += len(c["cases"])
            nontriv.add(vlib.case_hash([{k: v for k, v in p.items() if k != "uri_tab"} for p in c["cases"]]))
        elif c["op"] == "par":
            dist["parallel_cases"] += 1
            dist["parallel_requests_served"] += c["rounds"] * len(c["workers"])
            dist["parallel_workers_listed"] += st.get("listed_workers", 0)
            dist["parallel_workers_unlisted"] += st.get("workers", 0) - st.get("listed_workers", 0)
            if 0 < st.get("listed_workers", 0) < st.get("workers", 0):
                nontriv.add(vlib.case_hash([{k: v for k, v in p.items() if k != "uri_tab"} for p in c["workers"]]))
        else:
            dist["trust_cases"] += 1
            dist["trust_true" if st.get("trusted") else "trust_false"] += 1
            if st.get("unpatched") != st.get("trusted"):
                dist["trust_unpatched_code_would_differ"] += 1
            dist["invalid_entries_seen"] += st.get("entries", 0) - st.get("entries_valid", 0)
            if st.get("entries_valid", 0) > 0:
                nontriv.add(vlib.case_hash(c))
        if skipped(i):
            dist["tcp_skipped"] += 1
            continue
        if not agree(i, m):
            bad.append((idx, c, i, m))

    R.coverage.update({
        "evaluations": len(cases), "distinct_nontrivial": len(nontriv),
        "rule": "one HTTP request (raw bytes parsed by net/http; in-process with a chosen RemoteAddr, or over a real TCP "
                "connection from a 127.x.y.z / ::1 source address) through the real decision or proxy service built for a "
                "generated trusted_proxies list, compared with the Lean model on status, matched rule, request view, headers "
                "shown to mechanisms and forwarded headers received by the real upstream; request sequences in one process; "
                "8 workers (listed and unlisted peers alternating) sending their request `rounds` times in parallel to one "
                "service instance, every answer compared; plus the trust decision of the real middleware alone. Non-trivial = "
                "request with at least one header line of the forwarded family (any spelling), sequence, parallel case with "
                "listed and unlisted workers, resp. trust case with at least one valid entry; distinct by hash of the case",
        "distribution": dist, "view_components_overridden_by_listed_peers": overridden,
        "family_header_occurrences": fam_names, "matched_rules": rules,
        "corpus_cases": len(corpus), "targeted_cases": len(tgt), "small_scope_cases": len(small),
        "fact_probe_cases": len(probes),
        "generated_tables": tables,
        "samples": [{k: v for k, v in rnd[0].items()}, trust[0],
                    {"op": "par", "rounds": par[0]["rounds"], "workers": [w["remote"] for w in par[0]["workers"]],
                     "trusted": par[0]["trusted"]}],
        "exhaustive": False,
    })
    if small:
        R.coverage["small_scope"] = "all 128 subsets of the forwarded family x 3 spellings x {unlisted, listed} x {decision, proxy}"
    R.assumptions += [
        "net/url (url.Parse on X-Forwarded-Uri, url.ParseRequestURI on the request target: RawPath, EscapedPath(), RawQuery) is "
        "a parameter of the model (theorems hold for every such function); the correspondence run instantiates it with the "
        "graph of the real net/url; heimdall's own escapedPath (path as received) and the use of RawQuery are modelled",
        "net/http's request reader (header canonicalisation, value trimming), httputil.ReverseProxy's removal of "
        "Forwarded/X-Forwarded-For/-Host/-Proto from the outgoing request and Go's net.ParseIP/ParseCIDR/SplitHostPort are "
        "re-modelled in Lean and validated by the correspondence run only",
        "the tables the theorems are instantiated with (names deleted for unlisted peers, names influencing view / "
        "upstream for listed peers) are measured on the running services for the candidate names only: every string of the "
        "four packages that looks like a forwarding header, the family and 31 near-miss names; a header read under a name "
        "computed at run time is outside the measurement (the functions doing so are listed in generated_tables)",
        "header values are ASCII; header names are valid tokens (others are rejected by net/http before any handler runs)",
        "URL.Path is not part of the model: the harness checks with the real net/url that it is the unescaped URL.RawPath",
        "the model skips trusted_proxies entries that are not IP addresses (fixes/C09-1.patch, in /repo as 7f0f8a0); on a "
        "tree without that fix the check reports the violation with a replay",
        "hop-by-hop header handling and pipeline headers of the proxy are outside this model (C15)",
        "the parallel stream can only show an interference that the scheduler produces within the given rounds "
        "(GOMAXPROCS >= 2); the sequential model is the reference for every single answer",
    ]

    seen = set()
    searched_sequence = False
    found = []
    for idx, c, i, m in bad:
        what = explain(c, i, m)
        sig = re.sub(r"'[^']*'|\"[^\"]*\"|\[[^\]]*\]|\d+", "_", what)[:80]
        if sig in seen or len(seen) >= 6:
            continue
        seen.add(sig)
        sc = shrink(exe, setup, c, keep_rule_difference=rule_differs(i, m))   # keep "another rule is matched" visible
        si, sm = run_pair(exe, setup, sc)
        alone = not skipped(si) and not agree(si, sm)
        if not alone and c.get("op") == "par":
            for _ in range(3):      # an interleaving is not guaranteed to repeat: try again with more rounds
                sc = dict(c, rounds=c["rounds"] * 4)
                si, sm = run_pair(exe, setup, sc)
                alone = not agree(si, sm)
                if alone:
                    break
        if not alone and c.get("op") == "req" and not searched_sequence:
            # answered correctly when sent alone: look for the earlier requests of this run that make it go wrong
            searched_sequence = True
            seq = sequence_for(exe, setup, cases, idx)
            if seq is not None:
                sc = seq
                si, sm = run_pair(exe, setup, sc)
                alone = not agree(si, sm)
        if not alone:
            sc, si, sm = c, i, m
        what = (who(sc, sm) if sc.get("op") == "req" else "") + explain(sc, si, sm)
        if not alone:
            what += " [only within the request stream of this run, not when replayed alone]"
        found.append((what, {"case": sc, "impl": si, "model": vlib.res_of(sm), "kind": "impl-vs-model(=spec)",
                             "disagreeing_cases_in_this_run": len(bad)}, not alone))
    for what, payload, no_input in sorted(found, key=lambda f: f[2]):      # replayable ones first
        R.violation(what, payload, no_input=no_input)
    go2lean_c09.report(R, bool(bad))
    if not ast_ok:
        R.violation("syntactic inventory of forwarding header names failed (packages unreadable): " + str(ast)[-300:],
                    {"extractor": str(ast)}, no_input=not bad)
    if not lean_ok:
        R.violation("theorems / obligations over the measured tables of Props/C09.lean no longer check: "
                    + (", ".join(failed_theorems(R.lean["log"])) or "; ".join(R.lean["failed"]))[:600],
                    {"lean_log": R.lean["log"], "failed": R.lean["failed"], "theorems": R.lean.get("failed_theorems"),
                     "generated_tables": tables}, no_input=not bad)


def replay(R, path):
    with open(path) as fh:
        p = json.load(fh)
    c = p["case"] if "case" in p else p
    exe = vlib.step_harness(R)
    if exe is None:
        R.violation("harness does not build", {"build_log": R.harness_log[-3000:]}, no_input=True)
        return
    setup = {"fam": "fwd", "op": "setup", "tmp": os.path.join(R.tmp, "fwd")}
    if req_parts(c):
        fill_uri_tables(exe, [c], setup)
    i, m = run_pair(exe, setup, c)
    print("case :", json.dumps(c))
    print("impl :", json.dumps(i))
    print("model:", json.dumps(vlib.res_of(m)))
    R.coverage.update({"obligations": 1, "discharged": 1, "checker_cmd": "replay", "trusted_base": []})
    if not agree(i, m):
        R.violation("replay still differs: " + explain(c, i, m), {"case": c, "impl": i, "model": vlib.res_of(m)})
