"""C12 — every failure maps to the response class of its kind, never to success."""
import collections
import copy
import json
import os

import gen_errmap
import go2lean_c12
import vlib

PID = "C12"
# F1 / F2 are repaired by fixes/C12-1.patch and fixes/C12-2.patch (merged). F3 (round 5, fixes/C12-3.patch proposed):
# requests that hit it are counted as known-finding hits (gen_errmap.KNOWN_BODY_CUT), never silently accepted as
# correct: see body_cut_outcome; with the fix applied there are no hits and the check passes as well.
KNOWN = {gen_errmap.KNOWN_BODY_CUT: "proxy service, log level other than trace: the upstream sends the complete header "
                                    "section of a chunked 2xx response and dies in the middle of the body; the "
                                    "recovery middleware swallows ReverseProxy's http.ErrAbortHandler and net/http "
                                    "completes the message: the client gets a well-formed, complete 2xx with a "
                                    "truncated body (fixes/C12-3.patch)"}


# ---------------------------------------------------------------------------------------------------------------
# helpers

def norm(resp):
    """canonical answer; of a positive answer only the fact that it is one is compared"""
    if isinstance(resp, dict) and resp.get("out") == "ok":
        return {"out": "ok"}
    return resp


def expand_sides(i):
    """the harness writes the answer of a service handler that equals the translator's own as "=http" / "=grpc" """
    if isinstance(i, dict) and any(isinstance(v, str) and v in ("=http", "=grpc") for v in i.values()):
        return dict((k, i.get(v[1:]) if isinstance(v, str) and v in ("=http", "=grpc") else v) for k, v in i.items())
    return i


def run_pair(exe, cases):
    """implementation first, then the model / specification on the same cases with the implementation's answers"""
    impl = vlib.run_cases([exe], cases)
    lcases = []
    for c, i in zip(cases, impl):
        lc = dict(c)
        if c["op"] == "svc":
            lc = fill_svc(c, i)
        elif c["op"] in ("handler", "mech") and isinstance(i, dict) and "http" in i:
            lc["impl"] = i
        lcases.append(lc)
    model = vlib.run_cases(vlib.driver_cmd(), lcases)
    return impl, model, lcases


def side_val(d, side):
    v = d.get(side)
    return d.get(v[1:]) if isinstance(v, str) and v in ("=http", "=grpc") else v


def fill_svc(case, impl):
    """the Lean side of a services case: the state in which each pipeline left its request context (built from the
    scenario of the path; the error chain observed at the executor is used where there is one) + impl answers"""
    lc = copy.deepcopy(case)
    ok = isinstance(impl, list) and len(impl) == len(case["reqs"])
    for k, rq in enumerate(lc["reqs"]):
        r5 = gen_errmap.ep_scenario(rq)
        if r5 is not None:
            # round 5: the error value is built by the MODEL from the scenario (which fault of the token endpoint,
            # which strategy, how the upstream ends), never taken from what the implementation reported
            rq["ctx"] = r5["ctx"] if r5["ctx"] is not None else {"exec": "none", "err": None}
            continue
        special = gen_errmap.svc_scenario(rq["path"], (rq.get("hdr") or {}).get("X-Mode"))
        if special is not None:
            # the outcome of the CEL expressions / the configured redirect code is computed by the generator's
            # oracle, never taken from what the implementation did
            rq["ctx"] = special["ctx"]
            continue
        sc = gen_errmap.request_scenario(rq)
        obs = impl[k].get("err") if ok and isinstance(impl[k], dict) else None
        if sc is None:
            rq["ctx"] = {"exec": "none", "err": None}
        elif sc.get("handler") == "www":
            rq["ctx"] = {"exec": "www", "err": None}
        elif sc.get("handler") == "redirect":
            rq["ctx"] = {"exec": "redirect", "err": None, "to": sc["to"]}
        else:
            rq["ctx"] = {"exec": "none", "err": obs if obs is not None else sc["err"]}
        if rq["path"] in ("/leak", "/leakwww"):
            rq["ctx"]["up"] = [["X-Internal-Token", "secret-for-the-upstream"], ["Www-Authenticate-Not", "nope"]]
    if ok:
        lc["impl"] = impl
    return lc


def scenario_of(rq):
    sc = gen_errmap.ep_scenario(rq)
    if sc is None:
        sc = gen_errmap.svc_scenario(rq["path"], (rq.get("hdr") or {}).get("X-Mode"))
    if sc is None:
        sc = gen_errmap.request_scenario(rq)
    return sc


DEFAULT_STATUS = {"authn": 401, "authz": 403, "comm": 502, "precond": 400, "noRule": 404, "internal": 500}


def class_status(case, rq, cls):
    cfg = case.get("pcfg", case["cfg"]) if rq["svc"] == "proxy" else case["cfg"]
    return cfg["ov"].get(cls, 0) or DEFAULT_STATUS[cls]


def body_cut_outcome(case, rq, resp):
    """the upstream sent the complete header section of its response and died in the middle of the body: the status
    line is gone by then. "ok": the client was told the failure's status (the proxy had not forwarded anything yet) or
    can see that the transfer was cut short; "known": it got a COMPLETE response with the upstream's success status
    (finding C12-3, see design/C12.md); else a description of what is wrong"""
    if resp.get("out") in ("aborted", "panic", "noresp"):
        # the transfer was cut short / the connection was closed before the buffered beginning of the response left
        return "ok"
    if resp.get("out") == "resp" and resp.get("status") == class_status(case, rq, "comm"):
        return "ok"
    if resp.get("out") == "ok":
        # the defect fix C12-3 repaired (recorded under `fixed` in known_findings.json): a violation like any other
        return ("a COMPLETE response with the upstream's success status although the upstream died in the middle of "
                "the body: the client cannot see that the transfer was cut short")
    return "neither the status of a communication failure nor an aborted transfer"


def known_hits(case, impl):
    """requests of the case which hit finding C12-3"""
    n = 0
    if isinstance(impl, list) and len(impl) == len(case["reqs"]):
        for rq, a in zip(case["reqs"], impl):
            sc = gen_errmap.ep_scenario(rq)
            if sc is not None and sc["cls"] == "cut" and isinstance(a, dict):
                n += body_cut_outcome(case, rq, a.get("resp") or {}) == "known"
    return n


def expected_class_ok(case, impl):
    """property-level expectation per scenario, independent of the model: the class the property names for the
    failure provoked on that path (status of that class under the configuration of the case)"""
    bad = []
    defaults = DEFAULT_STATUS
    if not isinstance(impl, list):
        return ["no answer list"]
    for rq, a in zip(case["reqs"], impl):
        sc = scenario_of(rq)
        resp = a.get("resp", {}) if isinstance(a, dict) else {}
        if sc is not None and sc["cls"] == "cut":
            why = body_cut_outcome(case, rq, resp)
            if why not in ("ok", "known"):
                bad.append((rq, resp, why))
            continue
        if sc is None or sc["cls"] is None:
            if resp.get("out") != "ok":
                bad.append((rq, resp, "request without failure was not let through"))
            continue
        if resp.get("out") != "resp":
            bad.append((rq, resp, "no error response"))
            continue
        if sc["cls"] == "redirect":
            want = sc.get("code") or case.get("rcode") or 302
        else:
            cfg = case.get("pcfg", case["cfg"]) if rq["svc"] == "proxy" else case["cfg"]
            want = cfg["ov"].get(sc["cls"], 0) or defaults[sc["cls"]]
        if resp.get("status") != want:
            bad.append((rq, resp, f"status {resp.get('status')} instead of {want} ({sc['cls']})"))
    return bad


# the handlers of the services around the translators (in-process): failure returned by the rule executor / by Finalize
SERVICE_SIDES = {"dec": "decision service handler, failure returned by the rule executor",
                 "prx": "proxy service handler, failure returned by the rule executor",
                 "env": "Envoy gRPC handler behind the interceptor, failure returned by the rule executor",
                 "decfin": "decision service handler, failure returned by Finalize",
                 "prxfin": "proxy service handler, failure returned by Finalize",
                 "envfin": "Envoy gRPC handler behind the interceptor, failure returned by Finalize"}


def side_name(side, rctx):
    name = {"http": "HTTP error handler", "grpc": "gRPC error interceptor"}.get(side) or SERVICE_SIDES[side]
    return f"{name} (context of the request: {rctx}):"


def hdr(resp, name):
    return [v for k, v in resp.get("hdrs", []) if k == name]


# ---------------------------------------------------------------------------------------------------------------
# shrinking

def subterms(e):
    if e["t"] == "wrap":
        yield e["e"]
    elif e["t"] in ("join", "chain"):
        for x in e["es"]:
            yield x
        if len(e["es"]) > 1:
            for k in range(len(e["es"])):
                yield dict(e, es=e["es"][:k] + e["es"][k + 1:])
        for k, x in enumerate(e["es"]):
            for y in subterms(x):
                yield dict(e, es=e["es"][:k] + [y] + e["es"][k + 1:])


def size(e):
    return 1 + (size(e["e"]) if e["t"] == "wrap" else sum(size(x) for x in e.get("es", [])))


def shrink_handler(case, fails, budget=150):
    cur = copy.deepcopy(case)
    n = 0
    progress = True
    while progress and n < budget:
        progress = False
        cands = []
        for s in subterms(cur["err"]):
            if size(s) < size(cur["err"]):
                cands.append(dict(cur, err=s))
        if cur.get("accept") is not None:
            cands.append(dict(cur, accept=None, acc={"k": "absent"}))
        if cur.get("rctx", "live") != "live":
            cands.append(dict((k, v) for k, v in cur.items() if k != "rctx"))
        for k, v in cur["cfg"]["ov"].items():
            if v != 0:
                cands.append(dict(cur, cfg=dict(cur["cfg"], ov=dict(cur["cfg"]["ov"], **{k: 0}))))
        if cur["cfg"]["verbose"]:
            cands.append(dict(cur, cfg=dict(cur["cfg"], verbose=False)))
        cands.sort(key=lambda c: size(c["err"]))
        for cand in cands:
            n += 1
            if n > budget:
                break
            if fails(cand):
                # the note of a corpus case describes the unshrunk case
                cur = dict((k, v) for k, v in cand.items() if k != "_note")
                progress = True
                break
    return cur


def differs(exe, case):
    impl, model, lcases = run_pair(exe, [case])
    i, m = impl[0], model[0]
    return verdict(case, i, m) is not None


def verdict(case, i, m):
    """None if implementation, model and specification agree on the case; else (kind, detail)"""
    if not isinstance(m, dict) or "res" not in m:
        return ("driver", f"the model driver gave no result: {str(m)[:300]}")
    res = m["res"]
    spec = m.get("spec")
    if case["op"] == "mech":
        if not isinstance(i, dict) or "http" not in i:
            return ("impl-vs-spec", f"a redirect error handler configured with code {case['code']} "
                                    f"({'unset' if case.get('unset') else 'set'}) gave no answer: {str(i)[:300]}")
        for side in ("http", "grpc"):
            if vlib.canon(norm(i[side])) != vlib.canon(norm(res[side])):
                kind = "impl-vs-spec" if isinstance(spec, dict) and spec.get(side) is not True else "impl-vs-model"
                return (kind, f"redirect error handler configured with code "
                              f"{'(none)' if case.get('unset') else case['code']}: {side} answer {json.dumps(i[side])}, "
                              f"the handler's status code and Location demand {json.dumps(res[side])}")
        return None
    if case["op"] == "handler":
        if not isinstance(i, dict) or "http" not in i:
            return ("impl-crash", f"harness gave no answer: {str(i)[:300]}")
        rctx = case.get("rctx", "live")
        sides = ["http", "grpc"] + [sd for sd in SERVICE_SIDES if sd in i and sd in res]
        for side in sides:
            if isinstance(spec, dict) and spec.get(side) is not True:
                return ("impl-vs-spec", f"{side_name(side, rctx)} answer {json.dumps(side_val(i, side))} is rejected "
                                        f"by the specification ({spec.get(side)}); the proved model answers "
                                        f"{json.dumps(side_val(res, side))}")
        if isinstance(spec, dict) and spec.get("same") is not True:
            return ("impl-vs-spec", f"the HTTP handler answers {json.dumps(i['http'])}, the Envoy gRPC interceptor "
                                    f"{json.dumps(i['grpc'])}: not the same status / Location / challenge")
        for side in sides:
            if side in SERVICE_SIDES and isinstance(i[side], str) and i[side] == res[side]:
                continue  # both equal to the translator's own answer, which is compared on its own
            a, b = side_val(i, side), side_val(res, side)
            if vlib.canon(norm(a)) != vlib.canon(norm(b)):
                return ("impl-vs-model", f"{side_name(side, rctx)} answer {json.dumps(a)} differs from the "
                                         f"model's {json.dumps(b)}")
        return None
    if case["op"] == "svc":
        if not isinstance(i, list) or len(i) != len(case["reqs"]):
            return ("impl-crash", f"services gave no answers: {str(i)[:400]}")
        def who(rq, a):
            name = f"{rq['svc']} {rq['path']}"
            if rq.get("log"):
                name += f" [log level {rq['log']}]"
            if rq.get("tfault"):
                name += f" [token endpoint: {rq['tfault']}]"
            if isinstance(a, dict) and a.get("info"):
                name += f" [informational responses forwarded first: {a['info']}]"
            if not rq.get("hc"):
                return name
            return (f"{name} (client half-closed its connection and reads the answer; context of "
                    f"the request when the pipeline returned: {a.get('rctx') if isinstance(a, dict) else '?'})")
        for k, (rq, a) in enumerate(zip(case["reqs"], i)):
            r5 = gen_errmap.ep_scenario(rq)
            if r5 is not None and r5["cls"] == "cut":
                continue  # judged by body_cut_outcome (expected_class_ok)
            if isinstance(spec, list) and k < len(spec) and spec[k] is not True:
                return ("impl-vs-spec", f"{who(rq, a)} answers {json.dumps(a.get('resp'))}, rejected by the "
                                        f"specification; the proved model answers {json.dumps(res[k])}")
        for rq, resp, why in expected_class_ok(case, i):
            a = i[case["reqs"].index(rq)]
            return ("impl-vs-spec", f"{who(rq, a)}: {why}; answer {json.dumps(resp)}")
        trees, infos = m.get("trees") or [], m.get("infos") or []
        for k, (rq, a) in enumerate(zip(case["reqs"], i)):
            r5 = gen_errmap.ep_scenario(rq)
            if r5 is not None and r5["cls"] == "cut":
                continue  # the transfer of a body is net/http's business, not modelled
            if vlib.canon(norm(a.get("resp"))) != vlib.canon(norm(res[k])):
                return ("impl-vs-model", f"{who(rq, a)} answers {json.dumps(a.get('resp'))}, the model "
                                         f"{json.dumps(res[k])}")
            if r5 is not None and r5.get("tree") and k < len(trees):
                # the error value the real executor returned vs the one the model builds for the fault
                obs, want = gen_errmap.norm_tree(a.get("err")), gen_errmap.norm_tree(trees[k])
                if vlib.canon(obs) != vlib.canon(want):
                    return ("impl-vs-model", f"{who(rq, a)}: the pipeline ends with the error value "
                                             f"{json.dumps(obs)}, the model builds {json.dumps(want)}")
            if r5 is not None and "infos" in r5 and not rq.get("hc") and k < len(infos) and infos[k] is not None:
                if a.get("info") != infos[k]:
                    return ("impl-vs-model", f"{who(rq, a)}: the client got the informational responses "
                                             f"{a.get('info')}, the model says {infos[k]}")
        return None
    if case["op"] == "cfgkeys":
        if vlib.canon(i) != vlib.canon(res):
            return ("impl-vs-spec", f"overrides set in a configuration file under the keys the schema admits arrive as "
                                    f"{json.dumps(i)}, expected {json.dumps(res)}")
        return None
    return ("driver", "unknown op")


def shrink(exe, case):
    if case["op"] == "handler":
        return shrink_handler(case, lambda c: differs(exe, c))
    if case["op"] == "svc":
        def fails(reqs):
            return differs(exe, dict(case, reqs=reqs))
        reqs = vlib.ddmin(case["reqs"], fails)
        return dict(case, reqs=reqs)
    return case


# ---------------------------------------------------------------------------------------------------------------
# configuration keys

def cfgkeys_case(tmp):
    """one override per key the configuration schema admits under respond.with (except `accepted`)"""
    path = os.path.join(vlib.REPO, "schema", "config.schema.json")
    with open(path) as fh:
        schema = json.load(fh)
    try:
        props = schema["definitions"]["respondWithConfig"]["properties"]["with"]["properties"]
    except KeyError as e:
        raise gen_errmap.ExtractError(f"schema: respond.with not found ({e})")
    keys = sorted(k for k in props if k != "accepted")
    if len(keys) != 6:
        raise gen_errmap.ExtractError(f"schema: override keys {keys}")
    return {"fam": "errmap", "op": "cfgkeys", "tmp": tmp,
            "keys": [{"key": k, "code": 441 + n} for n, k in enumerate(keys)]}


# ---------------------------------------------------------------------------------------------------------------

def run(R):
    tie_error = None
    facts = None
    exe = vlib.step_harness(R)
    if exe is not None:
        try:
            # the tables of Gen/ErrMapGen.lean are derived from probes of the running code
            facts = gen_errmap.write_gen(exe)
        except gen_errmap.ExtractError as e:
            tie_error = str(e)
    lean_ok = vlib.step_lean(R, PID)
    go2lean_c12.step(R)
    try:
        _run(R, exe, lean_ok, tie_error, facts)
    finally:
        go2lean_c12.report(R)


def _run(R, exe, lean_ok, tie_error, facts):
    if exe is None:
        R.violation("harness does not build against /repo (API used by the correspondence check changed)",
                    {"build_log": R.harness_log[-3000:]}, no_input=True)
        return
    if not os.path.exists(vlib.driver_cmd()[0]):
        R.violation("the model driver does not build", {"lean_log": R.lean["log"]}, no_input=True)
        return

    quick = R.tier == "quick"
    corpus = vlib.load_corpus(PID)
    for c in corpus:
        if "tmp" in c:
            c["tmp"] = R.tmp
    h_corpus = [c for c in corpus if c["op"] == "handler"]
    s_corpus = [c for c in corpus if c["op"] == "svc"]

    # ---- stream 1: the two translators in isolation
    fixed = gen_errmap.pair_cases() + gen_errmap.override_cases() + gen_errmap.ctx_cases()
    hcases = h_corpus + fixed
    n_random = 6000 if quick else 400000
    # quick: every case also through the six service-handler sides; thorough: every fourth of the random ones
    hcases += [gen_errmap.gen_handler_case(R.rng, service_sides=(quick or k % 4 == 0)) for k in range(n_random)]
    if not quick:
        for e in gen_errmap.small_scope_errs(2):
            hcases.append(gen_errmap.handler_case(gen_errmap.PLAIN_CFG, None, {"k": "absent"}, e))
        # the same small scope with a context error as cause, request context cancelled
        for e in gen_errmap.small_scope_errs(1):
            for c in gen_errmap.CTX_ERRS:
                hcases.append(gen_errmap.handler_case(
                    gen_errmap.PLAIN_CFG, None, {"k": "absent"},
                    {"t": "chain", "es": [e, {"t": "wrap", "e": gen_errmap.ctxdone(c), "v": 2}], "v": 0},
                    "cancelled" if c == "canceled" else "deadline"))
    himpl, hmodel, _ = run_pair(exe, hcases)

    # ---- stream 1b: redirect error handlers created by the real mechanism from configuration
    mcases = [c for c in corpus if c["op"] == "mech"] + gen_errmap.mech_cases()
    mimpl, mmodel, _ = run_pair(exe, mcases)

    # ---- stream 2: the assembled services
    n_stacks = 4 if quick else 150
    scases = s_corpus + [gen_errmap.gen_svc_case(R.rng, R.tmp, plain=(k == 0)) for k in range(n_stacks)]
    # round 5: stacks in which the upstream / the token endpoint hangs until a (short) timeout
    scases += [gen_errmap.gen_timeout_case(R.rng, R.tmp) for _ in range(1 if quick else 6)]
    simpl, smodel, _ = run_pair(exe, scases)
    for c, i in zip(scases, simpl):
        n = known_hits(c, i)
        if n:
            R.known_hits[gen_errmap.KNOWN_BODY_CUT] = R.known_hits.get(gen_errmap.KNOWN_BODY_CUT, 0) + n

    # ---- stream 3: configuration keys
    ccases = [c for c in corpus if c["op"] == "cfgkeys"]
    try:
        ccases = ccases + [cfgkeys_case(R.tmp)]
    except gen_errmap.ExtractError as e:
        tie_error = tie_error or str(e)
    cimpl, cmodel, _ = run_pair(exe, ccases)

    bad = []
    for cases, impl, model in ((hcases, himpl, hmodel), (mcases, mimpl, mmodel), (scases, simpl, smodel),
                               (ccases, cimpl, cmodel)):
        for c, i, m in zip(cases, impl, model):
            v = verdict(c, i, m)
            if v is not None:
                bad.append((c, i, m, v))

    # ---- evidence
    stats = collections.defaultdict(collections.Counter)
    nontriv = set()
    for c, m in zip(hcases, hmodel):
        st = m.get("stats", {}) if isinstance(m, dict) else {}
        for k in ("class", "depth", "classes", "accept", "httpBody", "grpcBody", "verbose", "cfgValid", "cfgNoSuccess",
                  "redirectsValid", "rctx", "ctxLeaf"):
            if k in st:
                stats[k][str(st[k])] += 1
        stats["leaves"][str(min(st.get("leaves", 0), 8))] += 1
        if st.get("ctxLeaf") and st.get("rctx", "live") != "live":
            stats["ctxLeaf_and_request_context_done_by_class"][str(st.get("class"))] += 1
        if st.get("mixed"):
            nontriv.add(vlib.case_hash({"e": c["err"], "c": c["cfg"], "a": c["acc"]}))
    svc_counts = collections.Counter()
    svc_status = collections.Counter()
    cel_outcomes = collections.Counter()
    redirect_codes = collections.Counter()
    halfclose = collections.Counter()
    halfclose_ms = [0]
    log_levels = collections.Counter()
    upstream = collections.Counter()
    token_faults = collections.Counter()
    strategies = collections.Counter()
    slowest_ms = [0]
    for c, i in zip(scases, simpl):
        if isinstance(i, list):
            for rq, a in zip(c["reqs"], i):
                status = (a.get("resp") or {}).get("status")
                outk = (a.get("resp") or {}).get("out")
                log_levels[f"{rq['svc']} at {rq.get('log') or 'no-op logger'}"] += 1
                slowest_ms.append(a.get("ms") or 0)
                r5 = gen_errmap.ep_scenario(rq)
                if r5 is not None and "infos" in r5:
                    end = "refused" if rq["path"] == "/refused" else rq["path"].rsplit(".", 1)[-1].rsplit("/", 1)[-1]
                    upstream[f"log {rq.get('log') or 'no-op'}: {len(r5['infos'])} informational then {end}"
                             f"{' (client half-closes)' if rq.get('hc') else ''} -> "
                             f"{outk if outk != 'resp' else 'failure answered'}"] += 1
                elif r5 is not None and rq["path"].startswith(("/ep/", "/epx/")):
                    fault = "refused" if rq["path"].startswith("/epx/") else rq.get("tfault")
                    token_faults[f"{rq['path'].rsplit('/', 1)[1]}: token endpoint {fault}"
                                 f"{' (client half-closes)' if rq.get('hc') else ''} -> "
                                 f"{outk if outk != 'resp' else r5['cls']}"] += 1
                elif r5 is not None and rq["path"].startswith("/eps/"):
                    strategies[f"{rq['path']} -> {outk if outk != 'resp' else r5['cls']}"] += 1
                elif r5 is not None and rq.get("werr"):
                    token_faults[f"Endpoint.SendRequest, context expires after {rq['werr'].get('deadline')} ms, token "
                                 f"endpoint hangs ({rq['svc']}) -> {outk if outk != 'resp' else r5['cls']}"] += 1
                if r5 is not None and rq["path"].startswith(("/up/", "/upwww/")):
                    svc_counts[rq["svc"] + " /up/*"] += 1
                    svc_status[str(status)] += 1
                    continue
                if rq.get("hc"):
                    halfclose_ms.append(a.get("ms") or 0)
                    kind = ("scripted wait" if rq.get("werr") else "real mechanism waiting"
                            if rq["path"] in gen_errmap.HANG_PATHS else "no waiting")
                    halfclose[f"{rq['svc']}, {kind}, request context at the end of the pipeline: {a.get('rctx')}, "
                              f"status {(a.get('resp') or {}).get('status')}"] += 1
                if rq["path"].startswith("/ctxwait/"):
                    svc_counts[rq["svc"] + " /ctxwait/*"] += 1
                    svc_status[str((a.get("resp") or {}).get("status"))] += 1
                    continue
                svc_counts[rq["svc"] + " " + rq["path"]] += 1
                svc_status[str((a.get("resp") or {}).get("status"))] += 1
                sc = gen_errmap.svc_scenario(rq["path"], (rq.get("hdr") or {}).get("X-Mode"))
                if sc and rq["path"].startswith("/cel/"):
                    cel_outcomes[rq["path"] + " -> " + str(sc["cls"])] += 1
                if sc and sc["cls"] == "redirect" and "code" in sc:
                    redirect_codes[str(sc["code"])] += 1
    n_svc_req = sum(len(c["reqs"]) for c in scases)
    R.coverage.update({
        "evaluations": len(hcases) + len(mcases) + n_svc_req + len(ccases),
        "distinct_nontrivial": len(nontriv),
        "rule": "handler stream: an error value built as a real Go value (all 8 sentinels, *RedirectError, 5 foreign "
                "error types incl. a real cellib.EvalError, fmt %w wraps and a foreign wrapper, errors.Join / multi-%w, "
                "errorchain with and without message and context, nested to depth 5) x status overrides (unset, usual, "
                "boundary, negative, out of range) x verbose x Accept header (absent, invalid, empty, 1-5 ranges with "
                "q values, parameters, wildcards), pushed through the real HTTP errorhandler.New(...).HandleError and "
                "the real gRPC interceptor and compared with the Lean model and judged by Spec.ok; non-trivial = the "
                "value has at least two leaves of different response classes (precedence matters); distinct by hash of "
                "(error term, configuration, Accept). services stream: decision, proxy and Envoy gRPC services "
                "assembled from a configuration file (real loader, mechanisms, rule factory, executor, services' own "
                "constructors) on loopback ports, failures provoked with real mechanisms on 12 of 13 plain paths, "
                "plus 6 paths with real CEL authorizers / `if` conditions / error handler conditions evaluated for "
                "requests on which they are true, false or fail at runtime (missing map key, index out of range, "
                "division by zero, missing subject attribute), plus one redirect error handler per status code in "
                "{300,301,302,303,307,308} and two non-3xx codes per stack, plus (decision and proxy) a client which "
                "half-closes its TCP connection after the request and reads the answer, while a real mechanism (remote "
                "authorizer, generic authenticator, the proxy's forwarding) or a scripted step (real "
                "endpoint.SendRequest / wait for ctx.AppContext()) waits on a server that never answers and then fails "
                "with a communication / timeout / authentication / authorization / ... error caused by "
                "context.Canceled / DeadlineExceeded; round 5: every request at a log level of its service (trace ... "
                "disabled, no-op logger; one service per level built by the services' own constructors), the proxy "
                "forwarding to a scripted raw-TCP upstream which sends 0-3 informational responses (100 / 102 / 103 with "
                "Link headers) and then answers, closes, resets, sends a partial status line / header section / body, "
                "refuses the connection or hangs until serve.proxy.timeout.read, at every log level; the endpoints of "
                "real remote authorizers, generic authenticators, generic contextualizers and OAuth2 introspection "
                "authenticators authenticating with oauth2_client_credentials against a scripted token endpoint (ok, "
                "503, 401, 200 garbage, 200 error document, 400 invalid_client, 400 garbage, closes, refuses, hangs "
                "while the client half-closes / until the deadline of the context), basic_auth, api_key, "
                "http_message_signatures (signable / not signable), the error value returned by the real executor "
                "compared with the one the model builds for the fault; handler stream additionally: every case through the real "
                "service.NewHandler(...).ServeHTTP (decision / proxy request contexts) and Handler.Check behind the "
                "interceptor, with the context of the request live, cancelled or past its deadline, and "
                "context.Canceled / DeadlineExceeded as leaves; mechanism stream: redirect error handlers "
                "created by the real factory from configuration with 26 codes (unset, 3xx, 2xx, 4xx, 5xx, out of "
                "range, negative)",
        "handler_cases": len(hcases), "handler_random": n_random, "pair_cases": len(gen_errmap.pair_cases()),
        "override_cases": len(gen_errmap.override_cases()), "context_cases": len(gen_errmap.ctx_cases()),
        "handler_sides_per_case": "http, grpc (translators) + dec, prx, env, decfin, prxfin, envfin (service "
                                  "handlers around them, failure from the executor / from Finalize)",
        "handler_cases_through_service_handlers": sum(1 for c in hcases if not c.get("translators_only")),
        "service_halfclose_requests": dict(sorted(halfclose.items())),
        "service_halfclose_slowest_ms": max(halfclose_ms),
        "service_requests_by_log_level": dict(sorted(log_levels.items())),
        "proxy_upstream_scenarios": dict(sorted(upstream.items())),
        "endpoint_token_endpoint_faults": dict(sorted(token_faults.items())),
        "endpoint_other_strategies": dict(sorted(strategies.items())),
        "service_slowest_request_ms": max(slowest_ms),
        "known_finding_hits": dict(R.known_hits),
        "service_stacks": len(scases), "service_requests": n_svc_req,
        "service_requests_by_path": dict(sorted(svc_counts.items())),
        "service_statuses": dict(sorted(svc_status.items())),
        "service_cel_paths_by_expected_class": dict(sorted(cel_outcomes.items())),
        "service_redirect_handler_codes": dict(sorted(redirect_codes.items())),
        "mechanism_cases": len(mcases),
        "cfgkeys_cases": len(ccases), "corpus_cases": len(corpus),
        "distribution": dict((k, dict(sorted(v.items()))) for k, v in sorted(stats.items())),
        "samples": [hcases[len(h_corpus) + len(fixed)],
                    dict(scases[-1], reqs=scases[-1]["reqs"][:3])],
        "probed_facts": facts if facts is not None else "probing failed: " + str(tie_error),
        "probe_cases": len(gen_errmap.probe_cases()),
        "exhaustive": False,
    })
    if not quick:
        R.coverage["small_scope"] = "all error terms of depth <= 2 over 5 leaves with containers of <= 2 children"
    R.assumptions += [
        "error values are trees of the modelled shapes; a foreign error never matches a heimdall sentinel or "
        "*RedirectError under errors.Is (validated for 5 foreign types incl. cellib.EvalError, not proved for all Go types)",
        "error messages are non-empty and the error values can be marshalled (a text/plain body of an empty message "
        "would be empty)",
        "net/http, gRPC, Envoy, the elnormous/contenttype parser (Accept header syntax), encoding/json and encoding/xml "
        "are modelled by their observable results and validated by the correspondence run only",
        "status codes travel as unbounded integers in the model (int / int32 in Go)",
        "CEL evaluation is not modelled: whether an expression of the services stream is true, false or fails at "
        "runtime for a request is computed by the generator's oracle (cel_map / cel_idx / cel_div), the model starts "
        "from that outcome",
        "Accept headers reach the model in parsed form; the rendering of the generator is trusted",
        "round 5: net/http's response writer is modelled by its status logic only (informational statuses are sent and "
        "do not count as the final one, later WriteHeader calls are ignored, no final status = 200); the dump "
        "middleware by its WriteHeader hook; httputil.ReverseProxy by 'each informational response of the upstream is "
        "handed to WriteHeader, a RoundTrip error to the ErrorHandler' — all validated by the services stream with a "
        "scripted raw-TCP upstream only; the transfer of response BODIES is not modelled (an upstream dying in the "
        "middle of the body is judged by the generator's oracle: failure status or visibly aborted transfer)",
        "round 5: the outcomes of a token request (TokenOutcome) are an enumeration of what clientcredentials."
        "fetchToken distinguishes, found by reading it and validated against a scripted token endpoint; token caching "
        "is switched off (cache_ttl: 0s) so that every request fetches a token; which class a fault of the token "
        "endpoint OUGHT to have is the generator's table (TOKEN_FAULTS: communication whenever heimdall could not "
        "talk to the token endpoint or was refused a token, internal for a 200 which is no token document)",
        "the context of the request is modelled by its state at the moment the failure reaches the handler (live / "
        "cancelled / deadline exceeded); WHEN net/http cancels it (read EOF incl. a half-closed connection, client "
        "gone, HTTP/2 stream reset) is net/http's business and exercised by the services stream with a real "
        "half-closing TCP client only; a cancelled Envoy RPC has no response to observe (grpc-go answers the caller "
        "itself), the Envoy service is covered in-process (Handler.Check behind the interceptor with a cancelled / "
        "expired context)",
    ]

    # ---- known finding (proposed entry for known_findings.json in design/C12.md; vlib prints it once it is listed)
    listed = {f["id"] for f in vlib.known_findings().get("findings", []) if isinstance(f, dict) and "id" in f}
    for fid, n in R.known_hits.items():
        if n and fid not in listed:
            print(f"KNOWN-FINDING: property={PID} {KNOWN.get(fid, fid)} (seen {n}x this run)")

    # ---- verdicts
    reported = 0
    seen_kinds = set()
    for c, i, m, (kind, detail) in bad:
        sig = (kind, c["op"], detail.split(" answer")[0][-40:])
        if sig in seen_kinds or reported >= 6:
            continue
        seen_kinds.add(sig)
        reported += 1
        sc = shrink(exe, c)
        si, sm, _ = run_pair(exe, [sc])
        v2 = verdict(sc, si[0], sm[0]) or (kind, detail)
        what = {"impl-vs-spec": "the answer to a failure violates the property: ",
                "impl-vs-model": "the implementation no longer behaves like the proved model: ",
                "impl-crash": "the implementation side crashed: ", "driver": "model driver: "}[v2[0]] + v2[1]
        R.violation(what, {"case": sc, "impl": expand_sides(si[0]), "model": expand_sides(vlib.res_of(sm[0])),
                           "kind": v2[0]},
                    no_input=(v2[0] in ("impl-vs-model", "driver")))
    if tie_error:
        R.violation("the behaviour of the error translators no longer fits the shape of the proved model (probes of "
                    "the running code): " + tie_error,
                    {"extract_error": tie_error}, no_input=True)
    if not lean_ok:
        R.violation("theorems of Props/C12.lean no longer check (the regenerated tables differ from the model or a "
                    "proof broke): " + "; ".join(R.lean["failed"])[:600],
                    {"lean_log": R.lean["log"], "failed": R.lean["failed"], "theorems": R.lean.get("failed_theorems"),
                     "probed_facts": facts}, no_input=True)


def replay(R, path):
    with open(path) as fh:
        p = json.load(fh)
    exe = vlib.step_harness(R)
    c = p["case"] if "case" in p else p  # a replay file, or a bare case of corpus/C12
    if "tmp" in c:
        c["tmp"] = R.tmp
    impl, model, _ = run_pair(exe, [c])
    print("impl :", json.dumps(expand_sides(impl[0])))
    print("model:", json.dumps(expand_sides(vlib.res_of(model[0]))))
    if isinstance(model[0], dict) and "spec" in model[0]:
        print("spec :", json.dumps(model[0]["spec"]))
    R.coverage.update({"obligations": 1, "discharged": 1, "checker_cmd": "replay", "trusted_base": []})
    if c.get("op") == "svc" and known_hits(c, impl[0]):
        print(f"KNOWN-FINDING: property={PID} {KNOWN[gen_errmap.KNOWN_BODY_CUT]} (seen {known_hits(c, impl[0])}x in "
              f"this replay)")
    v = verdict(c, impl[0], model[0])
    if v is not None:
        R.violation("replay still fails: " + v[1], {"case": c, "impl": expand_sides(impl[0]),
                                                    "model": expand_sides(vlib.res_of(model[0]))},
                    no_input=(v[0] == "impl-vs-model"))
